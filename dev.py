#!/usr/bin/env python3-vt
"""developer runner: python3-vt dev.py <contract-module> [key-substring]"""
import sys, importlib, time, os
ROOT = os.path.dirname(os.path.abspath(__file__)); sys.path.insert(0, ROOT)
sys.setrecursionlimit(10000)
from pyvc.verifier import REG, Verifier
import os
REG.spec_source(os.path.join(ROOT, "contracts", "specs.py"))
for m in sys.argv[1].split(","):
    importlib.import_module("contracts." + m)
flt = sys.argv[2] if len(sys.argv) > 2 else ""
ver = Verifier(REG, timeout_ms=int(os.environ.get("TO", "10000")))
for c in REG.variants:
    if flt not in c.key + "#" + c.short:
        continue
    t0 = time.time()
    r = ver.verify(c)
    print("==", c.key, c.short, "paths", r["paths"], "exits", r["exits"], "q", r["queries"], "solver", r["solver_s"], "wall", r["wall_s"])
    agg = {}
    for ob in r["obligations"]:
        a = agg.setdefault(ob.name, {"proved": 0, "failed": 0, "unknown": 0})
        a[ob.status] += 1
    for k, v in sorted(agg.items()):
        flag = "OK " if v["failed"] == 0 and v["unknown"] == 0 else ("FAIL" if v["failed"] else "UNK ")
        print("  ", flag, k, v)
    for ob in r["obligations"]:
        if ob.status != "proved" and os.environ.get("SHOW"):
            print("   >>", ob.status, ob.name, ob.detail[:600]); print("      inputs", ob.inputs); print("      path", ob.path)
            break
    for e in r["errors"]:
        print("   ERROR", e)
