"""Trusted model of the few os / os.path calls used by snapshot *discovery* (C06): an abstract directory listing.

The directory is ghost state of the contract (declare the ghost variables you want to talk about; anything not
declared is an arbitrary fresh value):
    fs_isdir   : bool        -- os.path.isdir(directory)
    fs_listing : List[str]   -- what os.listdir(directory) returns (arbitrary names, arbitrary order, duplicates not
                                excluded); os.listdir may instead raise OSError (a fork of the path)
    fs_mtime_fails : bool (concrete True/False) -- os.path.getmtime raises OSError when True
    fs_listdir_raised : bool (init False)       -- set to True when the os.listdir fork that raises is taken
Assumed contracts (POSIX):
    os.path.join(a, b)   = b                       if b starts with "/"
                         = a + b                   if a == "" or a ends with "/"
                         = a + "/" + b             otherwise                      (posixpath.join, two arguments)
    os.path.getmtime(p)  = mtime(p), an uninterpreted function of the path (stable during one call of the function
                           under verification); it is evaluated as a pure function inside sort keys.
"""
from __future__ import annotations
import z3
from .values import *  # noqa
from .core import *  # noqa


def _ghost(I, name):
    g = getattr(I, "ghost_env", None)
    return g.lookup(name) if g is not None else None


def _isdir(I, args, kw):
    I.ver.note_assumption("os.path.isdir / os.listdir: abstract directory (ghost fs_isdir, fs_listing); listdir may raise OSError")
    g = _ghost(I, "fs_isdir")
    if g is not None:
        return g
    return VBool(I.path.fresh("isdir", z3.BoolSort()))


def _listdir(I, args, kw):
    if not I.spec:
        b = I.path.fresh("listdir_raises", z3.BoolSort())
        if I.path.branch(b):
            if _ghost(I, "fs_listdir_raised") is not None:
                I.ghost_env.set("fs_listdir_raised", VBool(True))
            raise PyRaise(VExc("OSError", [], any_subclass=True))
    g = _ghost(I, "fs_listing")
    if isinstance(g, VTuple):
        return g            # a concrete listing given as a tuple of names (bounded variants): iterated concretely
    if g is not None:
        return VSeq(g.arr, g.n, g.et, "list")
    return I.fresh_value(TList(TStr), "listdir")


def path_join2(a, b):
    sl = z3.StringVal("/")
    return z3.If(z3.PrefixOf(sl, b), b,
                 z3.If(z3.Or(z3.Length(a) == 0, z3.SuffixOf(sl, a)), z3.Concat(a, b), z3.Concat(a, sl, b)))


def path_join_uf(a, b):
    """os.path.join(a, b) as seen by contracts: the uninterpreted `fs_path_join` (keeps string concatenation out of
    the verification conditions); its definition `path_join2` is only used by lemmas (spec builtin path_join_def)"""
    return z3.Function("fs_path_join", z3.StringSort(), z3.StringSort(), z3.StringSort())(a, b)


def _join(I, args, kw):
    I.ver.note_assumption("os.path.join(a, b) = posixpath.join for two string arguments (opaque in contracts; "
                          "string facts about it are lemmas over its definition)")
    if len(args) != 2 or not all(isinstance(x, VStr) for x in args):
        raise Unsupported("os.path.join with %d arguments / non-string" % len(args))
    return VStr(path_join_uf(args[0].e, args[1].e))


def _getmtime(I, args, kw):
    g = _ghost(I, "fs_mtime_fails")
    if g is not None and const_of(g) is True:
        raise PyRaise(VExc("OSError", [], any_subclass=True))
    I.ver.note_assumption("os.path.getmtime(p) is an uninterpreted function of p (no concurrent modification during discovery)")
    f = z3.Function("fs_mtime", z3.StringSort(), z3.RealSort())
    return VReal(f(args[0].e))


def sp_is_tmp_name(I, args, kw):
    """is_tmp_name(s): opaque predicate in contracts; its definition is is_tmp_name_def (used by lemmas only)"""
    return VBool(z3.Function("fs_is_tmp_name", z3.StringSort(), z3.BoolSort())(args[0].e))


def sp_is_tmp_name_def(I, args, kw):
    """is_tmp_name_def(s): s has the form <anything> "." <8 characters of [a-z0-9_]> -- the names tempfile.NamedTemporaryFile
    (prefix=final.name + ".", default suffix) creates next to `final` in clematis/io/atomic.py:_make_tmp"""
    ch = z3.Union(z3.Range("a", "z"), z3.Range("0", "9"), z3.Re(z3.StringVal("_")))
    re = z3.Concat(z3.Full(z3.ReSort(z3.StringSort())), z3.Re(z3.StringVal(".")), z3.Loop(ch, 8, 8))
    return VBool(z3.InRe(args[0].e, re))


def sp_path_join(I, args, kw):
    return VStr(path_join_uf(args[0].e, args[1].e))


def sp_path_join_def(I, args, kw):
    return VStr(path_join2(args[0].e, args[1].e))


TABLE = {
    ("os.path", "isdir"): _isdir,
    ("os", "listdir"): _listdir,
    ("os.path", "join"): _join,
    ("os.path", "getmtime"): _getmtime,
}
SPEC_FUNCS = {"path_join": sp_path_join, "path_join_def": sp_path_join_def, "is_tmp_name": sp_is_tmp_name,
              "is_tmp_name_def": sp_is_tmp_name_def}
