"""Engine V: symbolic semantics of the Python subset and VC generation.

Execution model: one *path* at a time, re-executed from the function entry under a
prefix of recorded branch decisions (no state cloning needed; python exceptions of the
interpreted program are python exceptions of the interpreter).  Loops are cut by sidecar
invariants (unbounded) or unrolled to a stated bound (bounded mode).  Calls use the
callee's contract when one is registered (modular), otherwise the callee's real AST is
interpreted inline.
"""
from __future__ import annotations
import ast
import time
import z3

from .values import *  # noqa
from . import frontend


class PathEnd(Exception):
    def __init__(self, why=""):
        self.why = why


class Unsupported(Exception):
    pass


class PyRaise(Exception):
    def __init__(self, exc):
        self.exc = exc


class ReturnSig(Exception):
    def __init__(self, v):
        self.v = v


class BreakSig(Exception):
    pass


class ContinueSig(Exception):
    pass


EXC_PARENT = {
    "BaseException": None, "Exception": "BaseException", "KeyboardInterrupt": "BaseException",
    "SystemExit": "BaseException", "GeneratorExit": "BaseException",
    "ArithmeticError": "Exception", "ZeroDivisionError": "ArithmeticError", "OverflowError": "ArithmeticError",
    "LookupError": "Exception", "KeyError": "LookupError", "IndexError": "LookupError",
    "ValueError": "Exception", "TypeError": "Exception", "AttributeError": "Exception",
    "AssertionError": "Exception", "RuntimeError": "Exception", "NotImplementedError": "RuntimeError",
    "StopIteration": "Exception", "OSError": "Exception", "IOError": "Exception",
    "PermissionError": "OSError", "FileNotFoundError": "OSError", "FileExistsError": "OSError",
    "UnicodeError": "ValueError", "UnicodeDecodeError": "UnicodeError", "UnicodeEncodeError": "UnicodeError",
    "ImportError": "Exception", "ModuleNotFoundError": "ImportError", "NameError": "Exception",
    "RecursionError": "RuntimeError", "MemoryError": "Exception", "TimeoutError": "OSError",
    "JSONDecodeError": "ValueError",
}


def exc_is_sub(cls, base):
    c = cls
    seen = 0
    while c is not None and seen < 50:
        if c == base:
            return True
        c = EXC_PARENT.get(c)
        seen += 1
    return False


import os as _os
TRACE = bool(_os.environ.get("PYVC_TRACE"))


_HQ_PROBE = None


def _has_quant(e):
    """does the formula contain a quantifier / lambda?  (z3's own probe: C side, no python traversal)"""
    global _HQ_PROBE
    try:
        if z3.is_bool(e):
            if _HQ_PROBE is None:
                _HQ_PROBE = z3.Probe("has-quantifiers")
            g = z3.Goal()
            g.add(e)
            return _HQ_PROBE(g) != 0
    except z3.Z3Exception:
        pass
    return _has_quant_py(e)


def _has_quant_py(e):
    seen = set()
    stack = [e]
    while stack:
        x = stack.pop()
        if z3.is_quantifier(x):
            return True
        i = x.get_id()
        if i in seen:
            continue
        seen.add(i)
        if z3.is_app(x):
            stack.extend(x.children())
    return False


_HEAVY = {}


def _heavy_len(f):
    """a formula that bounds a string length by a large constant (len(s) <= 20000 ...).  z3's sequence solver
    needs seconds (and overruns its timeout) to build *models* for such constraints, while refutations are
    immediate.  Feasibility pre-checks therefore leave these formulas out (sound: dropping a constraint can only
    make more branches look feasible); proof obligations always use the full path condition."""
    i = f.get_id()
    hit = _HEAVY.get(i)
    if hit is not None:
        return hit[1]      # (the entry keeps the formula alive: z3 recycles the ids of freed terms)
    has_len = big = False
    seen = set()
    st = [f]
    while st and not (has_len and big):
        x = st.pop()
        if x.get_id() in seen:
            continue
        seen.add(x.get_id())
        if z3.is_quantifier(x):
            st.append(x.body())
        elif z3.is_app(x):
            if x.decl().kind() == z3.Z3_OP_SEQ_LENGTH:
                has_len = True
            elif z3.is_int_value(x) and abs(x.as_long()) > 64:
                big = True
            st.extend(x.children())
    r = has_len and big
    if len(_HEAVY) > 200000:
        _HEAVY.clear()
    _HEAVY[i] = (f, r)
    return r


def _split_conj(phi, depth=0):
    if depth > 6:
        return [phi]
    if z3.is_and(phi):
        out = []
        for ch in phi.children():
            out.extend(_split_conj(ch, depth + 1))
        return out
    if z3.is_implies(phi):
        a, b = phi.children()
        bs = _split_conj(b, depth + 1)
        if len(bs) > 1:
            return [z3.Implies(a, x) for x in bs]
    if z3.is_or(phi) and len(phi.children()) == 2:
        a, b = phi.children()
        bs = _split_conj(b, depth + 1)
        if len(bs) > 1:
            return [z3.Or(a, x) for x in bs]
    if z3.is_quantifier(phi) and phi.is_forall():
        # forall x. (c => a & b)  ==  (forall x. c => a) & (forall x. c => b)
        n = phi.num_vars()
        vs = [z3.Const(phi.var_name(i), phi.var_sort(i)) for i in range(n)]
        body = z3.substitute_vars(phi.body(), *reversed(vs))
        bs = _split_conj(body, depth + 1)
        if len(bs) > 1:
            return [z3.ForAll(vs, b) for b in bs]
    return [phi]


class Obligation:
    __slots__ = ("name", "kind", "status", "detail", "model", "inputs", "path", "seconds", "backend", "where")

    def __init__(self, name, kind, status, detail="", model=None, inputs=None, path=None, seconds=0.0,
                 backend="z3", where=""):
        self.name, self.kind, self.status, self.detail = name, kind, status, detail
        self.model, self.inputs, self.path, self.seconds, self.backend = model, inputs, path, seconds, backend
        self.where = where


class Env:
    def __init__(self, parent=None, module=None):
        self.vars = {}
        self.parent = parent
        self.module = module if module is not None else (parent.module if parent else None)
        self.globals_decl = set()

    def lookup(self, name):
        e = self
        while e is not None:
            if name in e.vars:
                return e.vars[name]
            e = e.parent
        return None

    def set(self, name, v):
        self.vars[name] = v

    def find_env(self, name):
        e = self
        while e is not None:
            if name in e.vars:
                return e
            e = e.parent
        return None


class Path:
    """one execution path: path condition, decisions, solver."""

    def __init__(self, ver, prefix):
        self.ver = ver
        self.prefix = list(prefix)
        self.taken = []
        self.solver = z3.Solver()
        self.solver.set("timeout", ver.timeout_ms)
        self.qf = z3.Solver()          # quantifier-free part of the path condition (feasibility pre-check)
        self.qf.set("timeout", 2000)
        self.pc = []
        self.pc_has_quant = False
        self.counter = 0
        self.solver_s = 0.0
        self.ended = None
        self.assumptions_used = set()

    def fresh(self, hint, sort):
        self.counter += 1
        return z3.Const("%s!%d" % (hint, self.counter), sort)

    def qcounter(self):
        self.qn = getattr(self, "qn", 0) + 1
        return self.qn

    def fresh_name(self, hint):
        self.counter += 1
        return "%s!%d" % (hint, self.counter)

    def assume(self, phi):
        phi = z3.simplify(phi) if not z3.is_quantifier(phi) else phi
        if z3.is_true(phi):
            return
        self.pc.append(phi)
        if not _has_quant(phi) and not _heavy_len(phi):
            self.qf.add(phi)
        else:
            self.pc_has_quant = True

    def assume_bg(self, phi):
        """assume a quantified *background axiom* (theory of an uninterpreted symbol).  Proof obligations see it;
        branch-feasibility pre-checks leave it out (sound: fewer constraints = more branches look feasible) because
        confirming a model against quantified axioms is what makes those checks time out."""
        if not hasattr(self, "bg_ids"):
            self.bg_ids = set()
        self.bg_ids.add(phi.get_id())
        self.pc.append(phi)

    def _feas_pc(self):
        bg = getattr(self, "bg_ids", ())
        return [f for f in self.pc if not _heavy_len(f) and f.get_id() not in bg]

    def _check(self, extra):
        # identical (pc, goal) pairs recur because every path re-executes the common prefix; z3 terms are
        # hash-consed, so ids identify them
        key = (tuple(f.get_id() for f in self.pc), extra.get_id())
        hit = self.ver.check_cache.get(key)
        if hit is not None and hit[0] == z3.unsat:
            return hit
        r = self._check_nocache(extra)
        if r[0] == z3.unsat:
            self.ver.check_cache[key] = r
            self.ver.keep_alive.append((list(self.pc), extra))
        return r

    def _check_nocache(self, extra):
        t0 = time.time()
        # a fresh, non-incremental solver per obligation: z3's incremental mode (push/pop) uses a much
        # weaker strategy on quantified goals (10 s unknown vs 50 ms unsat on the same goal)
        s = z3.Solver()
        s.set("timeout", self.ver.timeout_ms)
        for f in self.pc:
            s.add(f)
        s.add(extra)
        r = s.check()
        m = None
        if r == z3.sat:
            try:
                m = s.model()
            except Exception:
                m = None
        self.last_reason = s.reason_unknown() if r == z3.unknown else ""
        dt = time.time() - t0
        self.solver_s += dt
        self.ver.solver_s += dt
        self.ver.queries += 1
        if TRACE and dt > 0.5:
            print("   [check %.2fs %s]" % (dt, r), str(extra)[:150])
        return r, m

    def feasible(self, c):
        """may this condition hold on the current path?  `unknown` counts as feasible (sound:
        an infeasible path explored needlessly can only make obligations vacuously true)."""
        key = ("feas", tuple(f.get_id() for f in self.pc), c.get_id())
        hit = self.ver.check_cache.get(key)
        if hit is not None:
            return hit
        r = self._feasible_nocache(c)
        self.ver.check_cache[key] = r
        self.ver.keep_alive.append((list(self.pc), c))
        return r

    def _feasible_nocache(self, c):
        t0 = time.time()
        try:
            if _heavy_len(c):
                return True
            if getattr(self.ver, "feas_fresh", False):
                # contracts with feas_fresh=True: a fresh (non-incremental) solver over the quantifier-free part of the
                # path condition; z3's incremental mode is several times slower on datatype/array/string models
                allf = self._feas_pc()
                qfs = [f for f in allf if not _has_quant(f)]
                if not _has_quant(c):
                    s = z3.Solver()
                    if getattr(self.ver, "feas_rlimit", None):
                        s.set("rlimit", 4 * self.ver.feas_rlimit)     # deterministic budget (see the note below)
                    else:
                        s.set("timeout", max(4 * self.ver.feas_timeout_ms, 400))
                    for f in qfs:
                        s.add(f)
                    s.add(c)
                    r = s.check()
                    if r == z3.unsat:
                        return False
                    if r == z3.sat and len(qfs) == len(allf):
                        return True
            elif not _has_quant(c):
                self.qf.push()
                self.qf.add(c)
                r = self.qf.check()
                self.qf.pop()
                if r == z3.unsat:
                    return False
                if r == z3.sat and not self.pc_has_quant:
                    # the whole path condition (background axioms aside, see assume_bg) is quantifier free:
                    # the incremental answer is final
                    return True
            s = z3.Solver()
            if getattr(self.ver, "feas_rlimit", None):
                # a contract-specific feasibility budget is a deterministic z3 resource limit, not a wall-clock timeout:
                # thousands of very short timer expirations per run occasionally crash z3's timer thread (SIGSEGV)
                s.set("rlimit", self.ver.feas_rlimit)
            else:
                s.set("timeout", self.ver.feas_timeout_ms)
            for f in self._feas_pc():
                s.add(f)
            s.add(c)
            return s.check() != z3.unsat
        finally:
            dt = time.time() - t0
            self.solver_s += dt
            self.ver.solver_s += dt
            self.ver.queries += 1
            if TRACE and dt > 0.5:
                print("   [feas %.2fs]" % dt, str(c)[:100])
                if _os.environ.get("PYVC_DUMPFEAS") and dt > 0.5:
                    Path._nd = getattr(Path, "_nd", 0) + 1
                    s2 = z3.Solver()
                    for f in self.pc:
                        if not _heavy_len(f):
                            s2.add(f)
                    s2.add(c)
                    open("/tmp/feas_%d.smt2" % Path._nd, "w").write(s2.to_smt2())

    def known(self, cond):
        """is cond implied by the path condition? (cheap check; False when not established quickly)"""
        c = z3.simplify(cond)
        if z3.is_true(c):
            return True
        if z3.is_false(c):
            return False
        return not self.feasible(z3.Not(c))

    def branch(self, cond):
        c = z3.simplify(cond)
        if z3.is_true(c):
            return True
        if z3.is_false(c):
            return False
        i = len(self.taken)
        if i < len(self.prefix):
            d = self.prefix[i]
        else:
            ft = self.feasible(c)
            ff = self.feasible(z3.Not(c))
            if ft and ff:
                self.ver.push_work(self.taken + [False])
                d = True
            elif ft:
                d = True
            elif ff:
                d = False
            else:
                raise PathEnd("infeasible")
        self.taken.append(d)
        self.assume(c if d else z3.Not(c))
        return d

    def choice(self):
        """demonic binary choice of the environment (e.g. "this I/O call fails"): both outcomes are possible by
        construction, so no feasibility query and no path-condition literal is needed"""
        i = len(self.taken)
        if i < len(self.prefix):
            d = self.prefix[i]
        else:
            self.ver.push_work(self.taken + [False])
            d = True
        self.taken.append(d)
        return d

    def prove(self, phi, name, kind="assert", where="", assume_form=None):
        """obligation: pc => phi.  Conjunctions are split into one query per conjunct.
        assume_form: an equivalent formula better suited as a hypothesis (skolemised, with triggers); it
        replaces phi as the fact recorded on the path once phi has been proved."""
        parts = _split_conj(phi)
        self._no_assume = assume_form is not None
        try:
            if len(parts) == 1:
                ok = self.prove1(parts[0], name, kind, where)
            else:
                ok = True
                for part in parts:
                    ok = self.prove1(part, name, kind, where) and ok
        finally:
            self._no_assume = False
        if assume_form is not None:
            self.assume(assume_form)
        return ok

    def _sliced_prove(self, p):
        """retries after an `unknown` on *subsets* of the hypotheses (sound: hypotheses are only dropped):
        rel1 / rel2 = the quantified facts that share an uninterpreted function or array symbol with the goal
        (directly / through one intermediate fact), sliced = without the multi-variable quantified facts; finally
        the full set under another random seed.  z3's quantifier instantiation is chaotic on goals whose context
        holds several axiom families (comprehension + permutation + order facts) that the goal does not need."""
        if _os.environ.get("PYVC_NO_SLICE"):
            return False

        def syms(f):
            out, seen, st = set(), set(), [f]
            while st:
                x = st.pop()
                if x.get_id() in seen:
                    continue
                seen.add(x.get_id())
                if z3.is_quantifier(x):
                    st.append(x.body())
                elif z3.is_app(x):
                    d = x.decl()
                    if d.kind() == z3.Z3_OP_UNINTERPRETED and (x.num_args() > 0 or z3.is_array(x)):
                        out.add(d.name())
                    st.extend(x.children())
            return out

        quant = [(f, syms(f)) for f in self.pc if _has_quant(f)]
        plain = [f for f in self.pc if not _has_quant(f)]
        g0 = syms(p)
        rel1 = [f for f, sy in quant if sy & g0]
        g1 = set(g0)
        for f, sy in quant:
            if sy & g0:
                g1 |= sy
        rel2 = [f for f, sy in quant if sy & g1]
        keep = [f for f in self.pc if not (z3.is_quantifier(f) and f.is_forall() and f.num_vars() >= 2)]
        plans = []
        if len(rel1) < len(quant):
            plans.append(("rel1", plain + rel1, 0))
        if len(keep) != len(self.pc):
            plans.append(("sliced", keep, 0))
        if len(rel1) < len(rel2) < len(quant):
            plans.append(("rel2", plain + rel2, 0))
        plans.append(("seed1", self.pc, 1))
        for tag, hyps, seed in plans:
            t0 = time.time()
            s = z3.Solver()
            s.set("timeout", max(2000, self.ver.timeout_ms // 2))
            if seed:
                s.set("random_seed", seed)
            for f in hyps:
                s.add(f)
            s.add(z3.Not(p))
            r = s.check()
            dt = time.time() - t0
            self.solver_s += dt
            self.ver.solver_s += dt
            self.ver.queries += 1
            if TRACE:
                print("   [retry %s %.2fs %s]" % (tag, dt, r))
            if r == z3.unsat:
                return True
        return False

    def prove1(self, phi, name, kind="assert", where=""):
        """obligation: pc => phi.  Records the verdict, then assumes phi."""
        self.ver.obligation_sites.add(name)
        p = z3.simplify(phi) if not z3.is_quantifier(phi) else phi
        if name in self.ver.failed_names:
            # already refuted / undischarged on another path: do not spend the budget again
            self.assume(p)
            return False
        if z3.is_true(p):
            self.ver.record(Obligation(name, kind, "proved", "trivial", path=list(self.taken), backend="simplify", where=where))
            return True
        t0 = time.time()
        wo = getattr(self, "witness_ors", {}).get(phi.get_id())
        if wo is not None:
            # exists_fn: a disjunction over candidate witnesses; any single disjunct suffices
            saved_to = self.ver.timeout_ms
            self.ver.timeout_ms = min(saved_to, 5000)
            try:
                for d in wo[1]:
                    if all(self._check(z3.Not(part))[0] == z3.unsat for part in _split_conj(d)):
                        self.ver.record(Obligation(name, kind, "proved", path=list(self.taken), seconds=time.time() - t0, where=where))
                        if kind != "post":
                            self.assume(p)
                        return True
            finally:
                self.ver.timeout_ms = saved_to
        r, m = self._check(z3.Not(p))
        dt = time.time() - t0
        dump = _os.environ.get("PYVC_DUMP")
        if dump and dump in name and r != z3.unsat:
            from .smt import goal_smt2
            fn = "/tmp/pyvc_dump_%d.smt2" % len(self.ver.results)
            open(fn, "w").write(goal_smt2(self.pc, p))
            print("   dumped", name, "->", fn)
        if r == z3.unsat:
            self.ver.record(Obligation(name, kind, "proved", path=list(self.taken), seconds=dt, where=where))
            if kind != "post" and not getattr(self, "_no_assume", False):
                self.assume(p)
            return True
        if r == z3.sat:
            inputs = None
            try:
                inputs = self.ver.concretize_inputs(m)
            except Exception as ex:  # pragma: no cover
                inputs = {"_error": repr(ex)}
            self.ver.record(Obligation(name, kind, "failed", detail=str(p)[:2000], model=str(m)[:4000], inputs=inputs,
                                       path=list(self.taken), seconds=dt, where=where))
        else:
            # unknown: first retry on a *subset* of the hypotheses (sound: dropping hypotheses can only lose proofs):
            # without the multi-variable quantified facts (order / distinctness axioms), whose instantiation
            # often drowns goals that do not need them; then the fallback portfolio on the dumped goal
            ok, backend = self._sliced_prove(p), "z3-sliced"
            if not ok:
                ok, backend = self.ver.fallback_prove(self.pc, p)
            if ok:
                self.ver.record(Obligation(name, kind, "proved", path=list(self.taken), seconds=time.time() - t0,
                                           backend=backend, where=where))
                if kind != "post" and not getattr(self, "_no_assume", False):
                    self.assume(p)
                return True
            self.ver.record(Obligation(name, kind, "unknown", detail=getattr(self, "last_reason", "") + " :: " + str(p)[:1500],
                                       path=list(self.taken), seconds=dt, where=where))
        if kind != "post":
            # postconditions are never hypotheses of later obligations (a refuted / undecided one even less)
            self.assume(p)
        return False


# ----------------------------------------------------------------------- helpers on values

def is_num(v):
    return isinstance(v, (VInt, VReal, VBool))


def to_real(v):
    if isinstance(v, VReal):
        return v.e
    if isinstance(v, VInt):
        return z3.ToReal(v.e)
    if isinstance(v, VBool):
        return z3.If(v.e, z3.RealVal(1), z3.RealVal(0))
    raise Unsupported("to_real of %s" % type(v).__name__)


def to_int(v):
    if isinstance(v, VInt):
        return v.e
    if isinstance(v, VBool):
        return z3.If(v.e, z3.IntVal(1), z3.IntVal(0))
    raise Unsupported("to_int of %s" % type(v).__name__)


def py_floordiv(a, b):
    return z3.If(b > 0, a / b, (-a) / (-b))


def py_mod(a, b):
    return a - b * py_floordiv(a, b)


def const_of(v):
    """python constant if the value is concrete, else None"""
    if isinstance(v, VNone):
        return None
    if isinstance(v, (VInt, VReal, VBool, VStr)):
        e = z3.simplify(v.e)
        if isinstance(v, VInt) and z3.is_int_value(e):
            return e.as_long()
        if isinstance(v, VBool) and (z3.is_true(e) or z3.is_false(e)):
            return z3.is_true(e)
        if isinstance(v, VStr) and z3.is_string_value(e):
            return e.as_string()
        if isinstance(v, VReal) and z3.is_rational_value(e):
            return float(e.numerator_as_long()) / float(e.denominator_as_long())
    return _NOCONST


_NOCONST = object()


def mk_const(c):
    if c is None:
        return VNone()
    if isinstance(c, bool):
        return VBool(c)
    if isinstance(c, int):
        return VInt(c)
    if isinstance(c, float):
        return VReal(c)
    if isinstance(c, str):
        return VStr(c)
    if isinstance(c, tuple):
        return VTuple([mk_const(x) for x in c])
    if c is Ellipsis:
        return VOpaque("Ellipsis")
    if isinstance(c, bytes):
        return VStr(c.decode("latin-1"))
    raise Unsupported("constant %r" % (c,))


class VOptObj(V):
    """optional heap thing (function / object): symbolic presence, python-side payload."""
    t = None

    def __init__(self, present, obj):
        self.present = present
        self.obj = obj
