"""Verdict, VIOLATION / KNOWN-FINDING lines, replay files and evidence/<id>.json."""
from __future__ import annotations
import json
import os
import re
import subprocess
import sys
import time

ROOT = os.path.dirname(os.path.dirname(os.path.abspath(__file__)))
REPO = os.environ.get("VERIF_REPO", "/repo")

TRUSTED_BASE = [
    "pyvc itself (home-made symbolic semantics of the Python subset; cross-checked by seeded mutants and native replays)",
    "z3 4.x/5.1 python API (fresh solver per obligation); cvc5 1.0.3 --strings-exp and z3-new CLI as fallbacks for unknown",
    "float arithmetic treated as mathematical reals (A-REAL); ints exact",
    "builtin containers: list/deque/dict/OrderedDict/set operations, sorted()/list.sort() = stable permutation ordered by key",
]


def safe(s):
    return re.sub(r"[^A-Za-z0-9_.#-]+", "_", s)[:150]


def load_known():
    p = os.path.join(ROOT, "known_findings.json")
    if not os.path.exists(p):
        return {"findings": [], "fixed": []}
    with open(p) as f:
        return json.load(f)


def match_known(known, prop, ob):
    for k in known.get("findings", []):
        if k.get("property") != prop:
            continue
        # line numbers in Engine-F obligation names ("...#0@L250") are not part of the identity of a finding
        if re.sub(r"@L\d+", "", k.get("obligation", "")) != re.sub(r"@L\d+", "", ob["name"]):
            continue
        wc = k.get("witness_contains")
        if wc:
            blob = json.dumps(ob.get("witness"), sort_keys=True, default=str) + " " + str(ob.get("where"))
            if isinstance(wc, str):
                wc = [wc]
            if not all(w in blob for w in wc):
                continue
        return k
    return None


def native_replay(path):
    """run the replay file against the real code; -> 'confirmed' | 'not-reproduced' | 'no-builder' | 'error'"""
    try:
        env = dict(os.environ)
        env["PYTHONPATH"] = REPO + os.pathsep + ROOT
        env["VERIF_REPO"] = REPO
        r = subprocess.run(["/venv/bin/python", os.path.join(ROOT, "pyvc", "native_replay.py"), path],
                           capture_output=True, text=True, timeout=120, env=env, cwd=ROOT)
        out = (r.stdout or "") + (r.stderr or "")
        for line in out.splitlines():
            if line.startswith("REPLAY:"):
                return line.split(":", 1)[1].strip(), out[-3000:]
        return "error", out[-3000:]
    except Exception as ex:
        return "error", repr(ex)


def finish(prop, tier, REG, results, lemma_results, wall, write_evidence=True):
    from pyvc.run import summarize
    known = load_known()
    crashes = [r for r in results if r.get("crash")]
    agg = summarize(results)
    errors_pre = []
    for lr in lemma_results:
        if lr["status"] in ("error",) or (lr.get("backend") == "engine-F" and lr["status"] == "unknown"):
            errors_pre.append("%s: %s" % (lr["name"], lr.get("detail", "")))
            continue
        agg[lr["name"]] = {"name": lr["name"], "key": "lemma", "contract": lr["name"], "kind": "lemma", "mode": "prove",
                           "vcs": 1, "proved": 1 if lr["status"] == "proved" else 0,
                           "failed": 1 if lr["status"] == "failed" else 0,
                           "unknown": 1 if lr["status"] == "unknown" else 0, "seconds": lr["seconds"],
                           "backends": {lr.get("backend", "z3")}, "where": lr.get("where", ""),
                           "witness": {"status": lr["status"], "detail": lr.get("detail", ""), "model": lr.get("model"),
                                       "inputs": lr.get("inputs")} if lr["status"] != "proved" else None,
                           "replay": lr.get("replay")}
    errors = list(errors_pre)
    for r in results:
        for e in r.get("errors", []):
            errors.append("%s: %s" % (r["short"], e))
    violations = []
    known_hits = []
    os.makedirs(os.path.join(ROOT, "replays", prop), exist_ok=True)
    n_obl = n_dis = 0
    bounded = []
    by_backend = {}
    for name, a in sorted(agg.items()):
        ok = a["failed"] == 0 and a["unknown"] == 0
        for b in a["backends"]:
            by_backend[b] = by_backend.get(b, 0) + 1
        if a["mode"] == "bounded":
            bounded.append({"obligation": name, "held": ok, "vcs": a["vcs"]})
        if ok:
            if a["mode"] != "bounded":
                n_obl += 1
                n_dis += 1
            continue
        k = match_known(known, prop, a)
        # Optional policy (PYVC_SCAFFOLD_UNKNOWN=undecided; default off): proof scaffolding (loop invariants) that the solver
        # can neither prove nor refute -- `unknown`, no counter-model -- means the *proof* no longer goes through, which is not
        # the same as the property being violated; with the switch on such obligations make the check undecided (exit 2).
        # Default: every obligation that was discharged on the unchanged tree and is not any more is reported as a violation
        # (`no-failing-input-found`), as the interface asks.  Measured on the seeded changes and on ten behaviour-preserving
        # refactorings (DESIGN.md section 10): the switch removes 1 of 1 remaining false alarms and loses 6 of 58 detections.
        scaffolding = "/inv-entry" in name or "/inv-preserved" in name      # cut-point assertions carry property-level claims: not scaffolding
        if scaffolding and a["failed"] == 0 and a["unknown"] > 0 and k is None and a["mode"] != "bounded" \
                and os.environ.get("PYVC_SCAFFOLD_UNKNOWN", "violation") == "undecided":
            errors.append("%s: proof scaffolding not re-established (solver: unknown, no counter-model): %s" % (
                name, str((a["witness"] or {}).get("detail", ""))[:160].replace("\n", " ")))
            n_obl += 1
            continue
        rp = os.path.join("replays", prop, safe(name) + ".json")
        w = a["witness"] or {}
        doc = {"property": prop, "obligation": name, "clause": a["where"], "function": a["key"],
               "verdict": "refuted (counter-model)" if a["failed"] else "not discharged (solver: unknown)",
               "solver_output": {"status": w.get("status"), "detail": w.get("detail"), "model": w.get("model")},
               "inputs": w.get("inputs"), "path_decisions": w.get("path"), "builder": a.get("replay"),
               "repo": REPO}
        with open(os.path.join(ROOT, rp), "w") as f:
            json.dump(doc, f, indent=1, default=str)
        status, out = ("no-builder", "")
        # a builder named *_search needs no counter-model: it looks for a failing input of the named clause natively
        # (bounded search on the real code); finding none leaves the violation as no-failing-input-found
        if a.get("replay") and ((a["failed"] and w.get("inputs")) or a["replay"].endswith("_search")):
            status, out = native_replay(os.path.join(ROOT, rp))
            doc["native_replay"] = {"status": status, "output": out}
            with open(os.path.join(ROOT, rp), "w") as f:
                json.dump(doc, f, indent=1, default=str)
        if k is not None:
            known_hits.append((k, name))
            continue
        if a["mode"] != "bounded":
            n_obl += 1
        violations.append((name, rp, status))
    # ---- output
    for r in sorted(results, key=lambda r: r["short"]):
        print("[%s] %-60s paths=%-4d vcs=%-5d solver=%6.1fs wall=%6.1fs %s" % (
            prop, (r["short"] + (" {%s}" % r["label"] if r.get("label") else ""))[:60], r["paths"], len(r["obligations"]), r["solver_s"], r["wall_s"],
            ("ERRORS: " + "; ".join(r["errors"])) if r.get("errors") else ""))
    for c in crashes:
        print("CRASH in %s:\n%s" % (c["short"], c["crash"]))
    for k, name in known_hits:
        print("KNOWN-FINDING: property=%s %s -- %s" % (prop, name, k.get("text", "")))
    for name, rp, status in violations:
        tail = "" if status == "confirmed" else " no-failing-input-found"
        print("FAILED OBLIGATION %s (%s)" % (name, status))
        print("VIOLATION property=%s replay=%s%s" % (prop, rp, tail))
    print("[%s] obligations=%d discharged=%d bounded=%d known=%d violations=%d errors=%d wall=%.1fs" % (
        prop, n_obl, n_dis, len(bounded), len(known_hits), len(violations), len(errors), wall))
    if crashes:
        rc = 3
    elif violations:
        rc = 1
    elif errors:
        rc = 2
    elif n_obl == 0 and not bounded:
        print("zero obligations generated: vacuous check")
        rc = 2
    else:
        rc = 0
    if write_evidence:
        assumptions = set()
        for r in results:
            assumptions.update(r.get("assumptions", []))
        extra = getattr(REG, "prop_notes", {}).get(prop, {})
        assumptions.update(extra.get("assumptions", []))
        samples = []
        for name, a in list(sorted(agg.items()))[:6]:
            samples.append({"obligation": name, "clause": a["where"][:300], "vcs": a["vcs"],
                            "verdict": "discharged" if a["failed"] == 0 and a["unknown"] == 0 else "not discharged",
                            "backend": sorted(a["backends"])})
        ev = {
            "property_id": prop, "tier": tier, "seed": int(os.environ.get("VERIF_SEED", "0") or 0),
            "level": "proof",
            "coverage": {
                "obligations": n_obl, "discharged": n_dis,
                "checker_cmd": "./check %s --tier %s" % (prop, tier),
                "trusted_base": TRUSTED_BASE + extra.get("trusted", []),
                "vcs_per_path": sum(a["vcs"] for a in agg.values()),
                "by_backend": by_backend,
                "solver_s": round(sum(r["solver_s"] for r in results) + sum(l["seconds"] for l in lemma_results), 2),
                "functions_under_contract": [
                    {"function": r["key"], "contract": r["short"], "label": r.get("label", ""), "source_sha256_16": r["source_sha"],
                     "lines": list(r["lines"]), "mode": r["mode"], "paths": r["paths"], "exits": r["exits"],
                     "vcs": len(r["obligations"]), "errors": r.get("errors", []),
                     "bounded_loops": r.get("bounded_loops", []), "bounds_hit": r.get("bounds_hit", [])}
                    for r in sorted(results, key=lambda r: r["short"])],
                "lemmas": [{"name": l["name"], "status": l["status"], "seconds": l["seconds"], "backend": l.get("backend", "z3")} for l in lemma_results],
                "bounded": bounded,
                "known_findings": [{"obligation": n, "text": k.get("text", "")} for k, n in known_hits],
                "undecided": errors,
                "samples": samples,
                "explanation": extra.get("explanation", ""),
                "what_extraction_drops": "comments, docstrings, annotations; nothing else: the FunctionDef nodes parsed "
                                         "from $VERIF_REPO on this run are interpreted symbolically",
            },
            "assumptions": sorted(assumptions) + extra.get("not_decided", []),
            "wall_s": round(wall, 2),
            "violations": len(violations),
        }
        os.makedirs(os.path.join(ROOT, "evidence"), exist_ok=True)
        with open(os.path.join(ROOT, "evidence", prop + ".json"), "w") as f:
            json.dump(ev, f, indent=1, default=str)
    return rc
