"""pyvc - a small deductive verifier for a stated subset of Python (see /verif/DESIGN.md)."""
