from __future__ import annotations
import json, os, sys
from .report import native_replay, ROOT


def run_replay_file(path):
    p = path if os.path.isabs(path) else os.path.join(ROOT, path)
    with open(p) as f:
        doc = json.load(f)
    print("obligation:", doc.get("obligation"))
    print("clause    :", doc.get("clause"))
    print("verdict   :", doc.get("verdict"))
    if not doc.get("builder") or not doc.get("inputs"):
        print("no native replay available for this obligation (no-failing-input-found)")
        return 0
    st, out = native_replay(p)
    print(out)
    print("native replay:", st)
    return 1 if st == "confirmed" else 0
