"""Contract registry and the per-function verification driver."""
from __future__ import annotations
import ast
import os
import time
import traceback
import z3

from .values import *  # noqa
from .core import *  # noqa
from .core import _NOCONST
from .interp import Interp, VEmptyList, VEmptySet, TOptObj, TDictRec
from . import frontend
from . import builtins as B


NOEXPORT = set()   # (contract short, clause name): proved for the function, not assumed at its call sites


def _pairs(xs, owner=None):
    out = []
    for i, x in enumerate(xs or []):
        if isinstance(x, (tuple, list)):
            out.append((x[0], x[1]))
            if len(x) > 2 and x[2] == "noexport" and owner is not None:
                NOEXPORT.add((owner, x[0]))
        else:
            out.append(("c%d" % i, x))
    return out


_ANCHORS = None


def loop_anchors():
    global _ANCHORS
    if _ANCHORS is None:
        import json
        p = os.path.join(os.path.dirname(os.path.dirname(os.path.abspath(__file__))), "loop_anchors.json")
        try:
            with open(p) as f:
                _ANCHORS = json.load(f)
        except OSError:
            _ANCHORS = {}
    return _ANCHORS


_LOCALS = None


def local_anchors():
    global _LOCALS
    if _LOCALS is None:
        import json
        p = os.path.join(os.path.dirname(os.path.dirname(os.path.abspath(__file__))), "local_anchors.json")
        try:
            with open(p) as f:
                _LOCALS = json.load(f)
        except OSError:
            _LOCALS = {}
    return _LOCALS


def local_renames(key, node):
    """{baseline local name: current local name} for locals of `key` that were *purely renamed* since the pinned tree:
    a baseline name that no longer exists is paired with a new name whose first binding has the same text once the
    new names are replaced by the old ones (fixpoint, so chains like `q = ..; eligible = [.. q ..]` resolve).  Anything
    that does not match exactly is left alone (the contract then fails with 'unknown name', i.e. undecided)."""
    import re
    base = local_anchors().get(key)
    if not base:
        return {}
    cur = frontend.local_bindings(node)
    bnames, cnames = [b[0] for b in base], [c[0] for c in cur]
    gone = [b for b in base if b[0] not in cnames]
    new = [c for c in cur if c[0] not in bnames]
    if not gone or not new:
        return {}
    m = {}

    def norm(text, extra):
        pairs = dict((v, k) for k, v in m.items())
        pairs.update(extra)
        for cn, bn in pairs.items():
            text = re.sub(r"(?<![A-Za-z0-9_])%s(?![A-Za-z0-9_])" % re.escape(cn), bn, text or "")
        return text
    changed = True
    while changed:
        changed = False
        for g, gt in gone:
            if g in m:
                continue
            cands = [n for n, nt in new if n not in m.values() and norm(nt, {n: g}) == gt]
            if len(cands) == 1:
                m[g] = cands[0]
                changed = True
    return m


class FunContract:
    """contract of a function-valued parameter / external callable"""

    def __init__(self, short, params=(), requires=(), ensures=(), returns=None, raises=None,
                 effects=(), effects_before=(), effects_exc=(), exc_info=None, pure_result=None):
        self.short = short
        self.params = list(params)
        self.requires = _pairs(requires)
        self.ensures = _pairs(ensures)
        # exc_info = (spec of type(e).__name__, spec of str(e)) of the exception the callable raises
        self.exc_info = exc_info
        # pure_result: the callable is a deterministic total function of its arguments (usable in spec mode,
        # e.g. as a sort key)
        self.pure_result = pure_result
        if pure_result is not None:
            self.ensures.append(("pure-result", "result == (%s)" % pure_result))
        self.returns = returns
        self.raises = raises
        self.effects = list(effects)
        self.effects_before = list(effects_before)
        self.effects_exc = list(effects_exc)

    def raises_list(self):
        return _raises_list(self.raises)


def _raises_list(r):
    if r is None or r == "none":
        return []
    if isinstance(r, str):
        return [(r, None)]
    if isinstance(r, dict):
        return list(r.items())
    return [(x, None) if isinstance(x, str) else tuple(x) for x in r]


class Contract:
    def __init__(self, key, prop, types=None, returns=None, requires=(), ensures=(), ensures_exc=(),
                 raises=None, modifies=None, effects=(), loops=None, locals=None, inline=False, funcs=None,
                 ghost=None, mode="prove", unroll=None, comps=None, name=None, setup=(), max_paths=None,
                 frame=None, lock=None, replay=None, timeout_ms=None, axioms=(), post_setup=(), pure_result=None, asserts=None, nonlinear=False, unreachable_ok=(),
                 region=None, sort_facts=True, feas_timeout_ms=None, named_seqs=False,
                 fs_inv=(), fs_policy=(), fs_opts=None, call_pre=None, witnesses=None, abstract_str_order=False, label="",
                 strict_comps=False, feas_fresh=False):
        self.key = key
        self.feas_fresh = feas_fresh   # branch-feasibility pre-checks use a fresh solver instead of the incremental one
        self.strict_comps = strict_comps   # execute comprehension bodies once in exec mode: their exceptions count
        self.prop = prop if isinstance(prop, (list, tuple)) else [prop]
        self.short = name or key.split(":", 1)[1]
        self.types = dict(types or {})
        self.returns = returns
        self.requires = _pairs(requires)
        self.ensures = _pairs(ensures, self.short)
        self.ensures_exc = _pairs(ensures_exc)
        self.raises = raises
        # modifies=None: frame not declared (legacy: callers havoc nothing and the use is listed as an assumption);
        # a declared list (possibly empty) is *verified* against the body by Verifier.check_frame
        self.modifies_declared = modifies is not None
        self.modifies = list(modifies or [])
        self.effects = list(effects)
        self.loops = dict(loops or {})
        self.locals = dict(locals or {})
        self.inline = inline
        self.funcs = dict(funcs or {})
        self.ghost = dict(ghost or {})
        self.mode = mode
        self.unroll = unroll
        self.comps = dict(comps or {})
        self.setup = list(setup)
        self.max_paths = max_paths
        self.frame = frame
        self.lock = lock
        self.replay = replay
        self.timeout_ms = timeout_ms
        self.axioms = list(axioms)
        self.post_setup = list(post_setup)
        self.asserts = dict(asserts or {})
        self.nonlinear = nonlinear
        self.region = region
        self.sort_facts = sort_facts
        self.named_seqs = named_seqs
        self.feas_timeout_ms = feas_timeout_ms   # budget of one branch-feasibility query (unknown counts as feasible: sound)
        # abstract file system (pyvc/fsmodel.py): crash invariant proved after every effect on the ghost `fs`,
        # effect policy proved at every effect (spec over fs_op / fs_target), fault-alphabet options
        self.fs_inv = _pairs(fs_inv)
        self.fs_policy = _pairs(fs_policy)
        self.fs_opts = dict(fs_opts or {})
        # {callee key: [(name, spec)]}: caller-side obligations proved in this function's own environment right
        # before a modular call it makes to that callee (what the caller must have established by then)
        self.call_pre = {k: _pairs(v) for k, v in (call_pre or {}).items()}
        # witnesses = {binder: ["lambda j: <spec expr over the function's locals>", ...]}: candidate witnesses for
        # `exists_fn(binder, ...)` clauses of this contract (only used when the clause is *proved*)
        self.witnesses = dict(witnesses or {})
        self.abstract_str_order = abstract_str_order
        self.unreachable_ok = list(unreachable_ok)
        self.label = label   # free text shown next to the contract name in reports
        self.pure_result = pure_result
        if pure_result is not None:
            self.ensures.append(("pure-result", "result == (%s)" % pure_result))

    def raises_list(self):
        return _raises_list(self.raises)


class Registry:
    """everything the sidecar contract files declare"""

    def __init__(self):
        self.types = TypeEnv()
        self.contracts = {}        # key -> Contract (callee contracts used modularly)
        self.variants = []         # all contracts to verify (several per key allowed)
        self.spec_modules = []     # (ModuleInfo-like for spec helper functions)
        self.spec_funcs = {}       # name -> (FunctionDef, module)
        self.aggregates = {}       # name -> (map type name, value expr src)
        self.objtypes = {}         # class name -> TObj
        self.fn_locals = {}        # function key -> {local: type str}
        self.loop_specs = {}       # function key -> {ordinal: spec}
        self.lemmas = []           # (name, prop, builder)
        self.consts = {}           # spec-level named constants
        self.ufs = {}
        self.ghostfuns = {}
        self.opaques = {}
        self.fclauses = []
        self.assumed = []          # contracts used at call sites but not verified (dependencies)
        self.callable_uns = {}     # uninterpreted sort name -> funtype name (values of the sort are callables)
        from .jsontree import TJObj, TJList
        self.types.declare("JObj", TJObj())   # python-side JSON object model (bounded checks, see jsontree.py)
        self.types.declare("JList", TJList())

    # --- declaration API used by /verif/contracts/*.py
    def record(self, name, fields, pyclass=None, dictlike=False):
        """frozen record value.  dictlike=True: the value models an (immutable) dict with a fixed universe of string
        keys -- field k = value of key k, optional bool field has_k = presence (see builtins._rec_dict_key)"""
        t = TRec(name, {k: self.types.parse(v) for k, v in fields.items()}, pyclass)
        t.dictlike = dictlike
        self.types.declare(name, t)
        return t

    def union(self, name, variants, fields):
        """tagged union of frozen dataclasses that live in one list (e.g. the ops of a plan): one record type `name`
        with the hidden tag `_cls` (class name) and the union of all fields.  `variants` maps each class name to
        the fields that class declares.  Constructing `Cls(...)` sets the tag and leaves the other classes' fields
        unspecified; reading a field that the runtime class does not declare is an AttributeError (or the getattr
        default); `isinstance` tests the tag; `==` compares the tag and the fields of that class.  No relation
        between the tag and any `kind`-like field is assumed."""
        fs = {"_cls": TStr}
        fs.update({k: self.types.parse(v) for k, v in fields.items()})
        t = TRec(name, fs)
        t.variants = {c: list(fl) for c, fl in variants.items()}
        self.types.declare(name, t)
        for c in variants:
            self.types.declare(c, t)
        return t

    def keyrec(self, name, fields):
        """a python dict with a fixed set of constant string keys, modelled as an (immutable, encodable) *record value* so
        that it can live in lists/maps and compares with plain z3 datatype equality (cheap under quantifiers; use
        R.dictshape -- presence bits, python dict equality -- when absent-key values must not influence `==`).
        A key declared as "k?" may be absent (encoded as Optional: none = absent; a present key with value None is outside
        the model): d[k] raises KeyError, d.get(k[, dflt]) yields None/dflt, `k in d` is false.  Other keys are always
        present.  `{**d, "k": v}` yields the declared keyrec whose key set is the union.  Mutation is unsupported."""
        self._fresh_name(name)
        fs, opt = {}, set()
        for k, v in fields.items():
            t = self.types.parse(v)
            if k.endswith("?"):
                k = k[:-1]
                opt.add(k)
                t = TOpt(t)
            fs[k] = t
        t = TRec(name, fs, None)
        t.dictshape = True      # (engine flag of this model; `dictlike` is R.record(..., dictlike=True), the has_k-style model)
        t.optkeys = opt
        self.types.declare(name, t)
        return t

    def _fresh_name(self, name):
        if name in self.types.named and name not in ("K", "V"):
            raise ValueError("type name %r is declared twice across contract files (names are global)" % name)

    def objtype(self, name, fields, cls=None):
        self._fresh_name(name)
        fs = {}
        for k, v in fields.items():
            fs[k] = v
        t = TObj(name, fs, cls)
        self.types.declare(name, t)
        self.objtypes[name] = t
        return t

    def dictrec(self, name, fields):
        t = TDictRec(fields)
        self.types.declare(name, t)
        return t

    def mutrec(self, name, fields):
        """mutable dict-shaped record with fixed string keys that lives *by value* inside maps / lists
        (e.g. the edge records of the GEL store); see values.TMutRec"""
        t = TMutRec(name, {k: self.types.parse(v) for k, v in fields.items()})
        self.types.declare(name, t)
        return t

    def dictshape(self, name, required=None, optional=None):
        """dict-shaped record (TDRec): a z3-encodable dict with fixed possible keys; `optional` keys may be absent"""
        t = TDRec(name, {k: self.types.parse(v) for k, v in (required or {}).items()},
                  {k: self.types.parse(v) for k, v in (optional or {}).items()})
        self.types.declare(name, t)
        return t

    def optobj(self, name, inner):
        t = TOptObj(self.types.parse(inner))
        self.types.declare(name, t)
        return t

    def funtype(self, name, **kw):
        fc = FunContract(name, **kw)
        t = TFun(name)
        t.fc = fc
        self.types.declare(name, t)
        return t

    def untype(self, name, callable=None, strlike=False):
        """uninterpreted sort; with callable=<funtype name> its values are opaque callables (storable in
        lists/tuples) whose calls obey that function contract (`self_fn` names the called value there).
        strlike=True: the values are python strings that the code only hashes, compares (==, <) and passes through
        str(): an opaque totally ordered key sort (str(x) is x, isinstance(x, str))."""
        t = TUn(name)
        if strlike:
            STRLIKE.add(name)
        self.types.declare(name, t)
        if callable is not None:
            self.callable_uns[name] = callable
        return t

    def aggregate(self, name, maptype, value_expr):
        self.aggregates[name] = (self.types.parse(maptype).name, value_expr)

    def contract(self, key, prop, callee=True, verify=True, **kw):
        c = Contract(key, prop, **kw)
        if verify:
            self.variants.append(c)
        else:
            self.assumed.append(c)
        if callee and key not in self.contracts:
            self.contracts[key] = c
        if c.loops:
            self.loop_specs.setdefault(key, {}).update(c.loops)
        if c.locals:
            self.fn_locals.setdefault(key, {}).update(c.locals)
        return c

    def loops(self, key, specs, locals=None):
        """loop invariants for a function that is only ever interpreted inline"""
        self.loop_specs.setdefault(key, {}).update(specs)
        if locals:
            self.fn_locals.setdefault(key, {}).update(locals)

    def spec_source(self, path):
        """register a python file whose top level functions are spec helpers"""
        with open(path, "r", encoding="utf-8") as f:
            src = f.read()
        tree = ast.parse(src, filename=path)

        class M:
            relpath = path
            functions = {}
            classes = {}
            consts = {}
            imports = {}
        m = M()
        for st in tree.body:
            if isinstance(st, ast.FunctionDef) and any(
                    (isinstance(d, ast.Name) and d.id == "spec") for d in st.decorator_list):
                self.spec_funcs[st.name] = (st, m)

    def region(self, tag, selector):
        """name a statement region of a function: selector(FunctionDef) -> list of its statement nodes.
        A contract with key '<function key>#<tag>' verifies exactly those statements (free variables = `types`)."""
        frontend.REGION_SELECTORS[tag] = selector

    def lemma(self, name, prop, builder):
        self.lemmas.append((name, prop, builder))

    def fclause(self, prop, name, kind, key, **kw):
        """Engine F clause (see pyvc/effects.py)"""
        d = dict(kw)
        d.update({"prop": prop if isinstance(prop, (list, tuple)) else [prop], "name": name, "kind": kind, "key": key})
        self.fclauses.append(d)

    def uf(self, name, argtypes, rettype):
        """uninterpreted (ghost) spec function; its defining axioms are given per contract (`axioms=`)"""
        if name in self.spec_funcs or name in self.ufs or name in self.ghostfuns:
            raise ValueError("spec name %r is declared twice across contract files (names are global)" % name)
        self.ufs[name] = ([self.types.parse(a) for a in argtypes], self.types.parse(rettype))

    def opaque(self, key, specname, argtypes=None, rettype=None):
        """callers (and specs, under `specname`) see the repository function `key` only as a deterministic
        function of its arguments (uninterpreted); its body is verified by its own contract"""
        if argtypes is not None:
            self.uf(specname, argtypes, rettype)
        self.opaques[key] = specname

    def ghostfun(self, name, params, requires=(), ensures=()):
        """ghost lemma call: `name(args)` in a setup/post_setup statement proves `requires` (named obligations)
        and then assumes `ensures` for those args.  The implication requires => ensures must be proved
        separately (R.lemma) or be listed as trusted."""
        self.ghostfuns[name] = (list(params), list(requires), list(ensures))


REG = Registry()
_BUILTIN_EXC = set(EXC_PARENT)


class Verifier:
    def __init__(self, reg, repo=None, timeout_ms=10000, unroll_bound=3, max_paths=3000):
        self.reg = reg
        self.types = reg.types
        self.contracts = reg.contracts
        self.repo = repo or frontend.REPO
        self.timeout_ms = timeout_ms
        self.unroll_bound = unroll_bound
        self.max_paths = max_paths
        self.max_depth = 12
        self.no_if_conversion = bool(os.environ.get("PYVC_NO_IFCONV"))
        self.no_patterns = bool(os.environ.get("PYVC_NO_PATTERNS"))
        self.nonlinear = bool(os.environ.get("PYVC_NONLINEAR"))
        self.abstract_str_order = False
        self.feas_timeout_ms = 400
        self.solver_s = 0.0
        self.queries = 0
        self._q = 0
        self.assumptions = set()
        self._spec_cache = {}
        self._order_fns = {}
        self._str_fns = {}
        self.cur = None
        self.check_cache = {}
        self.keep_alive = []
        self.failed_names = set()
        self.obligation_sites = set()

    # ---------------------------------------------------------------- small services
    def qcounter(self):
        self._q += 1
        return self._q

    def note_assumption(self, s):
        self.assumptions.add(s)

    def parse_spec(self, src):
        if isinstance(src, ast.AST):
            return src
        if src not in self._spec_cache:
            self._spec_cache[src] = ast.parse(src.strip(), mode="eval").body
        return self._spec_cache[src]

    def order_fn(self, t):
        if t.name not in self._order_fns:
            f = z3.Function("le_" + t.nm, t.sort(), t.sort(), z3.BoolSort())
            self._order_fns[t.name] = f
        return self._order_fns[t.name]

    def order_axioms(self, t):
        f = self.order_fn(t)
        a, b, c = z3.Consts("oa ob oc", t.sort())
        return [z3.ForAll([a], f(a, a)),
                z3.ForAll([a, b], z3.Or(f(a, b), f(b, a))),
                z3.ForAll([a, b], z3.Implies(z3.And(f(a, b), f(b, a)), a == b)),
                z3.ForAll([a, b, c], z3.Implies(z3.And(f(a, b), f(b, c)), f(a, c)))]

    def str_fn(self, name):
        if name not in self._str_fns:
            self._str_fns[name] = z3.Function("str_" + name, z3.StringSort(), z3.StringSort())
        return self._str_fns[name]

    def opaque_str(self, tag, v, I):
        """an unmodelled string-valued operation: uninterpreted function of its (encodable) argument"""
        try:
            t = typeof(v)
            f = z3.Function("ostr_%s_%s" % (tag, "".join(c if c.isalnum() else "_" for c in t.name)),
                            t.sort(), z3.StringSort())
            return VStr(f(unwrap(v, t)))
        except Exception:
            self.note_assumption("unmodelled string operation '%s' havoc'd" % tag)
            return VStr(I.path.fresh("ostr_" + tag, z3.StringSort()))

    def pow_term(self, I, a, b):
        f = z3.Function("pow", z3.RealSort(), z3.RealSort(), z3.RealSort())
        r = f(a, b)
        # trusted facts about real exponentiation used by the contracts
        I.path.assume(z3.Implies(z3.And(a > 0), r > 0))
        I.path.assume(z3.Implies(z3.And(a > 0, a <= 1, b >= 0), r <= 1))
        I.path.assume(z3.Implies(b == 0, r == 1))
        self.note_assumption("x**y: only 0<x => x**y>0, 0<x<=1 & y>=0 => x**y<=1, x**0==1 are used")
        return r

    def mul_real(self, a, b):
        """x*y with two symbolic real operands is the uninterpreted `mulr` (keeps goals linear); every
        arithmetic fact about it is supplied by a ghost lemma proved with true multiplication (R.lemma)."""
        sa, sb = z3.simplify(a), z3.simplify(b)
        if self.nonlinear or z3.is_rational_value(sa) or z3.is_rational_value(sb):
            return a * b
        f = z3.Function("mulr", z3.RealSort(), z3.RealSort(), z3.RealSort())
        self.note_assumption("products/quotients of two symbolic reals are uninterpreted (mulr/divr); arithmetic facts about "
                             "them come only from ghost lemmas proved over true real arithmetic")
        return f(a, b)

    def div_real(self, a, b):
        sb = z3.simplify(b)
        if self.nonlinear or z3.is_rational_value(sb):
            return a / b
        f = z3.Function("divr", z3.RealSort(), z3.RealSort(), z3.RealSort())
        return f(a, b)

    def floordiv_term(self, I, a, b):
        """a // b with a symbolic divisor: an uninterpreted function plus sound linear facts
        (keeps the goals out of nonlinear integer arithmetic; equal operands give equal results)."""
        f = z3.Function("py_floordiv", z3.IntSort(), z3.IntSort(), z3.IntSort())
        if not getattr(I.path, "_fd_axiom", False):
            I.path._fd_axiom = True
            x, y = z3.Ints("fd_x fd_y")
            I.path.assume(z3.ForAll([x, y], z3.Implies(z3.And(y > 0, x >= 0), z3.And(f(x, y) >= 0, f(x, y) <= x)),
                                    patterns=[f(x, y)]))
            I.path.assume(z3.ForAll([x, y], z3.Implies(z3.And(y > 0, x < 0), f(x, y) < 0), patterns=[f(x, y)]))
            self.note_assumption("x // y with symbolic y is an uninterpreted function constrained only by "
                                 "0 <= x//y <= x (x>=0,y>0) and x//y < 0 (x<0,y>0)")
        return f(a, b)

    def mod_term(self, I, a, b):
        f = z3.Function("py_mod", z3.IntSort(), z3.IntSort(), z3.IntSort())
        if not getattr(I.path, "_md_axiom", False):
            I.path._md_axiom = True
            x, y = z3.Ints("md_x md_y")
            I.path.assume(z3.ForAll([x, y], z3.Implies(y > 0, z3.And(f(x, y) >= 0, f(x, y) < y)), patterns=[f(x, y)]))
            I.path.assume(z3.ForAll([x], f(x, 1) == 0, patterns=[f(x, 1)]))
            self.note_assumption("x % y with symbolic y is an uninterpreted function constrained only by 0 <= x%y < y (y>0), x%1 == 0")
        return f(a, b)

    def round_term(self, I, x, nd):
        f = z3.Function("round_nd", z3.RealSort(), z3.IntSort(), z3.RealSort())
        return f(x, to_int(nd))

    def round_int_term(self, I, x):
        f = z3.Function("round_int", z3.RealSort(), z3.IntSort())
        return f(x)

    def join_term(self, I, sep, xs):
        t = xs.t
        f = z3.Function("str_join_" + "".join(c if c.isalnum() else "_" for c in t.name),
                        z3.StringSort(), t.sort(), z3.StringSort())
        if t == TList(TStr):
            self.split_join_axioms(I)
        return f(sep.e, unwrap(xs, t))

    def split_join_axioms(self, I):
        """Trusted facts about whitespace tokenisation (str.split() without separator) and str.join, added once
        per path the first time either is used.  `str_is_token(x)` is an uninterpreted predicate read as
        "x is non-empty and contains no whitespace character (str.isspace)".
          T1  every element of s.split() is a token
          T2  for a list xs (len >= 0) of tokens:  " ".join(xs).split() == xs   (same length, same elements)
          T3  sep.join([]) == ""
          T4  a token is a non-empty string
        (T2 with xs == [] and T3 give "".split() == [].)  Everything else about split/join stays uninterpreted."""
        if getattr(I.path, "_sj_axiom", False):
            return
        I.path._sj_axiom = True
        t = TList(TStr)
        split = z3.Function("str_split_ws", z3.StringSort(), t.sort())
        join = z3.Function("str_join_" + "".join(c if c.isalnum() else "_" for c in t.name),
                           z3.StringSort(), t.sort(), z3.StringSort())
        tok = z3.Function("str_is_token", z3.StringSort(), z3.BoolSort())
        s, sep = z3.Strings("sj_s sj_sep")
        xs = z3.Const("sj_xs", t.sort())
        i, j = z3.Ints("sj_i sj_j")
        arr, n = t.dt.arr, t.dt.n
        sp = z3.StringVal(" ")
        el = z3.Select(arr(split(s)), i)
        I.path.assume(z3.ForAll([s, i], z3.Implies(z3.And(0 <= i, i < n(split(s))), tok(el)), patterns=[el]))
        back = split(join(sp, xs))
        all_tok = z3.ForAll([i], z3.Implies(z3.And(0 <= i, i < n(xs)), tok(z3.Select(arr(xs), i))))
        same = z3.ForAll([j], z3.Implies(z3.And(0 <= j, j < n(xs)), z3.Select(arr(back), j) == z3.Select(arr(xs), j)),
                         patterns=[z3.Select(arr(back), j)])
        I.path.assume(z3.ForAll([xs], z3.Implies(z3.And(n(xs) >= 0, all_tok), z3.And(n(back) == n(xs), same)),
                                patterns=[join(sp, xs)]))
        I.path.assume(z3.ForAll([sep, xs], z3.Implies(n(xs) == 0, join(sep, xs) == z3.StringVal("")), patterns=[join(sep, xs)]))
        I.path.assume(z3.ForAll([s], z3.Implies(tok(s), z3.Length(s) > 0), patterns=[tok(s)]))
        self.note_assumption("str.split()/' '.join: uninterpreted except (T1) elements of s.split() are tokens, (T2) ' '.join(xs).split() == xs "
                             "for a list of tokens, (T3) sep.join([]) == '', (T4) tokens are non-empty")

    def split_term(self, I, s, args, kw):
        t = TList(TStr)
        if args:
            f = z3.Function("str_split", z3.StringSort(), z3.StringSort(), t.sort())
            r = t.wrap(f(s.e, args[0].e))
        else:
            f = z3.Function("str_split_ws", z3.StringSort(), t.sort())
            r = t.wrap(f(s.e))
            self.split_join_axioms(I)
        I.path.assume(r.n >= 0)
        if args:
            I.path.assume(r.n >= 1)
        return r

    def fs_method(self, I, f, name, args, kw):
        """methods of file objects: trusted contracts of the abstract file system (pyvc/fsmodel.py)"""
        from . import fsmodel
        return fsmodel.file_method(I, f, name, args, kw)

    # ---------------------------------------------------------------- aggregates (ghost sums over maps)
    def _agg_f(self, I, agg, m, val_e):
        src = self.reg.aggregates[agg][1]
        v = I.eval_spec_value(src, Env(None, None), extra={"v": m.vt.wrap(val_e)})
        return to_int(v)

    def agg_term(self, I, m, agg):
        if not hasattr(m, "aggs"):
            m.aggs = {}
        if agg not in m.aggs:
            c0 = const_of(VInt(m.card))
            if c0 == 0:
                m.aggs[agg] = z3.IntVal(0)
            else:
                t = I.path.fresh("agg_" + agg, z3.IntSort())
                m.aggs[agg] = t
                I.path.assume(z3.Implies(m.card == 0, t == 0))
        return m.aggs[agg]

    def _aggs_for(self, m):
        if not isinstance(m, VMap):
            return []
        tn = m.t.name
        return [a for a, (mt, _) in self.reg.aggregates.items() if mt == tn]

    def _agg_lemmas(self, I, m, agg, kk):
        t = self.agg_term(I, m, agg)
        k = z3.Const("ag_k", m.kt.sort())
        fk = self._agg_f(I, agg, m, z3.Select(m.val, k))
        fkk = self._agg_f(I, agg, m, z3.Select(m.val, kk))
        nonneg = z3.ForAll([k], z3.Implies(z3.Select(m.dom, k), fk >= 0))
        I.path.assume(z3.Implies(nonneg, z3.And(t >= 0, z3.Implies(z3.Select(m.dom, kk), t >= fkk))))
        I.path.assume(z3.Implies(z3.And(z3.Select(m.dom, kk), m.card == 1), t == fkk))
        I.path.assume(z3.Implies(m.card == 0, t == 0))
        self.note_assumption("finite-map aggregate lemmas (sum over a map: empty=0, singleton, insert/remove/update one key, "
                             "non-negative summands) are instantiated, not proved here")

    def on_map_store(self, I, m, kk, ve, was):
        for agg in self._aggs_for(m):
            self._agg_lemmas(I, m, agg, kk)
            old = self.agg_term(I, m, agg)
            fo = self._agg_f(I, agg, m, z3.Select(m.val, kk))
            fn = self._agg_f(I, agg, m, ve)
            m.aggs[agg] = z3.simplify(old - z3.If(was, fo, 0) + fn)
            # post-state lemma instances need the post-state arrays: emitted by the caller through on_map_after
            m._pending_agg = getattr(m, "_pending_agg", []) + [(agg, kk)]

    def on_map_remove(self, I, m, kk):
        for agg in self._aggs_for(m):
            self._agg_lemmas(I, m, agg, kk)
            old = self.agg_term(I, m, agg)
            fo = self._agg_f(I, agg, m, z3.Select(m.val, kk))
            m.aggs[agg] = z3.simplify(old - fo)

    def on_map_clear(self, I, m):
        for agg in self._aggs_for(m):
            if not hasattr(m, "aggs"):
                m.aggs = {}
            m.aggs[agg] = z3.IntVal(0)

    def on_map_read(self, I, m, kk, guard=None):
        for agg in self._aggs_for(m):
            self._agg_lemmas(I, m, agg, kk)

    def on_field_read(self, I, o, name):
        c = self.cur
        if c is not None and c.lock:
            lk = c.lock
            if name in lk["guarded"] and o is I.lock_owner:
                held = any(x is I.lock_obj for x in I.with_stack)
                I.path.prove(z3.BoolVal(held), "%s/lock-held:%s" % (I.cur_obl_prefix(), name), "lock")

    # ---------------------------------------------------------------- name resolution
    def spec_name(self, name):
        if name in self.reg.ufs:
            argts, rt = self.reg.ufs[name]
            fn = z3.Function("uf_" + name, *([t.sort() for t in argts] + [rt.sort()]))

            def impl(I, args, kw, argts=argts, rt=rt, fn=fn):
                if any(isinstance(a, VUndef) for a in args):
                    return VUndef()
                return rt.wrap(fn(*[unwrap(a, t) for a, t in zip(args, argts)]))
            return VFunc("builtin", name, impl=impl)
        if name in self.reg.ghostfuns:
            params, reqs, enss = self.reg.ghostfuns[name]

            def gimpl(I, args, kw, params=params, reqs=reqs, enss=enss, name=name):
                e = Env(None, None)
                for pn, a in zip(params, args):
                    e.set(pn, a)
                for i, rq in enumerate(reqs):
                    I.path.prove(I.eval_spec(rq, e), "%s/lemma:%s/pre#%d" % (I.cur_obl_prefix(), name, i), "lemma-pre", where=rq)
                for en in enss:
                    I.path.assume(I.eval_spec(en, e))
                return VNone()
            return VFunc("builtin", name, impl=gimpl)
        if name in self.reg.spec_funcs:
            node, m = self.reg.spec_funcs[name]
            return VFunc("ast", name, node=node, module=m)
        if name in self.reg.consts:
            return mk_const(self.reg.consts[name])
        from . import dyn as D
        if name in D.SPEC_FUNCS:
            return VFunc("builtin", name, impl=D.SPEC_FUNCS[name])
        return None

    def _base_class_info(self, ci, b):
        """ClassInfo of base-class name `b` of repository class `ci` (same module or imported from the repo)"""
        bi = ci.module.classes.get(b)
        if bi is None and hasattr(ci.module, "resolve_import"):
            r = ci.module.resolve_import(b)
            if r is not None and r[1]:
                bi = frontend.load_module(r[0], self.repo).classes.get(r[1])
        return bi

    def _register_exc_class(self, ci, depth=0):
        """if `ci` derives (through repository classes, possibly imported) from a builtin exception, record its
        parent in EXC_PARENT and return True"""
        if ci.name in EXC_PARENT:
            return True
        if depth > 20:
            return False
        for b in ci.bases:
            if b in EXC_PARENT:
                EXC_PARENT[ci.name] = b
                return True
            bi = self._base_class_info(ci, b)
            if bi is not None and self._register_exc_class(bi, depth + 1):
                EXC_PARENT[ci.name] = bi.name
                return True
        return False

    def class_value(self, ci):
        t = self.types.named.get(ci.name)
        rec = t if isinstance(t, TRec) else None
        exc_base = None
        if ci.name not in _BUILTIN_EXC and self._register_exc_class(ci):
            exc_base = EXC_PARENT[ci.name]
        return VClass(ci.name, ci.node, ci.module, rec=rec, exc_base=exc_base)

    def is_exc_class(self, v):
        ci_name = getattr(getattr(v, "cls", None), "name", None)
        return ci_name in EXC_PARENT

    def objtype_for_class(self, ci):
        return self.reg.objtypes.get(ci.name)

    def class_of_method(self, fnode):
        for mod in list(frontend._MODS.values()):
            for ci in mod.classes.values():
                if fnode in ci.methods.values():
                    return ci
        return None

    def module_name(self, mod, name, I):
        if mod is None or not hasattr(mod, "functions"):
            return None
        if name in mod.functions:
            f = VFunc("ast", name, node=mod.functions[name], module=mod)
            f.qual = "%s:%s" % (mod.relpath, name)
            return f
        if name in mod.classes:
            return self.class_value(mod.classes[name])
        if name in mod.consts:
            saved = (I.spec, I.depth)
            I.spec = False
            I.depth += 1
            try:
                return I.ev(mod.consts[name], Env(None, mod))
            finally:
                I.spec, I.depth = saved
        if name in mod.imports:
            r = mod.resolve_import(name)
            if r is not None:
                rel, attr = r
                m2 = frontend.load_module(rel, self.repo)
                if attr is None:
                    return VModule(name, m2)
                v = self.module_name(m2, attr, I)
                if v is not None:
                    return v
                if rel.endswith("__init__.py"):
                    # `from . import submodule` / `from pkg import submodule`
                    sub = os.path.join(os.path.dirname(rel), attr + ".py")
                    if os.path.exists(os.path.join(self.repo, sub)):
                        return VModule(name, frontend.load_module(sub, self.repo))
                return None
            modname, attr, _ = mod.imports[name]
            return self.external(modname, attr)
        return None

    def import_from(self, mod, module, name, level, I):
        fake = type("F", (), {})()
        saved = dict(mod.imports)
        mod.imports["__tmp__"] = (module, name, level)
        try:
            r = mod.resolve_import("__tmp__")
        finally:
            mod.imports.clear()
            mod.imports.update(saved)
        if r is not None:
            rel, attr = r
            m2 = frontend.load_module(rel, self.repo)
            if attr is None:
                return VModule(name, m2)
            v = self.module_name(m2, attr, I)
            if v is None and rel.endswith("__init__.py"):
                # `from . import submodule` / `from pkg import submodule`: the name is a module file of the package
                for cand in (os.path.join(os.path.dirname(rel), attr + ".py"),
                             os.path.join(os.path.dirname(rel), attr, "__init__.py")):
                    if os.path.exists(os.path.join(self.repo, cand)):
                        return VModule(attr, frontend.load_module(cand, self.repo))
            return v
        return self.external(module, name)

    def module_attr(self, o, name, I):
        if o.info is not None:
            return self.module_name(o.info, name, I)
        return self.external(o.name, name)

    def external_module(self, name):
        return VModule(name, None)

    def external(self, modname, attr):
        from .externals import external_member
        if attr is None:
            return VModule(modname, None)
        return external_member(self, modname, attr)

    def ghost_written_names(self):
        """names of ghost variables that some effect statement of a registered contract may write"""
        if getattr(self, "_gwn", None) is not None:
            return self._gwn
        from .modset import body_mods, _root
        stmts = []
        for c in list(self.reg.contracts.values()) + list(self.reg.variants) + list(self.reg.assumed):
            stmts += list(c.effects)
            for fc in c.funcs.values():
                stmts += list(getattr(fc, "effects", [])) + list(getattr(fc, "effects_before", [])) + list(getattr(fc, "effects_exc", []))
        for t in self.types.named.values():
            fc = getattr(t, "fc", None)
            if fc is not None:
                stmts += list(fc.effects) + list(fc.effects_before) + list(fc.effects_exc)
        # ghost traces written by the model hooks of pyvc/externals.py (open/write, private file-name model)
        out = {"fs_opens", "fs_writes", "rfs"}
        # ghost state named in a callee contract's `modifies`
        for c in list(self.reg.contracts.values()) + list(self.reg.variants) + list(self.reg.assumed):
            for c2 in [c] + [x for x in c.funcs.values() if hasattr(x, "modifies")]:
                for m in c2.modifies:
                    try:
                        r = _root(ast.parse(m.strip(), mode="eval").body)
                    except SyntaxError:
                        r = None
                    if r and r != "self":
                        out.add(r)
        for st in stmts:
            try:
                body = ast.parse(st.strip()).body
            except SyntaxError:
                continue
            names, paths, _ = body_mods(body)
            out.update(names)
            for p in paths:
                r = _root(p)
                if r:
                    out.add(r)
        self._gwn = out
        return out

    def ghost_cut_writes(self, c):
        """ghost variables written by the `ghost:` statements of contract c's cut points: {cut key: {names}}
        (assignments, mutator calls, and the first argument of the ghost builtin map_set_all)"""
        cache = getattr(self, "_gcw", None)
        if cache is None:
            cache = self._gcw = {}
        if id(c) not in cache:
            from .modset import body_mods, _root
            out = {}
            for key, cls in c.asserts.items():
                names = set()
                for cl in cls:
                    if not cl.startswith("ghost:"):
                        continue
                    body = ast.parse(cl[6:].strip()).body
                    ns, paths, calls = body_mods(body)
                    names |= ns
                    for p in paths:
                        r = _root(p)
                        if r:
                            names.add(r)
                    for call in calls:
                        if isinstance(call.func, ast.Name) and call.func.id == "map_set_all" and call.args:
                            r = _root(call.args[0])
                            if r:
                                names.add(r)
                if names:
                    out[key] = names
            cache[id(c)] = out
        return cache[id(c)]

    # ---------------------------------------------------------------- contracts lookup
    def contract_for_call(self, f, I):
        q = getattr(f, "qual", None)
        if q is None:
            return None
        c = self.contracts.get(q)
        if self.cur is not None and q in self.cur.funcs:
            # per-contract override: this contract names the callee contract it relies on (`funcs={key: Contract}`)
            c = self.cur.funcs[q]
        if c is None or c.inline:
            return None
        if I.spec and c.pure_result is None:
            return None
        return c

    def fun_contract(self, cname):
        t = self.types.named.get(cname)
        return getattr(t, "fc", None)

    def apply_param_types(self, I, c, env):
        pass

    def local_type(self, I, name):
        f = I.fn_stack[-1] if getattr(I, "fn_stack", None) else None
        key = getattr(f, "qual", None)
        if key is None:
            return None
        d = self.reg.fn_locals.get(key, {})
        ts = d.get(name)
        if ts is None and self.cur is not None and self.cur.key == key:
            ts = self.cur.locals.get(name)
            if ts is None:
                old_name = getattr(self, "renames_rev", {}).get(name)       # a purely renamed local keeps its declared type
                if old_name is not None:
                    ts = self.cur.locals.get(old_name) or d.get(old_name)
        if ts is None:
            return None
        return self.types.parse(ts)

    def comp_type(self, I, node):
        return None

    def loop_spec_for(self, I, s):
        f = I.fn_stack[-1] if I.fn_stack else None
        if f is None:
            return None
        key = getattr(f, "qual", None)
        specs = dict(self.reg.loop_specs.get(key, {}))
        if self.cur is not None and self.cur.key == key:
            specs.update(self.cur.loops)
        if not specs:
            return None
        loops = frontend.loops_in(f.node)
        try:
            o = loops.index(s)
        except ValueError:
            return None
        # Loop specifications are written against loop ordinals of the pinned source; loop_anchors.json records the
        # header text of every such loop.  When the *number* of loops differs from the recorded one (a loop was
        # added or removed), a loop is re-attached to the ordinal that carried the same header text
        # (k-th occurrence to k-th occurrence); a loop whose header is new has no specification.
        base = loop_anchors().get(key)
        if base is not None:
            cur = [frontend.loop_header(l) for l in loops]
            if cur != base and len(cur) != len(base):
                # (same number of loops: a header changed textually -- renamed local, extracted sub-expression -- and the
                # ordinals still line up; only when loops were added or removed is the header text used to re-attach)
                h = cur[o]
                bi = [i for i, x in enumerate(base) if x == h]
                ci = [i for i, x in enumerate(cur) if x == h]
                if len(bi) != len(ci):
                    return None
                o = bi[ci.index(o)]
        sp = specs.get(o)
        if sp is None:
            return None
        if isinstance(sp, (list, tuple)):
            sp = {"inv": list(sp)}
        sp = dict(sp)
        sp["name"] = "%s/loop%d" % (key.split(":", 1)[1], o)
        return sp

    # bounded-mode bookkeeping
    def note_bounded(self, s, K):
        self.bounded_loops.add((getattr(s, "lineno", 0), K))

    def bound_reached(self, s):
        self.bounds_hit.add(getattr(s, "lineno", 0))
        if self.cur is not None and self.cur.mode != "bounded":
            # prove mode: the contract is undecided from here on (unroll-bound guard); do not burn time on the remaining paths
            self.worklist[:] = []
            self.aborted = True

    def cover(self, s):
        self.covered.add(getattr(s, "lineno", 0))

    # ---------------------------------------------------------------- driver
    def push_work(self, prefix):
        self.worklist.append(prefix)

    def record(self, ob):
        self.results.append(ob)
        if ob.status != "proved":
            self.failed_names.add(ob.name)
            if len(self.failed_names) >= self.max_failures:
                self.worklist[:] = []
                self.aborted = True
                raise PathEnd("too many undischarged obligations")

    def fallback_prove(self, pc, p):
        from .smt import fallback_prove
        return fallback_prove(pc, p, self.timeout_ms)

    def concretize_inputs(self, model):
        from .concretize import concretize_env
        return concretize_env(self, self.cur_inputs, model)

    def lost_cut_points(self, c, node):
        """keys of c.asserts ("var", "var@k", "call:x.m", "yield:expr") without an anchor in the function's AST"""
        keys = set(getattr(c, "asserts", None) or {})
        if not keys:
            return set()
        from .modset import _target_names
        assigned, calls, yields = set(), set(), set()
        for n in ast.walk(node):
            if isinstance(n, (ast.Assign, ast.AugAssign, ast.AnnAssign, ast.For, ast.With, ast.NamedExpr)):
                tg = getattr(n, "targets", None) or [getattr(n, "target", None)]
                if isinstance(n, ast.With):
                    tg = [it.optional_vars for it in n.items if it.optional_vars is not None]
                for t in tg:
                    if t is not None:
                        try:
                            _target_names(t, assigned)
                        except Exception:
                            pass
            if isinstance(n, ast.Expr) and isinstance(n.value, ast.Call):
                calls.add("call:" + ast.unparse(n.value.func))
            if isinstance(n, ast.Yield):
                yields.add("yield:" + (ast.unparse(n.value) if n.value is not None else ""))
        lost = set()
        for k in keys:
            if k.startswith("call:"):
                if k not in calls:
                    lost.add(k)
            elif k.startswith("yield:"):
                if k not in yields:
                    lost.add(k)
            elif k.startswith("skip:"):
                kinds = set()
                for n in ast.walk(node):
                    if isinstance(n, (ast.While, ast.For)):
                        for m in ast.walk(n):
                            if isinstance(m, ast.Continue):
                                kinds.add("skip:" + ("while" if isinstance(n, ast.While) else "for"))
                if k not in kinds:
                    lost.add(k)
            else:
                base = k.split("@")[0]
                if base not in assigned and getattr(self, "renames", {}).get(base) not in assigned:
                    lost.add(k)
        return lost

    def verify(self, c):
        """verify one contract; returns a result dict"""
        t0 = time.time()
        self.cur = c
        self.results = []
        self.worklist = [[]]
        self.bounded_loops = set()
        self.bounds_hit = set()
        self.covered = set()
        self.obligation_sites = set()
        self.failed_names = set()
        self.check_cache = {}
        self.keep_alive = []
        self.aborted = False
        self.max_failures = 4
        self.exits = 0
        self.paths = 0
        self.errors = []
        self.solver_s = 0.0
        self.queries = 0
        saved_to = self.timeout_ms
        saved_nl = self.nonlinear
        self.feas_fresh = c.feas_fresh
        self.nonlinear = self.nonlinear or c.nonlinear
        self.abstract_str_order = bool(getattr(c, 'abstract_str_order', False))
        if c.timeout_ms:
            self.timeout_ms = c.timeout_ms
        saved_feas = self.feas_timeout_ms
        self.feas_rlimit = None
        if getattr(c, "feas_timeout_ms", None):
            self.feas_timeout_ms = c.feas_timeout_ms
            self.feas_rlimit = int(c.feas_timeout_ms * float(os.environ.get("PYVC_FEAS_RLIMIT_PER_MS", "1500")))
        mod, cls, node = frontend.find_function(c.key, self.repo)
        limit = c.max_paths or self.max_paths
        self.renames = local_renames(c.key, node)           # baseline local name -> current name (pure renames only)
        self.renames_rev = {v: k for k, v in self.renames.items()}
        lost = self.lost_cut_points(c, node)
        if lost:
            # a cut point whose anchor (assigned local / call / yield) no longer exists in the function would silently not
            # fire: the facts it transfers would be missing and later obligations would fail for no semantic reason.
            # Undecided, not a violation.
            self.errors.append("anchor lost: cut point(s) %s of %s have no matching statement in the current source "
                               "(renamed local or rewritten call?): contract not evaluated" % (sorted(lost), c.key))
            self.worklist = []
        try:
            while self.worklist:
                prefix = self.worklist.pop()
                self.paths += 1
                if self.paths > limit:
                    self.errors.append("path budget %d exceeded" % limit)
                    break
                try:
                    self.run_path(c, mod, cls, node, prefix)
                except Unsupported as u:
                    self.errors.append("unsupported: %s" % u)
                    break
                except TypeError as u:
                    if "cannot encode VNaN" not in str(u):
                        raise
                    # nan flowing into a real-valued container / parameter: outside the float model (A-REAL): undecided
                    self.errors.append("unsupported: %s (nan has no encoding in the real-valued float sort)" % u)
                    break
                except RecursionError:
                    self.errors.append("recursion limit")
                    break
        finally:
            self.timeout_ms = saved_to
            self.nonlinear = saved_nl
            self.feas_timeout_ms = saved_feas
            self.feas_rlimit = None
            self.abstract_str_order = False
        if self.exits == 0 and not self.errors:
            self.errors.append("vacuous: no path reaches a function exit (contradictory requires?)")
        # reachability guard against vacuous proofs: every statement of the function must be executed on some path
        if not self.errors and not self.aborted and not self.failed_names:
            want = set()
            ok_src = [x for x in c.unreachable_ok if isinstance(x, str)]

            def collect(stmts):
                for st in stmts:
                    if isinstance(st, (ast.FunctionDef, ast.AsyncFunctionDef, ast.ClassDef)):
                        want.add(st.lineno)
                        continue
                    if isinstance(st, ast.Expr) and isinstance(st.value, ast.Constant):
                        continue
                    src = ast.unparse(st)
                    if getattr(self, "renames_rev", None):
                        import re as _re
                        for cn, bn in self.renames_rev.items():     # unreachable_ok entries quote the pinned source's names
                            src = _re.sub(r"(?<![A-Za-z0-9_])%s(?![A-Za-z0-9_])" % _re.escape(cn), bn, src)
                    if any(src.startswith(o) for o in ok_src):
                        continue
                    want.add(st.lineno)
                    for f in ("body", "orelse", "finalbody"):
                        collect(getattr(st, f, []) or [])
                    for h in getattr(st, "handlers", []) or []:
                        collect(h.body)
            collect(region_body(c, mod, node))
            missing = sorted(want - self.covered - set(x for x in c.unreachable_ok if isinstance(x, int)))
            if missing:
                self.errors.append("vacuity guard: statements at lines %s of %s are never reached on any explored path "
                                   "(contradictory assumptions / too strong precondition?); list them in unreachable_ok "
                                   "with a reason if intended" % (missing, c.key))
        if c.mode != "bounded" and self.bounds_hit:
            # soundness guard: a loop without invariant is unrolled; once the unroll bound is reached the paths with
            # more iterations are cut, so nothing about them is proved -- never report that as a proof
            self.errors.append("loop(s) at line(s) %s reached the unroll bound %d without an invariant: paths with more "
                               "iterations were not explored (undecided, not a proof); give the loop an invariant or "
                               "declare the contract mode='bounded'" % (sorted(self.bounds_hit), self.unroll_bound))
        return {
            "key": c.key, "short": c.short, "prop": c.prop, "mode": c.mode, "label": c.label,
            "source_sha": frontend.source_hash(mod, node),
            "lines": (node.lineno, node.end_lineno),
            "paths": self.paths, "exits": self.exits, "queries": self.queries,
            "solver_s": round(self.solver_s, 3), "wall_s": round(time.time() - t0, 3),
            "obligations": self.results, "errors": self.errors,
            "bounded_loops": sorted(self.bounded_loops), "bounds_hit": sorted(self.bounds_hit),
        }

    def run_path(self, c, mod, cls, node, prefix):
        path = Path(self, prefix)
        I = Interp(self, path)
        I.fn_stack = []
        I.with_stack = []
        I.lock_owner = None
        I.lock_obj = None
        I.cur_contract = c
        I.cur_obl_prefix = lambda: c.short
        ghost_env = Env(None, mod)
        I.ghost_env = ghost_env
        env = Env(ghost_env, mod)
        I.top_env = env
        try:
            # ghost state
            for gname, (gtype, ginit) in c.ghost.items():
                t = self.types.parse(gtype)
                if ginit == "empty":
                    if isinstance(t, TList):
                        gv = VSeq(z3.K(z3.IntSort(), I.default_of(t.elem)), z3.IntVal(0), t.elem, "list")
                    elif isinstance(t, TMap):
                        gv = I.empty_map(t)
                    elif isinstance(t, TSet):
                        gv = I.empty_set(t)
                    else:
                        raise Unsupported("ghost init")
                elif ginit == "any":
                    gv = I.fresh_value(t, "g_" + gname)
                else:
                    gv = I.eval_spec_value(ginit, ghost_env)
                    gv = t.wrap(unwrap(gv, t)) if not isinstance(gv, (VSeq, VMap, VSet)) else gv
                ghost_env.set(gname, gv)
            # parameters
            params = [p.arg for p in node.args.posonlyargs + node.args.args + node.args.kwonlyargs]
            if node.args.vararg:
                params.append(node.args.vararg.arg)
            if node.args.kwarg:
                params.append(node.args.kwarg.arg)
            defaults = {}
            pos = node.args.posonlyargs + node.args.args
            for p, d in zip(pos[len(pos) - len(node.args.defaults):], node.args.defaults):
                defaults[p.arg] = d
            for p, d in zip(node.args.kwonlyargs, node.args.kw_defaults):
                if d is not None:
                    defaults[p.arg] = d
            inputs = {}
            for pname in list(params) + [k for k in c.types if k not in params]:
                if pname in c.types:
                    tsrc = c.types[pname]
                    if isinstance(tsrc, str) and tsrc.startswith("="):
                        v = I.eval_spec_value(tsrc[1:], env)
                    else:
                        t = self.types.parse(tsrc)
                        v = I.fresh_value(t, "in_" + pname)
                elif pname in defaults:
                    v = I.ev(defaults[pname], Env(None, mod))
                else:
                    raise Unsupported("parameter %s of %s has no declared type" % (pname, c.key))
                env.set(pname, v)
                inputs[pname] = v
            if c.lock:
                I.lock_owner = env.lookup("self")
                I.lock_obj = I.lock_owner.fields.get(c.lock["lock"]) if I.lock_owner else None
            for st in c.setup:
                I.exec_ghost(st, env)
            for src in c.axioms:
                path.assume(I.eval_spec(src, env))
            for nm, src in c.requires:
                path.assume(I.eval_spec(src, env, assume=True))
            I.old_env = I.snapshot_env(env)
            I.top_env = env
            self.cur_inputs = I.old_env
            if not prefix:
                if not path.feasible(z3.BoolVal(True)):
                    self.errors.append("vacuous: requires of %s is unsatisfiable" % c.key)
                    return
            f = VFunc("ast", node.name, node=node, module=mod)
            f.qual = c.key
            I.fn_stack.append(f)
            if c.fs_inv:
                from . import fsmodel
                fsmodel.check_inv(I, "entry")
            result = None
            exc = None
            if c.mode == "bounded" and c.unroll:
                self.unroll_bound = c.unroll
            try:
                I.exec_block(region_body(c, mod, node), env)
                result = VNone()
            except ReturnSig as r:
                result = r.v
            except PyRaise as pr:
                exc = pr.exc
            self.exits += 1
            if exc is None or (c.raises is not None and any(exc_is_sub(exc.cls, cls) for cls, _ in c.raises_list())):
                self.check_frame(c, I, path, inputs, node)
            if exc is not None:
                self.check_exceptional_exit(c, I, path, env, exc)
            else:
                if c.returns is not None:
                    result = I.coerce_value(result, self.types.parse(c.returns))
                for st in c.post_setup:
                    if st.startswith("call:"):
                        # follow-up call on the post-state (two-call contracts): an escaping exception is a failed
                        # obligation `<contract>/post-call:no-exception:<Class>`, not an engine limitation
                        I.exec_ghost(st[5:], env, extra={"result": result}, raise_obl="%s/post-call:no-exception" % c.short)
                        continue
                    I.exec_ghost(st, env, extra={"result": result}, skip_unbound=True)
                for nm, src in c.ensures:
                    phi = I.eval_spec(src, env, extra={"result": result})
                    path.prove(phi, "%s/post:%s" % (c.short, nm), "post", where=src)
        except PathEnd:
            return
        except (BreakSig, ContinueSig):
            self.errors.append("break/continue outside loop")

    def check_frame(self, c, I, path, inputs, node):
        """soundness of `modifies`: a contract that callers use modularly (call_contract havocs exactly its
        `modifies`) must not change any other heap location reachable from its parameters.  At every exit of the
        verified body each such location is compared with its entry snapshot; a difference is the named obligation
        `<fn>/frame:<path>` (unchanged terms are skipped without a solver query)."""
        if self.contracts.get(c.key) is not c or c.inline or node.name == "__init__" or not c.modifies_declared:
            return
        cov = []
        for m in c.modifies:
            try:
                cov.append(ast.unparse(ast.parse(m.strip(), mode="eval").body))
            except SyntaxError:
                cov.append(m)

        def covered(p):
            return any(p == m or p.startswith(m + ".") or p.startswith(m + "[") for m in cov)

        def same_terms(xs, ys):
            return all(x is y or (x is not None and y is not None and x.eq(y)) for x, y in zip(xs, ys))

        seen = set()

        def walk(cur, old, p):
            if covered(p) or cur is None or old is None or id(cur) in seen:
                return
            if isinstance(cur, (VObj, VDictRec)):
                seen.add(id(cur))
                if type(old) is not type(cur):
                    path.prove(z3.BoolVal(False), "%s/frame:%s" % (c.short, p), "frame", where="modifies " + ", ".join(cov))
                    return
                keys = list(cur.fields)
                if isinstance(cur, VDictRec) and set(keys) != set(old.fields):
                    path.prove(z3.BoolVal(False), "%s/frame:%s" % (c.short, p), "frame", where="keys of %s changed" % p)
                for f in keys:
                    sub = ("%s.%s" % (p, f)) if isinstance(cur, VObj) else ("%s[%r]" % (p, f))
                    walk(cur.fields[f], old.fields.get(f), sub)
                return
            if isinstance(cur, (VFunc, VClass, VModule, VOpaque, VOptObj)):
                return
            try:
                if isinstance(cur, VSeq) and isinstance(old, VSeq) and same_terms([cur.arr, cur.n], [old.arr, old.n]):
                    return
                if isinstance(cur, VMap) and isinstance(old, VMap) and same_terms([cur.dom, cur.val, cur.card], [old.dom, old.val, old.card]) \
                        and (cur.order is None or same_terms([cur.order.arr], [old.order.arr])):
                    return
                if isinstance(cur, VSet) and isinstance(old, VSet) and same_terms([cur.dom, cur.card], [old.dom, old.card]):
                    return
                phi = I.eq(cur, old)
                if isinstance(cur, VMap) and cur.order is not None and isinstance(old, VMap) and old.order is not None:
                    phi = z3.And(phi, I.eq(VSeq(cur.order.arr, cur.order.n, cur.kt, "list"),
                                           VSeq(old.order.arr, old.order.n, old.kt, "list")))
            except Unsupported:
                return
            path.prove(phi, "%s/frame:%s" % (c.short, p), "frame", where="not in modifies [%s]" % ", ".join(cov))

        for pname, v in inputs.items():
            if isinstance(v, (VObj, VDictRec, VSeq, VMap, VSet)):
                walk(v, I.old_env.lookup(pname), pname)

    def check_exceptional_exit(self, c, I, path, env, exc):
        if c.raises is None:
            return  # exceptional behaviour not specified by this contract: nothing claimed
        allowed = c.raises_list()
        ok_cls = [cls for cls, _ in allowed if exc_is_sub(exc.cls, cls)]
        if not ok_cls:
            # the path that raises must be infeasible
            path.prove(z3.BoolVal(False), "%s/no-exception:%s" % (c.short, exc.cls), "raises",
                       where="raises %s" % exc.cls)
            return
        for cls, cond in allowed:
            if cond is not None and exc_is_sub(exc.cls, cls):
                path.prove(I.eval_spec(cond, I.old_env), "%s/raises-only-if:%s" % (c.short, cls), "raises", where=cond)
        # `exc_msg`: the first constructor argument of the escaping exception when it is a string
        extra = {"exc": exc}
        if exc.args and isinstance(exc.args[0], VStr):
            extra["exc_msg"] = exc.args[0]
        for nm, src in c.ensures_exc:
            path.prove(I.eval_spec(src, env, extra=extra), "%s/post-exc:%s" % (c.short, nm), "post", where=src)


def region_body(c, mod, node):
    """Region contracts: `region=(first, last)` verifies only the consecutive statements of one statement list of
    the function, from the statement whose source text starts with `first` to the one starting with `last`
    (both anchors must be unique among the statements of the function; nested defs included).  Live-in locals are
    declared in `types`; the clauses may mention the locals live at the region end.  Anchors are matched against
    the source as it is on disk now: a vanished anchor is an error, never a silent pass."""
    if not c.region:
        return node.body
    cached = getattr(c, "_region_cache", None)
    if cached is not None and cached[0] is node:
        return cached[1]
    first, last = c.region
    hits = []

    def norm(st):
        return " ".join(mod.segment(st).split())

    def walk(n):
        for fld in ("body", "orelse", "finalbody"):
            lst = getattr(n, fld, None)
            if isinstance(lst, list) and lst and isinstance(lst[0], ast.stmt):
                starts = [i for i, st in enumerate(lst) if norm(st).startswith(first)]
                for i in starts:
                    ends = [j for j in range(i, len(lst)) if norm(lst[j]).startswith(last)]
                    if ends:
                        hits.append(lst[i:ends[0] + 1])
                for st in lst:
                    walk(st)
        for h in getattr(n, "handlers", []) or []:
            walk(h)
    walk(node)
    if len(hits) != 1:
        raise Unsupported("region anchors %r .. %r match %d statement ranges in %s" % (first, last, len(hits), c.key))
    c._region_cache = (node, hits[0])
    return hits[0]


def exec_ghost(self, st, env, extra=None, skip_unbound=False, raise_obl=None):
    node = ast.parse(st.strip()).body
    e2 = Env(env, env.module)
    if extra:
        e2.vars.update(extra)
    e2.nonlocals = set(self.ghost_env.vars.keys())
    saved = self.spec
    self.spec = False
    self.depth += 1
    try:
        self.exec_block(node, e2)
    except PyRaise as pr:
        if raise_obl is not None:
            self.path.prove(z3.BoolVal(False), "%s:%s" % (raise_obl, pr.exc.cls), "raises", where=st)
            raise PathEnd("follow-up call raised")
        if pr.exc.cls != "NameError" or not skip_unbound:
            raise Unsupported("ghost statement raised %s: %s" % (pr.exc.cls, st))
        # a ghost statement that mentions a local not bound on this path is skipped
    finally:
        self.depth -= 1
        self.spec = saved


Interp.exec_ghost = exec_ghost
