"""The symbolic interpreter (expressions, statements, calls, loops)."""
from __future__ import annotations
import ast
import os
import z3

from .values import *  # noqa
from .core import *  # noqa
from .core import _NOCONST
from . import frontend
from . import dyn as D
from .dyn import VDyn, TDyn

MUTATORS = {"append", "appendleft", "pop", "popleft", "add", "update", "clear", "remove", "setdefault",
            "extend", "insert", "discard", "move_to_end", "popitem", "sort", "reverse"}


def _has_nan(x):
    """nan has no encoding in the real-valued float sort: lists holding it stay python-level (VPyList)"""
    return isinstance(x, VNaN) or (isinstance(x, VTuple) and any(_has_nan(y) for y in x.items))


class Interp:
    def __init__(self, ver, path):
        self.ver = ver
        self.path = path
        self.spec = False          # spec mode: total functions, no branching
        self.old_env = None
        self.depth = 0
        self.binders = {}          # spec-mode bound variables
        self.loop_snap = []        # stack of pre-loop snapshots (envs)
        self.cur_contract = None
        self.result = None
        self.assume_mode = False
        self.polarity = True
        self.q_ctx = []
        D.CURRENT_I = self
        from . import jsonmodel
        jsonmodel.CUR[0] = path    # ground axiom instances of Json injections go to this path

    # ------------------------------------------------------------------ utilities
    def fresh_value(self, t, hint):
        """havoc'd value of type t, with its well-formedness assumed."""
        p = self.path
        if isinstance(t, str):
            t = self.ver.types.parse(t)
        if t is TInt:
            return VInt(p.fresh(hint, z3.IntSort()))
        if t is TReal:
            return VReal(p.fresh(hint, z3.RealSort()))
        if t is TBool:
            return VBool(p.fresh(hint, z3.BoolSort()))
        if t is TStr:
            return VStr(p.fresh(hint, z3.StringSort()))
        if t is TNone:
            return VNone()
        if t is TPath:
            return VPath(p.fresh(hint, z3.StringSort()))
        if hasattr(t, "fresh"):
            # extension types (e.g. pyvc/fsmodel.py: optional exception values) build their own havoc'd value
            return t.fresh(self, hint)
        if isinstance(t, TUn):
            return t.wrap(p.fresh(hint, t.sort()))
        if t is TDyn:
            v = VDyn(p.fresh(hint, t.sort()))
            D.wf(self, v.e)
            return v
        if isinstance(t, TOpt):
            v = VOpt(p.fresh(hint, t.sort()), t)
            self._assume_wf_expr(v.t.dt.val(v.e), t.inner, guard=z3.Not(v.is_none()))
            return v
        if isinstance(t, TTuple):
            return VTuple([self.fresh_value(et, "%s_%d" % (hint, i)) for i, et in enumerate(t.elems)], t)
        if isinstance(t, TRec):
            r = VRec({fn: self.fresh_value(ft, "%s_%s" % (hint, fn)) for fn, ft in t.fields.items()}, t)
            if getattr(t, "variants", None) is not None:
                p.assume(z3.Or([r.fields["_cls"].e == z3.StringVal(c) for c in t.variants]))
            return r
        if isinstance(t, TMutRec):
            e = p.fresh(hint, t.sort())
            for fn, ft in t.fields.items():
                self._assume_wf_expr(t.acc(fn, e), ft)
            return t.wrap(e)
        if isinstance(t, TDRec):
            v = VDRec(p.fresh(hint, t.sort()), t)
            for fn, ft in t.fields.items():
                self._assume_wf_expr(t.val(fn, v.e), ft)
            return v
        if isinstance(t, TList):
            arr = p.fresh(hint + "_arr", z3.ArraySort(z3.IntSort(), t.elem.sort()))
            n = p.fresh(hint + "_n", z3.IntSort())
            p.assume(n >= 0)
            v = VSeq(arr, n, t.elem, t.kind)
            self._assume_wf_seq(v)
            return v
        if isinstance(t, TMap):
            dom = p.fresh(hint + "_dom", z3.ArraySort(t.k.sort(), z3.BoolSort()))
            val = p.fresh(hint + "_val", z3.ArraySort(t.k.sort(), t.v.sort()))
            card = p.fresh(hint + "_card", z3.IntSort())
            v = VMap(dom, val, card, t.k, t.v)
            if t.ordered:
                oarr = p.fresh(hint + "_ord", z3.ArraySort(z3.IntSort(), t.k.sort()))
                v.order = VSeq(oarr, card, t.k, "list")
            self.assume_wf_map(v)
            if getattr(t, "default_zero", False):
                v.default_e = z3.RealVal(0) if t.v is TReal else z3.IntVal(0)
            return v
        if isinstance(t, TSet):
            dom = p.fresh(hint + "_dom", z3.ArraySort(t.k.sort(), z3.BoolSort()))
            card = p.fresh(hint + "_card", z3.IntSort())
            v = VSet(dom, card, t.k)
            self.assume_wf_map(v)
            return v
        if isinstance(t, TObj):
            o = VObj(t.cls or t.nm, {}, t)
            for fn, ft in t.fields.items():
                o.fields[fn] = self.fresh_field(ft, "%s_%s" % (hint, fn))
            return o
        if isinstance(t, TFun):
            return VFunc("param", t.cname, contract=self.ver.fun_contract(t.cname))
        if isinstance(t, TOptObj):
            inner = self.fresh_value(t.inner, hint)
            return VOptObj(p.fresh(hint + "_present", z3.BoolSort()), inner)
        if isinstance(t, TDictRec):
            # a field declared as "key?" may be absent: its presence is decided by forking (both shapes are explored)
            fs = {}
            for k, ft in t.fields.items():
                if k.endswith("?"):
                    k = k[:-1]
                    if not p.branch(p.fresh("%s_has_%s" % (hint, k), z3.BoolSort())):
                        continue
                fs[k] = self.fresh_field(ft, "%s_%s" % (hint, k))
            return VDictRec(fs)
        raise Unsupported("fresh of %s" % (t,))

    def fresh_field(self, ft, hint):
        if isinstance(ft, str):
            ft = self.ver.types.parse(ft)
        return self.fresh_value(ft, hint)

    def _assume_wf_expr(self, e, t, guard=None):
        """well-formedness of an encoded value expression of type t (lengths >= 0 ...)."""
        facts = []
        if isinstance(t, TList):
            facts.append(t.dt.n(e) >= 0)
        elif isinstance(t, (TMap, TSet)):
            facts.append(t.dt.card(e) >= 0)
            k = z3.Const("wf_k", t.k.sort())
            facts.append((t.dt.card(e) == 0) == z3.ForAll([k], z3.Not(z3.Select(t.dt.dom(e), k))))
        elif isinstance(t, TTuple):
            for i, et in enumerate(t.elems):
                if isinstance(et, (TList, TMap, TSet)):
                    sub = t.acc(i, e)
                    facts.append((et.dt.n(sub) if isinstance(et, TList) else et.dt.card(sub)) >= 0)
        for f in facts:
            self.path.assume(z3.Implies(guard, f) if guard is not None else f)

    def _assume_wf_seq(self, v):
        et = v.et
        if isinstance(et, TRec) and getattr(et, "variants", None) is not None:
            i = z3.Int("wf_i")
            tag = et.acc("_cls", z3.Select(v.arr, i))
            self.path.assume(z3.ForAll([i], z3.Or([tag == z3.StringVal(c) for c in et.variants]), patterns=[z3.Select(v.arr, i)]))
        if isinstance(et, (TList, TMap, TSet)):
            i = z3.Int("wf_i")
            sub = z3.Select(v.arr, i)
            f = (et.dt.n(sub) if isinstance(et, TList) else et.dt.card(sub)) >= 0
            self.path.assume(z3.ForAll([i], f))

    def assume_wf_map(self, v):
        p = self.path
        p.assume(v.card >= 0)
        k = z3.Const("wf_k", v.kt.sort())
        p.assume((v.card == 0) == z3.ForAll([k], z3.Not(z3.Select(v.dom, k))))
        if isinstance(v, VMap) and v.order is not None:
            self.assume_wf_order(v)
        if isinstance(v, VMap) and isinstance(v.vt, (TList, TMap, TSet)):
            sub = z3.Select(v.val, k)
            f = (v.vt.dt.n(sub) if isinstance(v.vt, TList) else v.vt.dt.card(sub)) >= 0
            p.assume(z3.ForAll([k], f))

    def assume_wf_order(self, m):
        """type invariant of an insertion-ordered map: order is a duplicate-free listing of dom."""
        p = self.path
        o = m.order
        i, j = z3.Ints("wo_i wo_j")
        k = z3.Const("wo_k", m.kt.sort())
        pos = z3.Function(p.fresh_name("pos"), m.kt.sort(), z3.IntSort())
        p.assume(o.n == m.card)
        p.assume(z3.ForAll([i], z3.Implies(z3.And(0 <= i, i < o.n),
                                          z3.And(z3.Select(m.dom, z3.Select(o.arr, i)),
                                                 pos(z3.Select(o.arr, i)) == i))))
        p.assume(z3.ForAll([k], z3.Implies(z3.Select(m.dom, k),
                                          z3.And(0 <= pos(k), pos(k) < o.n, z3.Select(o.arr, pos(k)) == k))))
        m.pos = pos

    def havoc_inplace(self, v, hint="hv"):
        """replace the payload of a mutable value by fresh symbols (identity kept)."""
        if isinstance(v, VSeq):
            nv = self.fresh_value(TList(v.et, v.kind), hint)
            v.arr, v.n = nv.arr, nv.n
            v.writeback()
        elif isinstance(v, VMap):
            nv = self.fresh_value(v.t, hint)
            v.dom, v.val, v.card = nv.dom, nv.val, nv.card
            if v.order is not None:
                v.order.arr, v.order.n = nv.order.arr, nv.order.n
                v.pos = getattr(nv, "pos", None)
            v.writeback()
        elif isinstance(v, VSet):
            nv = self.fresh_value(v.t, hint)
            v.dom, v.card = nv.dom, nv.card
            v.writeback()
        elif isinstance(v, VObj):
            for fn, fv in list(v.fields.items()):
                if isinstance(fv, (VSeq, VMap, VSet, VObj, VDictRec)):
                    self.havoc_inplace(fv, hint + "_" + fn)
                elif isinstance(fv, (VFunc, VClass, VOptObj, VOpaque)):
                    pass
                else:
                    v.fields[fn] = self.havoc_like(fv, hint + "_" + fn)
        elif isinstance(v, VDictRec):
            for fn, fv in list(v.fields.items()):
                if isinstance(fv, (VSeq, VMap, VSet, VObj, VDictRec)):
                    self.havoc_inplace(fv, hint + "_" + fn)
                elif isinstance(fv, (VFunc, VClass, VOptObj, VOpaque)):
                    pass
                else:
                    v.fields[fn] = self.havoc_like(fv, hint + "_" + fn)
        else:
            raise Unsupported("havoc_inplace of %s" % type(v).__name__)

    def havoc_like(self, v, hint):
        if isinstance(v, (VFunc, VClass, VModule, VOpaque, VOptObj)):
            return v
        if isinstance(v, (VObj, VDictRec)):
            self.havoc_inplace(v, hint)
            return v
        return self.fresh_value(typeof(v), hint)

    # ------------------------------------------------------------------ snapshot (old)
    def clone_value(self, v, memo):
        if id(v) in memo:
            return memo[id(v)]
        if isinstance(v, VSeq):
            c = VSeq(v.arr, v.n, v.et, v.kind)
        elif isinstance(v, VMap):
            c = VMap(v.dom, v.val, v.card, v.kt, v.vt)
            if v.order is not None:
                c.order = VSeq(v.order.arr, v.order.n, v.order.et, "list")
                c.pos = getattr(v, "pos", None)
            for a in ("aggs",):
                if hasattr(v, a):
                    setattr(c, a, dict(getattr(v, a)))
            if getattr(v, "default_e", None) is not None:
                c.default_e = v.default_e
        elif isinstance(v, VSet):
            c = VSet(v.dom, v.card, v.kt)
        elif isinstance(v, VObj):
            c = VObj(v.cls, {}, v.tobj)
            memo[id(v)] = c
            for fn, fv in v.fields.items():
                c.fields[fn] = self.clone_value(fv, memo)
            return c
        elif isinstance(v, VDictRec):
            c = VDictRec({})
            c.mt = v.mt
            memo[id(v)] = c
            for fn, fv in v.fields.items():
                c.fields[fn] = self.clone_value(fv, memo)
            return c
        elif isinstance(v, VTuple):
            c = VTuple([self.clone_value(x, memo) for x in v.items], v._t)
        elif isinstance(v, VOptObj):
            c = VOptObj(v.present, self.clone_value(v.obj, memo))
        elif _is_j(v):
            from . import jsontree
            return jsontree.clone(self, v, memo)
        else:
            c = v  # immutable wrappers
        memo[id(v)] = c
        return c

    def snapshot_env(self, env):
        memo = {}
        chain = []
        e = env
        while e is not None:
            chain.append(e)
            e = e.parent
        ge = getattr(self, "ghost_env", None)
        if ge is not None and all(x is not ge for x in chain):
            # environments of inlined functions do not chain to the ghost environment: snapshot it as well, so that
            # pre_loop(<ghost var>) in their loop invariants means the value at loop entry
            chain.append(ge)
        new_parent = None
        for e in reversed(chain):
            ne = Env(new_parent, e.module)
            for k, v in e.vars.items():
                ne.vars[k] = self.clone_value(v, memo)
            new_parent = ne
        return new_parent

    # ------------------------------------------------------------------ truthiness / forcing
    def force(self, v):
        """resolve symbolic optionality by branching (exec mode)."""
        if isinstance(v, VOpt):
            if self.spec:
                raise Unsupported("force optional in spec mode")
            if self.path.branch(v.is_none()):
                return VNone()
            return v.val()
        if isinstance(v, VOptObj):
            if self.path.branch(v.present):
                return v.obj
            return VNone()
        if isinstance(v, VDyn):
            if self.spec:
                raise Unsupported("force a Dyn value in spec mode")
            return D.view(self, v)
        return v

    def truth(self, v):
        if isinstance(v, VBool):
            return v.e
        if isinstance(v, VUndef):
            return self.undef_bool()
        if isinstance(v, VInt):
            return v.e != 0
        if isinstance(v, VReal):
            return v.e != 0
        if isinstance(v, VStr):
            return z3.Length(v.e) > 0
        if isinstance(v, VNone):
            return z3.BoolVal(False)
        if isinstance(v, VDyn):
            D.wf(self, v.e)
            return D.truth(v)
        if isinstance(v, VOpt):
            return z3.And(z3.Not(v.is_none()), self.truth(v.val()))
        if isinstance(v, VSeq):
            return v.n > 0
        if isinstance(v, (VMap, VSet)):
            return v.card > 0
        if isinstance(v, VTuple):
            return z3.BoolVal(len(v.items) > 0)
        if isinstance(v, (VEmptyList, VEmptySet)):
            return z3.BoolVal(False)
        if isinstance(v, VDictRec):
            return z3.BoolVal(len(v.fields) > 0)
        if isinstance(v, VDRec):
            return z3.BoolVal(True) if v.t.required else z3.Or([v.has(fn) for fn in v.t.optional] + [z3.BoolVal(False)])
        if _is_j(v):
            from . import jsontree
            return jsontree.truth(self, v)
        if isinstance(v, (VEmptyList, VEmptySet)):
            return z3.BoolVal(False)
        if isinstance(v, VOptObj):
            return z3.And(v.present, self.truth(v.obj))
        if isinstance(v, VObj):
            ci = self.class_of(v)
            if ci is not None and ci.find_method("__len__") and not self.spec:
                r = self.call_method_ast(v, "__len__", [], {})
                return self.truth(r)
            return z3.BoolVal(True)
        if isinstance(v, VRec) and getattr(v.t, "dictshape", False):
            if any(k not in v.t.optkeys for k in v.fields):
                return z3.BoolVal(True)
            return z3.Or([z3.Not(f.is_none()) for f in v.fields.values()] + [z3.BoolVal(False)])
        if isinstance(v, VRec) and getattr(v.t, "dictlike", False):
            # a dict value is truthy iff it has at least one key
            keys = [k for k in v.fields if not k.startswith("has_")]
            if any(("has_" + k) not in v.fields for k in keys):
                return z3.BoolVal(True)
            return z3.Or([v.fields["has_" + k].e for k in keys] + [z3.BoolVal(False)])
        if hasattr(v, "truth_expr"):
            return v.truth_expr(self)
        if isinstance(v, (VFunc, VClass, VModule, VRec, VUn, VOpaque, VExc, VPath, VNaN)):
            return z3.BoolVal(True)
        raise Unsupported("truth of %s" % type(v).__name__)

    def test(self, v):
        """python truth test as a branch decision (exec mode)."""
        return self.path.branch(self.truth(v))

    def class_of(self, v):
        if isinstance(v, VObj):
            c = v.cls
            if isinstance(c, frontend.ClassInfo):
                return c
            if isinstance(c, tuple):
                return frontend.load_module(c[0], self.ver.repo).classes.get(c[1])
        return None

    # ------------------------------------------------------------------ equality / comparison
    def undef_bool(self):
        return self.path.fresh("undef", z3.BoolSort())

    def eq(self, a, b):
        if isinstance(a, VUndef) or isinstance(b, VUndef):
            return self.undef_bool()
        if isinstance(a, VNaN) or isinstance(b, VNaN):
            return z3.BoolVal(False)          # nan != everything, itself included
        if a is b and not isinstance(a, (VReal,)):
            return z3.BoolVal(True)
        if isinstance(a, VDyn) or isinstance(b, VDyn):
            return D.py_eq(self, a, b)
        if _is_j(a) or _is_j(b):
            from . import jsontree
            return jsontree.eq(self, a, b)
        if isinstance(a, VNone) or isinstance(b, VNone):
            if isinstance(a, VNone) and isinstance(b, VNone):
                return z3.BoolVal(True)
            o = b if isinstance(a, VNone) else a
            if isinstance(o, VOpt):
                return o.is_none()
            if isinstance(o, VOptObj):
                return z3.Not(o.present)
            return z3.BoolVal(False)
        if isinstance(a, VOpt) and isinstance(b, VOpt) and a.t == b.t:
            return a.e == b.e
        if isinstance(a, VOpt):
            return z3.And(z3.Not(a.is_none()), self.eq(a.val(), b))
        if isinstance(b, VOpt):
            return z3.And(z3.Not(b.is_none()), self.eq(a, b.val()))
        if is_num(a) and is_num(b):
            if isinstance(a, VReal) or isinstance(b, VReal):
                return to_real(a) == to_real(b)
            if isinstance(a, VBool) and isinstance(b, VBool):
                return a.e == b.e
            return to_int(a) == to_int(b)
        if isinstance(a, VStr) and isinstance(b, VStr):
            return a.e == b.e
        if isinstance(a, VPath) and isinstance(b, VPath):
            return a.e == b.e
        if isinstance(a, VUn) and isinstance(b, VUn) and a.t == b.t:
            return a.e == b.e
        ja, jb = type(a).__name__ == "VJson", type(b).__name__ == "VJson"
        if ja != jb:
            # a dynamically typed (Json) value against a python str / None / dict: compare with the injected value
            # (numbers are left alone: python's 1 == 1.0 is not representation identity)
            j, o = (a, b) if ja else (b, a)
            if isinstance(o, (VStr, VNone, VMap)) or type(o).__name__ == "VDictRec":
                e = j.t.coerce_in(o)
                if e is not None:
                    return j.e == e
        if isinstance(a, VTuple) and isinstance(b, VTuple):
            if len(a.items) != len(b.items):
                return z3.BoolVal(False)
            return z3.And([self.eq(x, y) for x, y in zip(a.items, b.items)] + [z3.BoolVal(True)])
        if isinstance(a, VDRec) or isinstance(b, VDRec):
            if isinstance(a, VDictRec) and drec_shape_ok(a, b.t):
                a = b.t.wrap(drec_of_literal(a, b.t))
            if isinstance(b, VDictRec) and drec_shape_ok(b, a.t):
                b = a.t.wrap(drec_of_literal(b, a.t))
            if not (isinstance(a, VDRec) and isinstance(b, VDRec) and a.t == b.t):
                return z3.BoolVal(False)
            # dict equality: same keys present, equal values on them (values of absent keys are irrelevant)
            conj = []
            for fn in a.t.fields:
                if fn in a.t.optional:
                    conj.append(a.has(fn) == b.has(fn))
                    conj.append(z3.Implies(a.has(fn), self.eq(a.field(fn), b.field(fn))))
                else:
                    conj.append(self.eq(a.field(fn), b.field(fn)))
            return z3.And(conj + [z3.BoolVal(True)])
        if isinstance(a, VRec) and isinstance(b, VRec):
            if a.t.nm != b.t.nm:
                return z3.BoolVal(False)
            vs = getattr(a.t, "variants", None)
            if vs is not None:
                # dataclass equality inside a tagged union: same class, equal fields of that class
                tag = a.fields["_cls"].e
                cs = [tag == b.fields["_cls"].e]
                for f in a.t.fields:
                    if f == "_cls":
                        continue
                    owners = [c for c, fs in vs.items() if f in fs]
                    cs.append(z3.Implies(z3.Or([tag == z3.StringVal(c) for c in owners] + [z3.BoolVal(False)]),
                                         self.eq(a.fields[f], b.fields[f])))
                return z3.And(cs)
            return z3.And([self.eq(a.fields[f], b.fields[f]) for f in a.t.fields] + [z3.BoolVal(True)])
        if isinstance(a, VEmptyList) or isinstance(b, VEmptyList):
            o = b if isinstance(a, VEmptyList) else a
            if isinstance(o, VEmptyList):
                return z3.BoolVal(True)
            if isinstance(o, VSeq):
                return o.n == 0
            return z3.BoolVal(False)
        if isinstance(a, VSeq) and isinstance(b, VSeq) and a.et == b.et:
            i = z3.Int(self.path.fresh_name("eq_i"))
            ea, eb = a.et.wrap(z3.Select(a.arr, i)), b.et.wrap(z3.Select(b.arr, i))
            return z3.And(a.n == b.n, z3.ForAll([i], z3.Implies(z3.And(0 <= i, i < a.n), self.eq(ea, eb))))
        if isinstance(a, VMap) and isinstance(b, VMap) and a.kt == b.kt and a.vt == b.vt:
            k = z3.Const(self.path.fresh_name("eq_k"), a.kt.sort())
            va, vb = a.vt.wrap(z3.Select(a.val, k)), b.vt.wrap(z3.Select(b.val, k))
            return z3.ForAll([k], z3.And(z3.Select(a.dom, k) == z3.Select(b.dom, k),
                                         z3.Implies(z3.Select(a.dom, k), self.eq(va, vb))))
        if isinstance(a, VSet) and isinstance(b, VSet) and a.kt == b.kt:
            k = z3.Const(self.path.fresh_name("eq_k"), a.kt.sort())
            return z3.ForAll([k], z3.Select(a.dom, k) == z3.Select(b.dom, k))
        if isinstance(a, VDictRec) and isinstance(b, VDictRec) and (a.mt is not None or b.mt is not None):
            # by-value records: python dict equality is structural
            mt = a.mt if a.mt is not None else b.mt
            try:
                return unwrap(a, mt) == unwrap(b, mt)
            except TypeError:
                return z3.BoolVal(False)
        if isinstance(a, (VObj, VFunc, VClass, VDictRec, VOpaque)) or isinstance(b, (VObj, VFunc, VClass, VDictRec, VOpaque)):
            if isinstance(a, VClass) and isinstance(b, VClass):
                return z3.BoolVal(a.name == b.name)
            return z3.BoolVal(a is b)
        # different python types never compare equal
        return z3.BoolVal(False)

    def lt(self, a, b, strict=True):
        """a < b (strict) or a <= b for ints/reals/strings/tuples"""
        if isinstance(a, VUndef) or isinstance(b, VUndef):
            return self.undef_bool()
        if self.spec:
            if isinstance(a, VOpt):
                a = a.val()
            if isinstance(b, VOpt):
                b = b.val()
        elif isinstance(a, (VOpt, VDyn)) or isinstance(b, (VOpt, VDyn)):
            a, b = self.force(a), self.force(b)
        if self.spec and (isinstance(a, VDyn) or isinstance(b, VDyn)):
            return D.py_lt(self, a, b, strict)
        if (isinstance(a, VNaN) and (is_num(b) or isinstance(b, VNaN))) or (isinstance(b, VNaN) and is_num(a)):
            return z3.BoolVal(False)          # every ordering comparison with nan is False
        if isinstance(a, VNone) or isinstance(b, VNone):
            self.raise_exc("TypeError", "ordering comparison with None")
        if is_num(a) and is_num(b):
            if isinstance(a, VReal) or isinstance(b, VReal):
                x, y = to_real(a), to_real(b)
            else:
                x, y = to_int(a), to_int(b)
            return x < y if strict else x <= y
        if isinstance(a, VStr) and isinstance(b, VStr):
            if getattr(self.ver, "abstract_str_order", False):
                return self.abstract_str_le(a.e, b.e, strict)
            return (a.e < b.e) if strict else (a.e <= b.e)
        if type(a).__name__ == "VWStr" and type(b).__name__ == "VWStr":
            from . import jsontree
            return jsontree.w_lt(self, a, b, strict)
        if isinstance(a, VTuple) and isinstance(b, VTuple):
            return self._lex(a.items, b.items, strict)
        if isinstance(a, VUn) and isinstance(b, VUn) and a.t == b.t:
            f = self.ver.order_fn(a.t)
            if not getattr(self.path, "_ord_ax_" + a.t.nm, False):
                # comparable opaque keys: `le_<sort>` is a total order (reflexive, total, antisymmetric, transitive)
                setattr(self.path, "_ord_ax_" + a.t.nm, True)
                for ax in self.ver.order_axioms(a.t):
                    self.path.assume(ax)
            return f(a.e, b.e) if not strict else z3.And(f(a.e, b.e), a.e != b.e)
        if self.spec:
            raise Unsupported("ordering of %s and %s" % (type(a).__name__, type(b).__name__))
        self.raise_exc("TypeError", "unorderable")

    def abstract_str_le(self, x, y, strict):
        """per-contract option abstract_str_order: the lexicographic order of strings is replaced by an
        uninterpreted *total order* `str_le` (reflexive, antisymmetric, transitive, total).  Sound: every obligation
        proved for an arbitrary total order holds for the real one (facts imported from callee contracts are read
        through the same abstraction and hold for the real order); z3's native str.< / str.<= make goals with
        order axioms over symbolic strings (sorted(key=...(.., id))) intractable."""
        f = z3.Function("str_le", z3.StringSort(), z3.StringSort(), z3.BoolSort())
        if not getattr(self.path, "_strord_axioms", False):
            self.path._strord_axioms = True
            a, b, c = z3.Strings("so_a so_b so_c")
            self.path.assume(z3.ForAll([a], f(a, a), patterns=[f(a, a)]))
            self.path.assume(z3.ForAll([a, b], z3.Or(f(a, b), f(b, a)), patterns=[f(a, b)]))
            self.path.assume(z3.ForAll([a, b], z3.Implies(z3.And(f(a, b), f(b, a)), a == b), patterns=[z3.MultiPattern(f(a, b), f(b, a))]))
            self.path.assume(z3.ForAll([a, b, c], z3.Implies(z3.And(f(a, b), f(b, c)), f(a, c)),
                                       patterns=[z3.MultiPattern(f(a, b), f(b, c))]))
            self.ver.note_assumption("string order abstracted to an uninterpreted total order (contract option abstract_str_order)")
        if strict:
            return z3.And(f(x, y), x != y)
        return f(x, y)

    def _lex(self, xs, ys, strict):
        if not xs or not ys:
            if strict:
                return z3.BoolVal(len(xs) < len(ys))
            return z3.BoolVal(len(xs) <= len(ys))
        h1, h2 = xs[0], ys[0]
        return z3.Or(self.lt(h1, h2, True), z3.And(self.eq(h1, h2), self._lex(xs[1:], ys[1:], strict)))

    # ------------------------------------------------------------------ exceptions
    def raise_exc(self, cls, msg=""):
        if self.spec:
            raise SpecUndef("partial operation in spec mode: %s %s" % (cls, msg))
        if os.environ.get("PYVC_RAISE_TB"):
            import traceback
            traceback.print_stack(limit=6)
            print("   raise_exc", cls, msg)
        raise PyRaise(VExc(cls, [mk_const(msg)]))

    def require_defined(self, cond, cls, msg=""):
        """definedness of a primitive: branch; the undefined side raises the python exception."""
        if self.spec:
            return
        if not self.path.branch(cond):
            self.raise_exc(cls, msg)

    # ------------------------------------------------------------------ names
    def lookup(self, name, env):
        if self.spec and name in self.binders:
            return self.binders[name]
        v = env.lookup(name)
        if v is not None:
            return v
        if self.spec and getattr(self, "ghost_env", None) is not None:
            # ghost variables of the contract are visible to every specification, also to loop invariants of
            # functions interpreted inline (whose environments do not chain to the ghost environment)
            v = self.ghost_env.vars.get(name)
            if v is not None:
                return v
        v = self.ver.module_name(env.module, name, self)
        if v is not None:
            return v
        from . import builtins as B
        v = B.builtin_name(name, self)
        if v is not None:
            return v
        v = self.ver.spec_name(name)
        if v is not None and (self.spec or v.kind == "builtin"):
            return v
        rn = getattr(self.ver, "renames", None)
        if rn and name in rn and len(getattr(self, "fn_stack", [])) <= 1:
            # the contract (spec or ghost statement) names a local of the pinned source that was purely renamed since
            # (verifier.local_renames); the current code itself cannot mention the old name: it no longer exists
            v = env.lookup(rn[name])
            if v is not None:
                return v
        if not self.spec:
            self.raise_exc("NameError", name)
        raise Unsupported("unknown name in spec: %s" % name)

    # ------------------------------------------------------------------ expressions
    def ev(self, n, env):
        m = getattr(self, "ev_" + type(n).__name__, None)
        if m is None:
            raise Unsupported("expression %s at line %s" % (type(n).__name__, getattr(n, "lineno", "?")))
        if self.spec:
            try:
                return m(n, env)
            except SpecUndef:
                return VUndef()
        return m(n, env)

    def ev_Constant(self, n, env):
        return mk_const(n.value)

    def ev_Name(self, n, env):
        return self.lookup(n.id, env)

    def ev_Tuple(self, n, env):
        items = []
        for e in n.elts:
            if isinstance(e, ast.Starred):
                sv = self.ev(e.value, env)
                if isinstance(sv, VTuple):
                    items.extend(sv.items)
                else:
                    raise Unsupported("starred non-tuple")
            else:
                items.append(self.ev(e, env))
        return VTuple(items)

    def ev_List(self, n, env):
        items = [self.ev(e, env) for e in n.elts]
        return self.mk_list(items, hint_type=None)

    def mk_list(self, items, hint_type=None, kind="list"):
        if hint_type is None:
            if not items:
                et = None
            elif any(isinstance(x, (VDictRec, VObj)) or _has_nan(x) for x in items):
                # elements without a symbolic encoding (dict literals / heap objects): concrete python-level list
                return VPyList(items)
            else:
                et = self.join_types([typeof(self.encodable(x)) for x in items])
        else:
            et = hint_type
        if et is None:
            return VEmptyList(kind)
        arr = z3.K(z3.IntSort(), self.default_of(et))
        for i, x in enumerate(items):
            arr = z3.Store(arr, i, unwrap(x, et))
        return VSeq(arr, z3.IntVal(len(items)), et, kind)

    def encodable(self, v):
        if isinstance(v, VDictRec):
            try:
                return VDyn(D.to_dyn(v))
            except TypeError:
                return v
        return v

    def join_types(self, ts):
        t0 = ts[0]
        if any(t is TDyn for t in ts):
            return TDyn
        for t in ts[1:]:
            if t == t0:
                continue
            if t0 is TInt and t is TReal or t0 is TReal and t is TInt:
                t0 = TReal
            elif t is TNone and not isinstance(t0, TOpt):
                t0 = TOpt(t0)
            elif t0 is TNone:
                t0 = t if isinstance(t, TOpt) else TOpt(t)
            elif isinstance(t0, TOpt) and (t0.inner == t or t is TNone):
                pass
            else:
                raise Unsupported("heterogeneous list %s / %s" % (t0, t))
        return t0

    def default_of(self, t):
        return z3.Const("dflt_" + "".join(c if c.isalnum() else "_" for c in t.name), t.sort())

    def _keyrec_with_unpacked(self, n, env, first):
        """{**rec, "k": v, ...} for R.keyrec records (Optional-encoded optional keys)"""
        vals = {}
        for k, v in zip(n.keys, n.values):
            if k is None:
                src = first if v is n.values[0] else self.force(self.ev(v, env))
                if not (isinstance(src, VRec) and getattr(src.t, "dictshape", False)):
                    raise Unsupported("dict unpacking of %s next to a keyrec" % type(src).__name__)
                for fn, fv in src.fields.items():
                    vals[fn] = (fv, fn in src.t.optkeys)
            else:
                c = const_of(self.ev(k, env))
                if not isinstance(c, str):
                    raise Unsupported("dict literal with symbolic keys")
                vals[c] = (self.ev(v, env), False)
        cands = [t for t in self.ver.types.named.values()
                 if isinstance(t, TRec) and getattr(t, "dictshape", False) and set(t.fields) == set(vals)]
        if len(cands) != 1:
            raise Unsupported("dict unpacking literal: %d declared keyrecs have the keys %s" % (len(cands), sorted(vals)))
        t = cands[0]
        out = {}
        for fn, ft in t.fields.items():
            v, maybe_absent = vals[fn]
            if maybe_absent:
                if fn not in t.optkeys or not isinstance(v, VOpt) or v.t != ft:
                    raise Unsupported("dict unpacking literal: optional key %s does not line up with %s" % (fn, t.nm))
                out[fn] = v
            elif fn in t.optkeys:
                out[fn] = ft.wrap(ft.some(unwrap(v, ft.inner)))
            else:
                out[fn] = ft.wrap(unwrap(v, ft))
        return VRec(out, t)

    def _dict_with_unpacked_record(self, n, env):
        """{**rec, "k": v, ...} where rec is a dict-shaped record: the result is the declared dict-shaped record type
        whose key set is exactly the union (later keys override earlier ones, as in python)."""
        vals = {}
        for k, v in zip(n.keys, n.values):
            if k is None:
                src = self.ev(v, env)
                if not self.spec:
                    src = self.force(src)
                if isinstance(src, VRec) and getattr(src.t, "dictshape", False):
                    return self._keyrec_with_unpacked(n, env, src)
                if isinstance(src, VDRec):
                    for fn in src.t.fields:
                        vals[fn] = (src.field(fn), src.has(fn) if fn in src.t.optional else None)
                elif isinstance(src, VDictRec):
                    for fn, fv in src.fields.items():
                        vals[fn] = (fv, None)
                else:
                    raise Unsupported("dict unpacking of %s" % type(src).__name__)
            else:
                c = const_of(self.ev(k, env))
                if not isinstance(c, str):
                    raise Unsupported("dict literal with symbolic keys")
                vals[c] = (self.ev(v, env), None)
        cands = [t for t in self.ver.types.named.values() if isinstance(t, TDRec) and set(t.fields) == set(vals)
                 and all(fn in t.optional for fn, (_, pres) in vals.items() if pres is not None)]
        if len(cands) != 1:
            raise Unsupported("dict unpacking literal: %d declared dict-shaped records have the keys %s" % (len(cands), sorted(vals)))
        t = cands[0]
        zv, present = {}, {}
        for fn, ft in t.fields.items():
            v, pres = vals[fn]
            zv[fn] = unwrap(v, ft)
            if fn in t.optional:
                present[fn] = pres if pres is not None else z3.BoolVal(True)
        return t.wrap(t.mk(zv, present))

    def ev_Dict(self, n, env):
        if any(k is None for k in n.keys):
            return self._dict_with_unpacked_record(n, env)
        keys = []
        for k in n.keys:
            if k is None:
                raise Unsupported("dict unpacking literal")
            kv = self.ev(k, env)
            keys.append(kv)
        vals = [self.ev(v, env) for v in n.values]
        cks = [const_of(k) if isinstance(k, VStr) else _NOCONST for k in keys]
        if all(isinstance(c, str) for c in cks):
            return VDictRec(dict(zip(cks, vals)))
        if not keys:
            return VDictRec({})
        raise Unsupported("dict literal with symbolic keys")

    def ev_Set(self, n, env):
        """{a, b, c}: a set of scalars of one encodable type (cardinality exact for constants, else 1..n)"""
        items = [self.ev(e, env) for e in n.elts]
        if not items or any(not isinstance(x, (VInt, VStr, VBool, VUn)) for x in items):
            raise Unsupported("set literal")
        if all(isinstance(e, ast.Constant) for e in n.elts) and len({type(e.value) for e in n.elts}) > 1:
            return VPyConstSet(items)          # mixed-type constants: python-level set (membership only)
        kt = self.join_types([typeof(x) for x in items])
        dom = z3.K(kt.sort(), z3.BoolVal(False))
        for x in items:
            dom = z3.Store(dom, unwrap(x, kt), z3.BoolVal(True))
        cs = [const_of(x) for x in items]
        if all(c is not _NOCONST for c in cs):
            card = z3.IntVal(len(set(cs)))
        else:
            card = self.path.fresh("setlit_card", z3.IntSort())
            self.path.assume(z3.And(card >= 1, card <= len(items)))
        return VSet(dom, card, kt)

    def ev_JoinedStr(self, n, env):
        parts = []
        for v in n.values:
            if isinstance(v, ast.Constant):
                parts.append(z3.StringVal(v.value))
            elif isinstance(v, ast.FormattedValue):
                x = self.ev(v.value, env)
                if v.format_spec is not None or v.conversion not in (-1, 115):
                    # one uninterpreted function per (conversion, format spec): `{x:02d}` and `{x:03d}` must not be
                    # identified with each other
                    if v.format_spec is not None and any(isinstance(c, ast.FormattedValue) for c in ast.walk(v.format_spec)):
                        raise Unsupported("f-string with a computed format spec")
                    tag ="fmt_%s_%s" % (v.conversion, "".join(c if c.isalnum() else "_" for c in (
                        ast.unparse(v.format_spec) if v.format_spec is not None else "")))
                    sx = self.ver.opaque_str(tag, x, self)
                else:
                    sx = self.to_str(x)
                parts.append(sx.e)
        if not parts:
            return VStr("")
        e = parts[0]
        for p in parts[1:]:
            e = z3.Concat(e, p)
        return VStr(e)

    def to_str(self, x):
        from . import builtins as B
        return B.bi_str(self, [x], {})

    def ev_BoolOp(self, n, env):
        if self.spec:
            vals = [self.ev(v, env) for v in n.values]
            vals = [VBool(self.undef_bool()) if isinstance(v, VUndef) else v for v in vals]
            if all(isinstance(v, VBool) for v in vals):
                es = [v.e for v in vals]
                return VBool(z3.And(es) if isinstance(n.op, ast.And) else z3.Or(es))
            # value-level and/or in spec mode -> ite chain
            cur = vals[-1]
            for v in reversed(vals[:-1]):
                c = self.truth(v)
                cur = self.ite(c, cur, v) if isinstance(n.op, ast.And) else self.ite(c, v, cur)
            return cur
        # exec mode: short-circuit with python value semantics
        last = None
        for i, sub in enumerate(n.values):
            last = self.ev(sub, env)
            if i == len(n.values) - 1:
                return last
            if isinstance(last, VDyn) and isinstance(n.op, ast.Or) and i == len(n.values) - 2 and not self.ver.no_if_conversion:
                nxt = n.values[i + 1]
                if (isinstance(nxt, ast.Dict) and not nxt.keys) or (isinstance(nxt, ast.List) and not nxt.elts) or \
                        (isinstance(nxt, ast.Constant) and isinstance(nxt.value, (int, float, str, bool, type(None)))):
                    # `x or {}` / `x or []` / `x or 0`: the default is a side-effect free literal; merge instead of forking
                    D.wf(self, last.e)
                    return VDyn(z3.If(D.truth(last), last.e, D.to_dyn(self.ev(nxt, env))))
            if isinstance(n.op, ast.Or) and i == len(n.values) - 2 and isinstance(n.values[-1], ast.Constant) \
                    and isinstance(n.values[-1].value, str) and isinstance(last, VStr):
                # `s or "<literal>"` on a string: value-level (no path fork); the literal has no side effect and a
                # str is falsy exactly when it is empty
                return VStr(z3.If(last.e != z3.StringVal(""), last.e, z3.StringVal(n.values[-1].value)))
            # pure boolean fast path: remaining operands are side-effect free comparisons
            t = self.test(last)
            if isinstance(n.op, ast.And) and not t:
                return last
            if isinstance(n.op, ast.Or) and t:
                if isinstance(last, VOpt):
                    self.path.assume(z3.Not(last.is_none()))
                    return last.val()
                return last
        return last

    def ite(self, c, a, b):
        """value-level if-then-else without forking (same encodable type needed)."""
        c = z3.simplify(c)
        if z3.is_true(c):
            return a
        if z3.is_false(c):
            return b
        if isinstance(a, VDictRec) and isinstance(b, VDictRec) and (a.mt is not None or b.mt is not None) and self.spec:
            mt = a.mt if a.mt is not None else b.mt   # by-value records (spec level only: the result is a copy)
            return mt.wrap(z3.If(c, unwrap(a, mt), unwrap(b, mt)))
        if isinstance(a, (VObj, VFunc, VDictRec)) or isinstance(b, (VObj, VFunc, VDictRec)):
            if a is b:
                return a
            raise Unsupported("ite over heap objects")
        ta, tb = typeof(a), typeof(b)
        t = self.join_types([ta, tb])
        return t.wrap(z3.If(c, unwrap(a, t), unwrap(b, t)))

    def ev_UnaryOp(self, n, env):
        if isinstance(n.op, ast.Not):
            pol = self.polarity
            self.polarity = False
            try:
                v = self.ev(n.operand, env)
            finally:
                self.polarity = pol
            return VBool(z3.Not(self.truth(v)))
        v = self.ev(n.operand, env)
        v = self.force(v) if not self.spec else v
        if isinstance(n.op, ast.USub):
            if isinstance(v, VReal):
                return VReal(-v.e)
            if isinstance(v, (VInt, VBool)):
                return VInt(-to_int(v))
        if isinstance(n.op, ast.UAdd) and is_num(v):
            return v
        if self.spec:
            raise Unsupported("unary op")
        self.raise_exc("TypeError", "bad operand for unary op")

    def ev_IfExp(self, n, env):
        c = self.ev(n.test, env)
        if self.spec:
            return self.ite(self.truth(c), self.ev(n.body, env), self.ev(n.orelse, env))
        if isinstance(c, VBool) and not self.ver.no_if_conversion and self._simple_expr(n.body) and self._simple_expr(n.orelse):
            # `a if c else b` with side-effect free scalar arms: a value-level if-then-else instead of a fork
            try:
                tv, fv = self.ev(n.body, env), self.ev(n.orelse, env)
                scal = (VInt, VReal, VBool, VStr)
                if isinstance(tv, scal) and isinstance(fv, scal):
                    return self.ite(c.e, tv, fv)
            except (Unsupported, TypeError, PyRaise):
                pass
        if self.test(c):
            return self.ev(n.body, env)
        return self.ev(n.orelse, env)

    def ev_Compare(self, n, env):
        left = self.ev(n.left, env)
        acc = None
        for op, rn in zip(n.ops, n.comparators):
            right = self.ev(rn, env)
            c = self.compare(op, left, right)
            if len(n.ops) == 1:
                return VBool(c)
            if self.spec:
                acc = c if acc is None else z3.And(acc, c)
            else:
                if not self.path.branch(c):
                    return VBool(False)
                acc = z3.BoolVal(True)
            left = right
        return VBool(acc)

    def compare(self, op, a, b):
        if isinstance(op, ast.Eq):
            return self.eq(a, b)
        if isinstance(op, ast.NotEq):
            return z3.Not(self.eq(a, b))
        if isinstance(op, ast.Is):
            return self.is_(a, b)
        if isinstance(op, ast.IsNot):
            return z3.Not(self.is_(a, b))
        if isinstance(op, ast.Lt):
            return self.lt(a, b, True)
        if isinstance(op, ast.LtE):
            return self.lt(a, b, False)
        if isinstance(op, ast.Gt):
            return self.lt(b, a, True)
        if isinstance(op, ast.GtE):
            return self.lt(b, a, False)
        if isinstance(op, ast.In):
            return self.contains(b, a)
        if isinstance(op, ast.NotIn):
            return z3.Not(self.contains(b, a))
        raise Unsupported("compare op")

    def is_(self, a, b_):
        if isinstance(a, VNone) or isinstance(b_, VNone):
            return self.eq(a, b_)
        if isinstance(a, VDyn) or isinstance(b_, VDyn) or isinstance(getattr(a, "origin", None) and a.origin[0], D._Frozen) \
                or isinstance(getattr(b_, "origin", None) and b_.origin[0], D._Frozen):
            raise Unsupported("'is' on Dyn values (object identity of JSON-like values is not modelled)")
        if not self.spec and (isinstance(a, VOpt) or isinstance(b_, VOpt)):
            a, b_ = self.force(a), self.force(b_)
            if isinstance(a, VNone) or isinstance(b_, VNone):
                return self.eq(a, b_)
        if _is_j(a) or _is_j(b_):
            return z3.BoolVal(a is b_)
        if isinstance(a, (VObj, VFunc, VClass, VDictRec, VSeq, VMap, VSet, VOpaque)) or \
                isinstance(b_, (VObj, VFunc, VClass, VDictRec, VSeq, VMap, VSet, VOpaque)):
            return z3.BoolVal(a is b_)
        if isinstance(a, VBool) and isinstance(b_, VBool):
            return a.e == b_.e
        # identity of two values of an immutable/opaque type is not modelled: an unconstrained boolean that can only
        # be true when the values are equal (identity implies equality; nothing follows from non-identity)
        if self.spec:
            raise Unsupported("'is' on values")
        bb = self.path.fresh("is_same", z3.BoolSort())
        self.path.assume(z3.Implies(bb, self.eq(a, b_)))
        self.ver.note_assumption("`x is y` on non-heap values: unconstrained except that identity implies equality")
        return bb

    def contains(self, cont, x):
        from . import builtins as B
        return B.contains(self, cont, x)

    def ev_BinOp(self, n, env):
        a = self.ev(n.left, env)
        b = self.ev(n.right, env)
        return self.binop(n.op, a, b)

    def binop(self, op, a, b):
        from . import builtins as B
        return B.binop(self, op, a, b)

    def ev_Attribute(self, n, env):
        o = self.ev(n.value, env)
        return self.getattr(o, n.attr)

    def getattr(self, o, name, default=_NOCONST):
        from . import builtins as B
        return B.get_attribute(self, o, name, default)

    def ev_Subscript(self, n, env):
        o = self.ev(n.value, env)
        from . import builtins as B
        if isinstance(n.slice, ast.Slice):
            lo = self.ev(n.slice.lower, env) if n.slice.lower is not None else None
            hi = self.ev(n.slice.upper, env) if n.slice.upper is not None else None
            if n.slice.step is not None:
                raise Unsupported("slice step")
            return B.slice_(self, o, lo, hi)
        k = self.ev(n.slice, env)
        return B.subscript(self, o, k)

    def ev_Call(self, n, env):
        # spec special forms
        if isinstance(n.func, ast.Name) and (self.spec or n.func.id in ("ghost",)):
            sf = getattr(self, "spec_" + n.func.id, None)
            if sf is not None and self.spec:
                return sf(n, env)
        # locals() idiom: a read-only view of the current function's local names (see builtins.VLocals)
        if isinstance(n.func, ast.Name) and n.func.id == "locals" and not n.args and not self.spec and env.lookup("locals") is None:
            from . import builtins as B
            fnode = self.fn_stack[-1].node if getattr(self, "fn_stack", None) else None
            return B.VLocals(env, fnode)
        f = self.ev(n.func, env)
        args = []
        for a in n.args:
            if isinstance(a, ast.Starred):
                sv = self.ev(a.value, env)
                if isinstance(sv, VTuple):
                    args.extend(sv.items)
                else:
                    raise Unsupported("*args of non tuple")
            elif isinstance(a, ast.GeneratorExp):
                args.append(self.ev_ListComp(a, env))
            else:
                args.append(self.ev(a, env))
        kwargs = {}
        for kw in n.keywords:
            if kw.arg is None:
                d = self.ev(kw.value, env)
                if isinstance(d, VDictRec):
                    kwargs.update(d.fields)
                else:
                    raise Unsupported("**kwargs of symbolic dict")
            else:
                kwargs[kw.arg] = self.ev(kw.value, env)
        return self.call(f, args, kwargs, node=n)

    def run_cut(self, key, env, extra=None):
        """cut point `key` of the verified contract (`asserts={key: [...]}`): ghost statements are executed, other
        clauses proved (named obligations) and assumed"""
        c = self.cur_contract
        if c is None or not getattr(c, "asserts", None) or len(self.fn_stack) != 1:
            return
        for i, cl in enumerate(c.asserts.get(key, [])):
            if cl.startswith("ghost:"):
                self.exec_ghost(cl[6:], env, extra=extra)
                continue
            if cl.startswith("check:"):
                self.path.prove(self.eval_spec(cl[6:], env, extra=extra), "%s/assert-after:%s#%d" % (c.short, key, i), "assert",
                                where=cl[6:], assume_form=z3.BoolVal(True))
                continue
            self.path.prove(self.eval_spec(cl, env, extra=extra), "%s/assert-after:%s#%d" % (c.short, key, i), "assert", where=cl)

    def ev_Yield(self, n, env):
        """`yield e` in the verified function itself: the generator's output is not materialised (it may contain
        heap objects and is produced across loop cuts); instead every yield is a cut point "yield:<source of e>"
        whose ghost statements (with `_yield` bound to the value) record what the contract talks about."""
        if len(self.fn_stack) != 1 or self.spec:
            raise Unsupported("yield outside the verified function")
        v = self.ev(n.value, env) if n.value is not None else VNone()
        self.run_cut("yield:" + (ast.unparse(n.value) if n.value is not None else ""), env, extra={"_yield": v})
        return VNone()

    def ev_Lambda(self, n, env):
        return VFunc("lambda", "<lambda>", node=n, module=env.module, closure=env)

    def ev_ListComp(self, n, env):
        from . import builtins as B
        return B.comprehension(self, n, env)

    ev_GeneratorExp = ev_ListComp

    def ev_DictComp(self, n, env):
        from . import builtins as B
        return B.dict_comprehension(self, n, env)

    def ev_SetComp(self, n, env):
        from . import builtins as B
        return B.set_comprehension(self, n, env)

    def ev_Starred(self, n, env):
        raise Unsupported("starred")

    def ev_NamedExpr(self, n, env):
        v = self.ev(n.value, env)
        env.set(n.target.id, v)
        return v

    # ------------------------------------------------------------------ spec special forms
    def _bind(self, var_node, sort_hint, env, body_fn):
        name = var_node.id
        return name

    def _patterns_for(self, cs, exprs):
        """explicit triggers: array reads / function applications whose argument is exactly a bound variable"""
        ids = {c.get_id(): k for k, c in enumerate(cs)}
        found = [[] for _ in cs]
        seen = set()

        def uses_bound(e):
            st = [e]
            sn = set()
            while st:
                x = st.pop()
                if x.get_id() in sn:
                    continue
                sn.add(x.get_id())
                if x.get_id() in ids:
                    return True
                if z3.is_app(x):
                    st.extend(x.children())
                elif z3.is_quantifier(x):
                    st.append(x.body())
            return False

        def pattern_ok(e):
            st = [e]
            sn = set()
            while st:
                x = st.pop()
                if x.get_id() in sn:
                    continue
                sn.add(x.get_id())
                if z3.is_quantifier(x) or not z3.is_app(x):
                    if z3.is_var(x):
                        continue
                    return False
                k = x.decl().kind()
                if k in (z3.Z3_OP_ITE, z3.Z3_OP_AND, z3.Z3_OP_OR, z3.Z3_OP_NOT, z3.Z3_OP_IMPLIES, z3.Z3_OP_EQ,
                         z3.Z3_OP_LE, z3.Z3_OP_LT, z3.Z3_OP_GE, z3.Z3_OP_GT, z3.Z3_OP_DISTINCT):
                    return False
                st.extend(x.children())
            return True

        stack = list(exprs)
        while stack:
            e = stack.pop()
            if e.get_id() in seen:
                continue
            seen.add(e.get_id())
            if z3.is_quantifier(e):
                continue
            if z3.is_app(e):
                ch = e.children()
                if not pattern_ok(e):
                    stack.extend(ch)
                    continue
                if z3.is_select(e) and ch[1].get_id() in ids and not uses_bound(ch[0]):
                    found[ids[ch[1].get_id()]].append(e)
                elif e.decl().kind() == z3.Z3_OP_UNINTERPRETED and len(ch) >= 1 and \
                        any(c.get_id() in ids for c in ch) and all(c.get_id() in ids or not uses_bound(c) for c in ch):
                    for c in ch:
                        if c.get_id() in ids:
                            found[ids[c.get_id()]].append(e)
                stack.extend(ch)
        if any(not f for f in found):
            return None
        if len(cs) == 1:
            return found[0][:4]
        # multi-patterns: one term per variable (a term covering several variables is used once)
        pats = []
        first = []
        for f in found:
            first.append(f[0])
        uniq = []
        for t in first:
            if all(t.get_id() != u.get_id() for u in uniq):
                uniq.append(t)
        pats.append(z3.MultiPattern(*uniq) if len(uniq) > 1 else uniq[0])
        return pats

    def _mk_forall(self, cs, cond, body):
        if z3.is_true(z3.simplify(cond)) and z3.is_quantifier(body) and body.is_forall():
            # forall x. True => (forall y. phi)  ==  forall x y. phi : one quantifier, so that a trigger mentioning
            # both x and y can be chosen (z3 does not pull nested quantifiers by default)
            n = body.num_vars()
            vs = [z3.Const(body.var_name(k), body.var_sort(k)) for k in range(n)]
            inner = z3.substitute_vars(body.body(), *reversed(vs))
            if z3.is_implies(inner):
                return self._mk_forall(list(cs) + vs, inner.arg(0), inner.arg(1))
            return self._mk_forall(list(cs) + vs, z3.BoolVal(True), inner)
        pats = None
        if not self.ver.no_patterns:
            try:
                pats = self._patterns_for(cs, [cond, body])
            except Exception:
                pats = None
        if pats:
            try:
                return z3.ForAll(cs, z3.Implies(cond, body), patterns=pats)
            except z3.Z3Exception:
                pass
        return z3.ForAll(cs, z3.Implies(cond, body))

    def _quant(self, n, env, is_forall):
        # forall(i, cond, body) ; forall((k, "str"), cond, body) for non-int binders
        vn = n.args[0]
        if isinstance(vn, ast.Tuple):
            name = vn.elts[0].id
            t = self.ver.types.parse(vn.elts[1].value)
        else:
            name = vn.id
            t = TInt
        skolem = (not is_forall) and self.assume_mode and self.polarity and self.q_ctx
        if skolem:
            fn = z3.Function(self.path.fresh_name("sk_" + name), *([v.sort() for v in self.q_ctx] + [t.sort()]))
            c = fn(*self.q_ctx)
        else:
            c = z3.Const("q_%s!%d" % (name, self.path.qcounter()), t.sort())
        saved = self.binders.get(name, None)
        had = name in self.binders
        self.binders[name] = t.wrap(c)
        if is_forall:
            self.q_ctx = self.q_ctx + [c]
        try:
            if is_forall:
                pol = self.polarity
                self.polarity = False
                try:
                    cond = self.truth(self.ev(n.args[1], env))
                finally:
                    self.polarity = pol
            else:
                cond = self.truth(self.ev(n.args[1], env))
            body = self.truth(self.ev(n.args[2], env))
        finally:
            if is_forall:
                self.q_ctx = self.q_ctx[:-1]
            if had:
                self.binders[name] = saved
            else:
                del self.binders[name]
        if is_forall:
            return VBool(self._mk_forall([c], cond, body))
        if skolem:
            return VBool(z3.And(cond, body))
        return VBool(z3.Exists([c], z3.And(cond, body)))

    def spec_forall2(self, n, env):
        """forall2(i, j, cond, body): one quantifier over two integer binders (better triggers than nesting)"""
        names = [n.args[0].id, n.args[1].id]
        cs = [z3.Const("q_%s!%d" % (nm, self.path.qcounter()), z3.IntSort()) for nm in names]
        saved = {nm: self.binders.get(nm, _MISSING) for nm in names}
        for nm, c in zip(names, cs):
            self.binders[nm] = VInt(c)
        self.q_ctx = self.q_ctx + cs
        try:
            pol = self.polarity
            self.polarity = False
            try:
                cond = self.truth(self.ev(n.args[2], env))
            finally:
                self.polarity = pol
            body = self.truth(self.ev(n.args[3], env))
        finally:
            self.q_ctx = self.q_ctx[:-2]
            for nm in names:
                if saved[nm] is _MISSING:
                    del self.binders[nm]
                else:
                    self.binders[nm] = saved[nm]
        return VBool(self._mk_forall(cs, cond, body))

    def spec_forall(self, n, env):
        return self._quant(n, env, True)

    def spec_exists(self, n, env):
        return self._quant(n, env, False)

    def spec_exists_fn(self, n, env):
        """exists_fn(p, body): there is a function p: int -> int with body (p is applied as p(j) in body).
        Assumed (positive): p is a fresh function symbol.  Proved (positive): the disjunction over explicit
        candidate witnesses -- the contract's `witnesses[p]` lambdas (evaluated over the function's current
        locals), the permutations produced by sorted()/list.sort() on this path, and the identity; each
        disjunct implies the existential, so this is sound (possibly incomplete).  Negative occurrences are
        not supported."""
        name = n.args[0].id
        if not self.polarity:
            raise Unsupported("exists_fn in a negative position")
        if self.assume_mode:
            if self.q_ctx:
                raise Unsupported("exists_fn under a quantifier in an assumed clause")
            fn = z3.Function(self.path.fresh_name("sk_" + name), z3.IntSort(), z3.IntSort())
            cands = [fn]
        else:
            cands = []
            c = self.cur_contract
            top = getattr(self, "top_env", None)
            for src in (getattr(c, "witnesses", None) or {}).get(name, []) if c is not None else []:
                try:
                    cands.append(self.ev(self.ver.parse_spec(src), top))
                except (Unsupported, PyRaise, SpecUndef):
                    continue
            cands.extend(list(getattr(self.path, "fn_witnesses", []))[-3:])
            cands.append(None)
        outs = []
        saved = self.binders.get(name, _MISSING)
        try:
            for cand in cands:
                if cand is None:
                    f = VFunc("builtin", name, impl=lambda I, args, kw: args[0])
                elif isinstance(cand, VFunc):
                    f = cand
                else:
                    f = VFunc("builtin", name, impl=lambda I, args, kw, cand=cand: VInt(cand(to_int(args[0]))))
                self.binders[name] = f
                try:
                    outs.append(self.truth(self.ev(n.args[1], env)))
                except SpecUndef:
                    continue
                except Unsupported:
                    if isinstance(cand, VFunc) and not self.assume_mode:
                        continue   # a witness hint that mentions a local not bound on this path
                    raise
        finally:
            if saved is _MISSING:
                self.binders.pop(name, None)
            else:
                self.binders[name] = saved
        if not outs:
            return VBool(False)
        if len(outs) == 1:
            return VBool(outs[0])
        disj = z3.Or(outs)
        if not self.assume_mode:
            # Path.prove1 tries the candidates one at a time before the whole disjunction
            if not hasattr(self.path, "witness_ors"):
                self.path.witness_ors = {}
            self.path.witness_ors[disj.get_id()] = (disj, outs)
        return VBool(disj)

    def spec_implies(self, n, env):
        pol = self.polarity
        self.polarity = False
        try:
            a = self.truth(self.ev(n.args[0], env))
        finally:
            self.polarity = pol
        b = self.truth(self.ev(n.args[1], env))
        return VBool(z3.Implies(a, b))

    def spec_ite(self, n, env):
        return self.ite(self.truth(self.ev(n.args[0], env)), self.ev(n.args[1], env), self.ev(n.args[2], env))

    def spec_old(self, n, env):
        if self.old_env is None:
            raise Unsupported("old() outside a postcondition")
        return self.ev(n.args[0], self.old_env_for(env))

    def old_env_for(self, env):
        return self.old_env

    def spec_pre_loop(self, n, env):
        if not self.loop_snap:
            raise Unsupported("pre_loop outside loop invariant")
        return self.ev(n.args[0], self.loop_snap[-1])

    def spec_is_none(self, n, env):
        v = self.ev(n.args[0], env)
        return VBool(self.eq(v, VNone()))

    def spec_some(self, n, env):
        """some(x): the payload of an optional (unspecified when none)"""
        v = self.ev(n.args[0], env)
        if isinstance(v, VOpt):
            return v.val()
        if isinstance(v, VNone):
            return VUndef()
        return v

    def spec_present(self, n, env):
        v = self.ev(n.args[0], env)
        if isinstance(v, VOptObj):
            return VBool(v.present)
        return VBool(z3.Not(self.eq(v, VNone())))

    def spec_truthy(self, n, env):
        return VBool(self.truth(self.ev(n.args[0], env)))

    def spec_trig(self, n, env):
        """trig(i): a trigger marker, *defined* as True (axiom assumed on the path).  Writing
        `forall(i, 0 <= i < n and trig(i), exists(p, ..., xs[p] == i))` gives the clause a usable E-matching
        pattern on the bare bound integer: a goal of the same shape is negated to a skolem constant i0 with
        trig(i0), which instantiates every assumed trig-marked clause at i0 (a skolemised `exists` under `forall`
        has no other term mentioning only i)."""
        v = self.ev(n.args[0], env)
        f = z3.Function("trig_mark", z3.IntSort(), z3.BoolSort())
        if not getattr(self.path, "_trig_axiom", False):
            self.path._trig_axiom = True
            x = z3.Int("tm_x")
            self.path.assume(z3.ForAll([x], f(x), patterns=[f(x)]))
        return VBool(f(to_int(v)))

    def spec_to_real(self, n, env):
        return VReal(to_real(self.ev(n.args[0], env)))

    def spec_seq_eq(self, n, env):
        return VBool(self.eq(self.ev(n.args[0], env), self.ev(n.args[1], env)))

    def spec_same_value(self, n, env):
        """same_value(a, b): equality of the two values' encodings (for containers: stronger than ==, which is
        extensional and quantified; true when b is an unmodified copy of a)"""
        a, b = self.ev(n.args[0], env), self.ev(n.args[1], env)
        if isinstance(a, VDictRec) and not a.fields and isinstance(b, VMap):
            a = self.empty_map(b.t)
        if isinstance(b, VDictRec) and not b.fields and isinstance(a, VMap):
            b = self.empty_map(a.t)
        t = self.join_types([typeof(a), typeof(b)])
        return VBool(unwrap(a, t) == unwrap(b, t))

    def spec_same_obj(self, n, env):
        return VBool(z3.BoolVal(self.ev(n.args[0], env) is self.ev(n.args[1], env)))

    def spec_msum(self, n, env):
        """msum(map, 'aggname'): ghost aggregate over a map, maintained at every mutation"""
        m = self.ev(n.args[0], env)
        agg = n.args[1].value
        return VInt(self.ver.agg_term(self, m, agg))

    # ------------------------------------------------------------------ calls
    def call(self, f, args, kwargs, node=None):
        from . import builtins as B
        return B.call(self, f, args, kwargs, node)

    def bind_params(self, fnode, args, kwargs, env, defaults_env):
        a = fnode.args
        params = [p.arg for p in a.posonlyargs + a.args]
        defaults = list(a.defaults)
        dstart = len(params) - len(defaults)
        i = 0
        for i, p in enumerate(params):
            if i < len(args):
                env.set(p, args[i])
            elif p in kwargs:
                env.set(p, kwargs.pop(p))
            elif i >= dstart:
                env.set(p, self.ev(defaults[i - dstart], defaults_env))
            else:
                self.raise_exc("TypeError", "missing argument %s" % p)
        if len(args) > len(params):
            if a.vararg is None:
                self.raise_exc("TypeError", "too many positional arguments")
            env.set(a.vararg.arg, VTuple(args[len(params):]))
        elif a.vararg is not None:
            env.set(a.vararg.arg, VTuple([]))
        for kwo, d in zip(a.kwonlyargs, a.kw_defaults):
            if kwo.arg in kwargs:
                env.set(kwo.arg, kwargs.pop(kwo.arg))
            elif d is not None:
                env.set(kwo.arg, self.ev(d, defaults_env))
            else:
                self.raise_exc("TypeError", "missing kw-only argument")
        if a.kwarg is not None:
            env.set(a.kwarg.arg, VDictRec(dict(kwargs)))
        elif kwargs:
            self.raise_exc("TypeError", "unexpected keyword argument %s" % sorted(kwargs)[0])

    def call_ast(self, f, args, kwargs):
        """inline interpretation of a repository function (its real AST)."""
        if self.depth > self.ver.max_depth:
            raise Unsupported("inline depth exceeded at %s" % f.name)
        node = f.node
        mod = f.module
        env = Env(f.closure, mod) if f.closure is not None else Env(None, mod)
        defaults_env = f.closure if f.closure is not None else Env(None, mod)
        if f.selfv is not None:
            args = [f.selfv] + list(args)
        self.bind_params(node, list(args), dict(kwargs), env, defaults_env)
        if isinstance(node, ast.Lambda):
            saved_b = self.binders
            self.binders = {}
            try:
                return self.ev(node.body, env)
            finally:
                self.binders = saved_b
        if self.spec:
            # bound variables of the caller's quantifiers must not capture the callee's parameter names
            saved_b = self.binders
            self.binders = {}
            try:
                return self.spec_call_body(node, env)
            finally:
                self.binders = saved_b
        self.depth += 1
        try:
            self.exec_block(node.body, env)
        except ReturnSig as r:
            return r.v
        finally:
            self.depth -= 1
        return VNone()

    def spec_call_body(self, node, env):
        """a spec helper: body is a chain of `if c: return e` ending in `return e`."""
        def chain(stmts):
            if not stmts:
                raise Unsupported("spec helper without final return")
            s = stmts[0]
            if isinstance(s, ast.Expr) and isinstance(s.value, ast.Constant):
                return chain(stmts[1:])
            if isinstance(s, ast.Return):
                return self.ev(s.value, env)
            if isinstance(s, ast.Assign) and len(s.targets) == 1 and isinstance(s.targets[0], ast.Name):
                env.set(s.targets[0].id, self.ev(s.value, env))
                return chain(stmts[1:])
            if isinstance(s, ast.Assign) and len(s.targets) == 1 and isinstance(s.targets[0], (ast.Tuple, ast.List)) \
                    and all(isinstance(e, ast.Name) for e in s.targets[0].elts):
                v = self.ev(s.value, env)               # `a, b = pair` with a tuple-valued right-hand side
                if isinstance(v, VTuple) and len(v.items) == len(s.targets[0].elts):
                    for e, x in zip(s.targets[0].elts, v.items):
                        env.set(e.id, x)
                    return chain(stmts[1:])
                raise Unsupported("tuple unpacking of a non-tuple in spec helper")
            if isinstance(s, ast.If):
                c = self.truth(self.ev(s.test, env))
                a = chain(list(s.body) + ([] if self._ends_return(s.body) else stmts[1:]))
                b = chain(list(s.orelse) + stmts[1:]) if s.orelse else chain(stmts[1:])
                return self.ite(c, a, b)
            raise Unsupported("statement %s in spec helper" % type(s).__name__)
        return chain(list(node.body))

    def _ends_return(self, body):
        return bool(body) and isinstance(body[-1], ast.Return)

    def call_method_ast(self, obj, name, args, kwargs):
        ci = self.class_of(obj)
        r = ci.find_method(name)
        if r is None:
            self.raise_exc("AttributeError", name)
        node, owner = r
        f = VFunc("ast", "%s.%s" % (owner.name, name), node=node, module=owner.module, selfv=obj)
        f.qual = "%s:%s.%s" % (owner.module.relpath, owner.name, name)
        return self.call(f, args, kwargs)

    # ------------------------------------------------------------------ statements
    def exec_block(self, stmts, env):
        for s in stmts:
            self.exec_stmt(s, env)

    def exec_stmt(self, s, env):
        m = getattr(self, "ex_" + type(s).__name__, None)
        if m is None:
            raise Unsupported("statement %s at line %s" % (type(s).__name__, getattr(s, "lineno", "?")))
        self.ver.cover(s)
        self.cur_line = getattr(s, "lineno", 0)
        return m(s, env)

    def ex_Expr(self, s, env):
        if isinstance(s.value, ast.Constant):
            return
        self.ev(s.value, env)
        c = self.cur_contract
        if c is not None and getattr(c, "asserts", None) and len(self.fn_stack) == 1 and isinstance(s.value, ast.Call):
            # cut point after an expression statement `x.m(...)`: asserts key "call:x.m"
            key = "call:" + ast.unparse(s.value.func)
            for i, cl in enumerate(c.asserts.get(key, [])):
                if cl.startswith("ghost:"):
                    self.exec_ghost(cl[6:], env)
                    continue
                self.path.prove(self.eval_spec(cl, env), "%s/assert-after:%s#%d" % (c.short, key, i), "assert", where=cl)

    def ex_Pass(self, s, env):
        pass

    def ex_Assign(self, s, env):
        v = self.ev(s.value, env)
        if isinstance(v, VDRec):
            # fresh copy bound to exactly one local: that local owns it (see VDRec.owner); anything else is an alias
            fresh_copy = (isinstance(s.value, ast.Call) and isinstance(s.value.func, ast.Name) and s.value.func.id == "dict"
                          and len(s.targets) == 1 and isinstance(s.targets[0], ast.Name))
            v.owner = (env, s.targets[0].id) if fresh_copy else None
        for t in s.targets:
            self.assign(t, v, env)
        self.ghost_asserts_after(s, env)

    def forget_facts(self, names, env):
        """drop every path fact that mentions the current payload of the given locals (dropping hypotheses is
        always sound; it keeps the quantified context small once a stage's facts have been transferred)"""
        ids = set()
        for nm in names:
            v = env.lookup(nm)
            for e in ([v.arr, v.n] if isinstance(v, VSeq) else [v.dom, v.val, v.card] if isinstance(v, VMap) else []):
                for c in _consts_of(e):
                    ids.add(c)
        if not ids:
            return
        keep = []
        for f in self.path.pc:
            if _consts_of(f) & ids:
                continue
            keep.append(f)
        self.path.pc[:] = keep

    def ghost_asserts_after(self, s, env):
        """sidecar cut points: `asserts={"var": [clauses]}` are proved (named obligations) and then assumed
        right after a statement of the contract's own function that assigns `var`"""
        c = self.cur_contract
        if c is None or not getattr(c, "asserts", None) or len(self.fn_stack) != 1:
            return
        from .modset import _target_names
        names = set()
        for t in getattr(s, "targets", [getattr(s, "target", None)]):
            if t is not None:
                _target_names(t, names)
        cnt = self.__dict__.setdefault("_assign_cnt", {})
        rev = getattr(self.ver, "renames_rev", None) or {}
        names = {rev.get(nm, nm) for nm in names}          # cut points are keyed by the pinned source's local names
        for nm in sorted(names):
            # "var" = after every assignment of var; "var@k" = only after its k-th assignment on this path (1-based)
            cnt[nm] = cnt.get(nm, 0) + 1
            for key in (nm, "%s@%d" % (nm, cnt[nm])):
                for i, cl in enumerate(c.asserts.get(key, [])):
                    if cl.startswith("ghost:"):
                        self.exec_ghost(cl[6:], env)
                        continue
                    if cl.startswith("abstract:"):
                        # abstraction at the cut point (sound: hypotheses are only dropped, and only proved facts are
                        # kept): the named list local gets a fresh value about which exactly the clauses proved above at
                        # this cut point are assumed; the engine's defining axioms of the old value (comprehension /
                        # permutation / order facts mentioning its array symbol) are removed from the path condition
                        tgt = env.lookup(cl[9:].strip())
                        if not isinstance(tgt, VSeq):
                            raise Unsupported("abstract: %s is not a list local" % cl[9:])
                        self.forget_facts_about([tgt.arr])
                        org = tgt.origin
                        self.havoc_inplace(tgt, "abs_" + cl[9:].strip())
                        tgt.origin = org
                        n0 = len(self.path.pc)
                        for prev in c.asserts.get(key, [])[:i]:
                            if not prev.startswith(("ghost:", "abstract:", "forget:", "check:", "forget-axioms:")):
                                self.path.assume(self.eval_spec(prev, env, assume=True))
                        self.__dict__.setdefault("_cut_facts", {})[key] = list(self.path.pc[n0:])
                        continue
                    if cl.startswith("forget-axioms:"):
                        # drop the engine's defining axioms (comprehension / permutation / order facts) of a list local
                        # from the path condition: later obligations no longer see how it was computed
                        tgt = env.lookup(cl[14:].strip())
                        if not isinstance(tgt, VSeq):
                            raise Unsupported("forget-axioms: %s is not a list local" % cl[14:])
                        self.forget_facts_about([tgt.arr])
                        continue
                    if cl.startswith("check:"):
                        # proved here (named obligation) but not kept as a hypothesis
                        self.path.prove(self.eval_spec(cl[6:], env), "%s/assert-after:%s#%d" % (c.short, key, i), "assert",
                                        where=cl[6:], assume_form=z3.BoolVal(True))
                        continue
                    if cl.startswith("forget:"):
                        # drop the facts that an earlier abstraction cut point (by key) had assumed
                        gone = set(f.get_id() for f in self.__dict__.get("_cut_facts", {}).get(cl[7:].strip(), []))
                        self.path.pc = [f for f in self.path.pc if f.get_id() not in gone]
                        continue
                    if cl.startswith("forget-vars:"):
                        self.forget_facts([x.strip() for x in cl[12:].split(",")], env)
                        continue
                    if cl.startswith("define:"):
                        self.define_abbrev(cl[7:], nm, env, "%s/assert-after:%s#%d" % (c.short, key, i))
                        continue
                    self.path.prove(self.eval_spec(cl, env), "%s/assert-after:%s#%d" % (c.short, key, i), "assert", where=cl,
                                    assume_form=self.eval_spec(cl, env, assume=True))

    def forget_facts_about(self, exprs):
        """remove from the path condition every quantified fact that mentions an uninterpreted array constant
        occurring in one of `exprs` (weakening the hypotheses is always sound)"""
        syms = set()
        seen = set()
        stack = list(exprs)
        while stack:
            x = stack.pop()
            if x.get_id() in seen:
                continue
            seen.add(x.get_id())
            if z3.is_quantifier(x):
                stack.append(x.body())
            elif z3.is_app(x):
                if x.num_args() == 0 and x.decl().kind() == z3.Z3_OP_UNINTERPRETED and z3.is_array(x):
                    syms.add(x.decl().name())
                stack.extend(x.children())
        if not syms:
            return

        def mentions(f):
            sn = set()
            st = [f]
            while st:
                y = st.pop()
                if y.get_id() in sn:
                    continue
                sn.add(y.get_id())
                if z3.is_quantifier(y):
                    st.append(y.body())
                elif z3.is_app(y):
                    if y.num_args() == 0 and y.decl().kind() == z3.Z3_OP_UNINTERPRETED and y.decl().name() in syms:
                        return True
                    st.extend(y.children())
            return False
        from .core import _has_quant
        self.path.pc = [f for f in self.path.pc if not (_has_quant(f) and mentions(f))]

    def define_abbrev(self, src, var, env, oname):
        """cut-point clause `define:<uf term> := <defining expr>` after an assignment to local `var`:
        the uninterpreted-function term is a *name* for the defining expression (the uf is defined by it; facts
        about the uf must be justified against this definition by an R.lemma).  Obligation: the value just assigned
        to `var` IS the defining expression -- checked as a validity with an empty path condition, so the definition
        itself never enters the path condition -- and from here on `var` holds the uf term."""
        term_src, def_src = src.split(":=", 1)
        cur = env.lookup(var)
        t = self.eval_spec_value(term_src.strip(), env)
        d = self.eval_spec_value(def_src.strip(), env)
        s = z3.Solver()
        s.set("timeout", self.ver.timeout_ms)
        s.add(z3.Not(self.eq(cur, d)))
        r = s.check()
        self.ver.obligation_sites.add(oname)
        self.ver.note_assumption("`%s` abbreviates `%s` (definition of the uninterpreted function)" % (term_src.strip(), def_src.strip()))
        if r == z3.unsat:
            self.ver.record(Obligation(oname, "assert", "proved", path=list(self.path.taken), where="define:" + src))
            env.find_env(var).vars[var] = t
        else:
            self.ver.record(Obligation(oname, "assert", "failed" if r == z3.sat else "unknown",
                                       detail="value of %s is not the defining expression" % var,
                                       path=list(self.path.taken), where="define:" + src))

    def ex_AnnAssign(self, s, env):
        if s.value is None:
            return
        v = self.ev(s.value, env)
        self.assign(s.target, v, env)
        self.ghost_asserts_after(s, env)

    def ex_AugAssign(self, s, env):
        if isinstance(s.target, ast.Name):
            cur = self.lookup(s.target.id, env)
            v = self.binop(s.op, cur, self.ev(s.value, env))
            self.assign(s.target, v, env)
        elif isinstance(s.target, ast.Attribute):
            o = self.ev(s.target.value, env)
            cur = self.getattr(o, s.target.attr)
            v = self.binop(s.op, cur, self.ev(s.value, env))
            self.setattr(o, s.target.attr, v)
        elif isinstance(s.target, ast.Subscript):
            from . import builtins as B
            o = self.ev(s.target.value, env)
            k = self.ev(s.target.slice, env)
            cur = B.subscript(self, o, k)
            v = self.binop(s.op, cur, self.ev(s.value, env))
            B.store_subscript(self, o, k, v)
        else:
            raise Unsupported("augassign target")

    def coerce_local(self, name, v):
        lt = self.ver.local_type(self, name)
        if lt is None:
            return v
        if isinstance(v, VEmptyList) and isinstance(lt, TList):
            return VSeq(z3.K(z3.IntSort(), self.default_of(lt.elem)), z3.IntVal(0), lt.elem, lt.kind)
        if isinstance(v, VDictRec) and not v.fields and isinstance(lt, TMap):
            m = self.empty_map(lt)
            dflt = getattr(v, "default_value", None)
            if dflt is not None:
                m.default_e = unwrap(dflt, lt.v)     # collections.defaultdict(float|int): missing keys read as 0
            return m
        if lt.name in ("JObj", "JList"):
            return self.coerce_value(v, lt)
        if isinstance(v, VEmptySet) and isinstance(lt, TSet):
            return self.empty_set(lt)
        if isinstance(lt, (TOpt,)) or lt is TReal or lt is TDyn:
            try:
                return lt.wrap(unwrap(v, lt))
            except TypeError:
                return v
        return v

    def empty_map(self, t):
        m = VMap(z3.K(t.k.sort(), z3.BoolVal(False)), z3.K(t.k.sort(), self.default_of(t.v)), z3.IntVal(0), t.k, t.v)
        if t.ordered:
            m.order = VSeq(z3.K(z3.IntSort(), self.default_of(t.k)), z3.IntVal(0), t.k, "list")
            m.pos = z3.Function(self.path.fresh_name("pos"), t.k.sort(), z3.IntSort())
        return m

    def empty_set(self, t):
        return VSet(z3.K(t.k.sort(), z3.BoolVal(False)), z3.IntVal(0), t.k)

    def assign(self, t, v, env):
        from . import builtins as B
        if isinstance(t, ast.Name):
            v = self.coerce_local(t.id, v)
            if t.id in env.globals_decl:
                e = env
                while e.parent is not None:
                    e = e.parent
                e.set(t.id, v)
            else:
                tgt = env
                if getattr(env, "nonlocals", None) and t.id in env.nonlocals:
                    tgt = env.parent.find_env(t.id) or env
                tgt.set(t.id, v)
        elif isinstance(t, (ast.Tuple, ast.List)):
            v = self.force(v)
            if isinstance(v, VTuple):
                if len(v.items) != len(t.elts):
                    self.raise_exc("ValueError", "unpack arity")
                for tt, x in zip(t.elts, v.items):
                    self.assign(tt, x, env)
            elif isinstance(v, VSeq):
                self.require_defined(v.n == len(t.elts), "ValueError", "unpack arity")
                for i, tt in enumerate(t.elts):
                    self.assign(tt, v.get(z3.IntVal(i)), env)
            else:
                self.raise_exc("TypeError", "cannot unpack")
        elif isinstance(t, ast.Attribute):
            o = self.ev(t.value, env)
            self.setattr(o, t.attr, v)
        elif isinstance(t, ast.Subscript):
            o = self.ev(t.value, env)
            if isinstance(t.slice, ast.Slice):
                raise Unsupported("slice assignment")
            k = self.ev(t.slice, env)
            if isinstance(o, VDRec):
                c = const_of(k) if isinstance(k, VStr) else _NOCONST
                own = o.owner
                if (own is None or not isinstance(t.value, ast.Name) or own[0] is not env or own[1] != t.value.id
                        or not isinstance(c, str) or c not in o.t.fields):
                    raise Unsupported("item store into a dict-shaped record that is not a fresh local copy (x = dict(rec))")
                vals = {fn: (unwrap(v, ft) if fn == c else o.t.val(fn, o.e)) for fn, ft in o.t.fields.items()}
                pres = {fn: (z3.BoolVal(True) if fn == c else o.t.has(fn, o.e)) for fn in o.t.optional}
                nv = VDRec(o.t.mk(vals, pres), o.t)
                nv.owner = own
                env.set(own[1], nv)
                return
            B.store_subscript(self, o, k, v)
        else:
            raise Unsupported("assign target %s" % type(t).__name__)

    def setattr(self, o, name, v):
        o = self.force(o)
        if isinstance(o, VObj):
            ft = o.tobj.fields.get(name) if o.tobj is not None else None
            if ft is not None:
                if isinstance(ft, str):
                    ft = self.ver.types.parse(ft)
                v = self.coerce_to(v, ft)
            o.fields[name] = v
            return
        if isinstance(o, VRec):
            self.raise_exc("FrozenInstanceError", "cannot assign to field")
        self.raise_exc("AttributeError", "cannot set attribute %s" % name)

    def coerce_value(self, v, t):
        """shape a returned value after the declared return type (typed empties, optionals)"""
        if isinstance(t, TTuple) and isinstance(v, VTuple) and len(v.items) == len(t.elems):
            return VTuple([self.coerce_value(x, et) for x, et in zip(v.items, t.elems)])
        if t is TDyn and not isinstance(v, VDyn):
            try:
                return VDyn(D.to_dyn(v))
            except TypeError:
                return v
        if isinstance(v, VEmptyList) and isinstance(t, TList):
            return VSeq(z3.K(z3.IntSort(), self.default_of(t.elem)), z3.IntVal(0), t.elem, t.kind)
        if isinstance(v, VEmptySet) and isinstance(t, TSet):
            return self.empty_set(t)
        if isinstance(v, VDictRec) and not v.fields and isinstance(t, TMap):
            return self.empty_map(t)
        if isinstance(v, VDictRec) and not v.fields and t.name == "JObj":
            from . import jsontree
            return jsontree.VJDict()
        if isinstance(v, VEmptyList) and t.name == "JList":
            from . import jsontree
            return jsontree.VJList()
        if isinstance(t, TOpt) and not isinstance(v, VOpt):
            try:
                return t.wrap(unwrap(v, t))
            except TypeError:
                return v
        if t is TReal and isinstance(v, (VInt, VBool)):
            return VReal(to_real(v))
        return v

    def coerce_to(self, v, ft):
        if isinstance(ft, (TObj, TFun, TOptObj, TDictRec)):
            return v
        if isinstance(v, VEmptyList) and isinstance(ft, TList):
            return VSeq(z3.K(z3.IntSort(), self.default_of(ft.elem)), z3.IntVal(0), ft.elem, ft.kind)
        if isinstance(v, VDictRec) and not v.fields and isinstance(ft, TMap):
            return self.empty_map(ft)
        if isinstance(v, (VSeq, VMap, VSet)):
            return v
        try:
            return ft.wrap(unwrap(v, ft))
        except TypeError:
            return v

    def ex_Delete(self, s, env):
        from . import builtins as B
        for t in s.targets:
            if isinstance(t, ast.Subscript):
                o = self.ev(t.value, env)
                k = self.ev(t.slice, env)
                B.del_subscript(self, o, k)
            elif isinstance(t, ast.Name):
                e = env.find_env(t.id)
                if e is None:
                    self.raise_exc("NameError", t.id)
                del e.vars[t.id]
            else:
                raise Unsupported("del target")

    def ex_Return(self, s, env):
        v = self.ev(s.value, env) if s.value is not None else VNone()
        raise ReturnSig(v)

    def ex_Break(self, s, env):
        raise BreakSig()

    def ex_Continue(self, s, env):
        # cut point at a `continue` of the verified function: key "skip:while" / "skip:for" (kind of the innermost
        # enclosing loop).  Its clauses say under which documented conditions an iteration may be skipped.
        c = self.cur_contract
        if c is not None and getattr(c, "asserts", None) and len(self.fn_stack) == 1 and any(k.startswith("skip:") for k in c.asserts):
            self.run_cut("skip:" + self._enclosing_loop_kind(s), env)
        raise ContinueSig()

    def _enclosing_loop_kind(self, s):
        pm = self.__dict__.get("_skip_parents")
        node = getattr(self.fn_stack[0], "node", None)
        if pm is None or pm[0] is not node:
            par = {}
            if node is not None:
                for n in ast.walk(node):
                    for ch in ast.iter_child_nodes(n):
                        par[id(ch)] = n
            pm = (node, par)
            self.__dict__["_skip_parents"] = pm
        n = s
        while n is not None:
            n = pm[1].get(id(n))
            if isinstance(n, ast.While):
                return "while"
            if isinstance(n, ast.For):
                return "for"
        return "?"

    def ex_Global(self, s, env):
        env.globals_decl.update(s.names)

    def ex_Nonlocal(self, s, env):
        if not hasattr(env, "nonlocals") or env.nonlocals is None:
            env.nonlocals = set()
        env.nonlocals.update(s.names)

    def ex_Import(self, s, env):
        for a in s.names:
            env.set(a.asname or a.name.split(".")[0], self.ver.external_module(a.name.split(".")[0] if not a.asname else a.name))

    def ex_ImportFrom(self, s, env):
        for a in s.names:
            v = self.ver.import_from(env.module, s.module or "", a.name, s.level, self)
            env.set(a.asname or a.name, v)

    def ex_FunctionDef(self, s, env):
        f = VFunc("ast", s.name, node=s, module=env.module, closure=env)
        outer = self.fn_stack[-1] if getattr(self, "fn_stack", None) else None
        oq = getattr(outer, "qual", None)
        if oq is not None and "#" not in oq:
            # nested function: addressable by contracts as 'path.py:outer.<locals>.inner'
            f.qual = "%s.<locals>.%s" % (oq, s.name)
        env.set(s.name, f)

    def ex_Assert(self, s, env):
        c = self.ev(s.test, env)
        if not self.test(c):
            self.raise_exc("AssertionError", "")

    # ---- if-conversion of trivially simple conditionals (no fork) ---------------------------
    def _simple_expr(self, e):
        if isinstance(e, ast.Constant):
            return isinstance(e.value, (int, float, str, bool)) or e.value is None
        if isinstance(e, ast.Name):
            return True
        if isinstance(e, ast.UnaryOp) and isinstance(e.op, (ast.USub, ast.UAdd)):
            return self._simple_expr(e.operand)
        if isinstance(e, ast.BinOp) and isinstance(e.op, (ast.Add, ast.Sub, ast.Mult)):
            return self._simple_expr(e.left) and self._simple_expr(e.right)
        return False

    def _simple_assign(self, body):
        if len(body) == 1 and isinstance(body[0], ast.Assign) and len(body[0].targets) == 1 \
                and isinstance(body[0].targets[0], ast.Name) and self._simple_expr(body[0].value):
            return body[0].targets[0].id, body[0].value
        return None

    # -- if / elif / ... / else chains that only assign one local (no fork): `intent = ...` style policy tables
    def _chain_test_ok(self, e):
        if isinstance(e, ast.Name):
            return True
        if isinstance(e, ast.UnaryOp) and isinstance(e.op, ast.Not):
            return self._chain_test_ok(e.operand)
        if isinstance(e, ast.Compare) and len(e.ops) == 1 and \
                isinstance(e.ops[0], (ast.Lt, ast.LtE, ast.Gt, ast.GtE, ast.Eq, ast.NotEq)):
            return self._simple_expr(e.left) and self._simple_expr(e.comparators[0])
        return False

    def _chain_value_ok(self, e):
        if isinstance(e, ast.IfExp):
            return self._chain_test_ok(e.test) and self._chain_value_ok(e.body) and self._chain_value_ok(e.orelse)
        return self._simple_expr(e)

    def _if_chain(self, s, name=None):
        """-> (name, [(test|None, value expr)...]) for `if t1: x = e1 elif t2: x = e2 ... else: x = en`, else None"""
        if len(s.body) != 1 or not isinstance(s.body[0], ast.Assign) or len(s.body[0].targets) != 1 or \
                not isinstance(s.body[0].targets[0], ast.Name) or not self._chain_value_ok(s.body[0].value):
            return None
        if not self._chain_test_ok(s.test):
            return None
        nm = s.body[0].targets[0].id
        if name is not None and nm != name:
            return None
        if len(s.orelse) == 1 and isinstance(s.orelse[0], ast.If):
            rest = self._if_chain(s.orelse[0], nm)
            if rest is None:
                return None
            return nm, [(s.test, s.body[0].value)] + rest[1]
        if len(s.orelse) == 1 and isinstance(s.orelse[0], ast.Assign) and len(s.orelse[0].targets) == 1 and \
                isinstance(s.orelse[0].targets[0], ast.Name) and s.orelse[0].targets[0].id == nm and \
                self._chain_value_ok(s.orelse[0].value):
            return nm, [(s.test, s.body[0].value), (None, s.orelse[0].value)]
        return None

    def _chain_cond(self, e, env):
        """truth of a chain test as a z3 Bool without forking; Unsupported when an operand would need forcing"""
        if isinstance(e, ast.UnaryOp):
            return z3.Not(self._chain_cond(e.operand, env))
        if isinstance(e, ast.Name):
            v = self.ev(e, env)
            if isinstance(v, (VOptObj, VObj, VUndef)):
                raise Unsupported("chain test")
            return self.truth(v)
        a, b = self.ev(e.left, env), self.ev(e.comparators[0], env)
        scal = (VInt, VReal, VBool, VStr)
        if not (isinstance(a, scal) and isinstance(b, scal)):
            raise Unsupported("chain test operands")
        if isinstance(e.ops[0], (ast.Lt, ast.LtE, ast.Gt, ast.GtE)) and (isinstance(a, VStr) != isinstance(b, VStr)):
            raise Unsupported("chain test operands")
        return self.compare(e.ops[0], a, b)

    def _chain_value(self, e, env):
        if isinstance(e, ast.IfExp):
            return self.ite(self._chain_cond(e.test, env), self._chain_value(e.body, env), self._chain_value(e.orelse, env))
        v = self.ev(e, env)
        if not isinstance(v, (VInt, VReal, VBool, VStr)):
            raise Unsupported("chain value")
        return v

    def try_chain_conversion(self, s, env):
        ch = self._if_chain(s)
        if ch is None or (len(ch[1]) <= 2 and not any(isinstance(v, ast.IfExp) for _, v in ch[1])):
            return False
        name, arms = ch
        try:
            cur = self._chain_value(arms[-1][1], env)
            for t, v in reversed(arms[:-1]):
                cur = self.ite(self._chain_cond(t, env), self._chain_value(v, env), cur)
        except (Unsupported, TypeError, PyRaise):
            return False        # nothing was executed: Names / constants / comparisons of scalars are pure
        self.assign(ast.Name(id=name, ctx=ast.Store()), cur, env)

        def cover(st):
            for x in st.body + st.orelse:
                self.ver.cover(x)
                if isinstance(x, ast.If):
                    cover(x)
        cover(s)
        return True

    def try_if_conversion(self, s, env):
        cv = None
        if s.orelse and self.try_chain_conversion(s, env):
            return True
        # pattern A: if c: x = e   [else: x = e2]
        a = self._simple_assign(s.body)
        b = self._simple_assign(s.orelse) if s.orelse else None
        if a is not None and (not s.orelse or (b is not None and b[0] == a[0])):
            name = a[0]
            cur = env.lookup(name)
            if cur is None and b is None:
                return False
            try:
                cv = self.ev(s.test, env)
                if isinstance(cv, (VOpt, VOptObj)) or not isinstance(cv, (VBool, VInt, VReal, VStr, VSeq, VMap, VSet)):
                    raise Unsupported("cond")
                tv = self.ev(a[1], env)
                fv = self.ev(b[1], env) if b is not None else cur
                scal = (VInt, VReal, VBool, VStr)
                if not (isinstance(tv, scal) and isinstance(fv, scal)):
                    raise Unsupported("non scalar")
                self._ifc_cond = self.truth(cv)
                merged = self.ite(self._ifc_cond, tv, fv)
            except (Unsupported, TypeError, PyRaise):
                if cv is None:
                    return False
                # the test was evaluated already (it may have forked): finish the statement normally
                if self.test(cv):
                    self.exec_block(s.body, env)
                else:
                    self.exec_block(s.orelse, env)
                return True
            self.assign(ast.Name(id=name, ctx=ast.Store()), merged, env)
            return True
        # pattern B: if c: lst.append(<constant>)
        if not s.orelse and len(s.body) == 1 and isinstance(s.body[0], ast.Expr) and isinstance(s.body[0].value, ast.Call):
            call = s.body[0].value
            f = call.func
            if isinstance(f, ast.Attribute) and f.attr == "append" and isinstance(f.value, ast.Name) and len(call.args) == 1 \
                    and isinstance(call.args[0], ast.Constant) and not call.keywords:
                lst = env.lookup(f.value.id)
                if isinstance(lst, VSeq) and lst.origin is None:
                    cv = self.ev(s.test, env)
                    if isinstance(cv, (VOpt, VOptObj)):
                        if self.test(cv):
                            self.exec_block(s.body, env)
                        return True
                    c = self.truth(cv)
                    self._ifc_cond = c
                    x = unwrap(mk_const(call.args[0].value), lst.et)
                    lst.arr = z3.If(c, z3.Store(lst.arr, lst.n, x), lst.arr)
                    lst.n = z3.simplify(lst.n + z3.If(c, 1, 0))
                    return True
        return False

    def ex_If(self, s, env):
        self._ifc_cond = None
        if not self.ver.no_if_conversion and self.try_if_conversion(s, env):
            # vacuity guard: an if-converted arm counts as reached only when its condition is satisfiable here
            # (otherwise dead code -- e.g. `if not math.isfinite(x)` on a real-valued float -- would pass unnoticed)
            c = self._ifc_cond
            t_ok = f_ok = True
            if c is not None and not isinstance(c, bool):
                cs = z3.simplify(c)
                if z3.is_false(cs):
                    t_ok = False
                elif z3.is_true(cs):
                    f_ok = False
                else:
                    t_ok = self.path.feasible(c)
                    f_ok = self.path.feasible(z3.Not(c))
            for st in (list(s.body) if t_ok else []) + (list(s.orelse) if f_ok else []):
                self.ver.cover(st)
            return
        c = self.ev(s.test, env)
        if self.test(c):
            self.exec_block(s.body, env)
        else:
            self.exec_block(s.orelse, env)

    def ex_Raise(self, s, env):
        if s.exc is None:
            cur = getattr(self, "cur_exc", None)
            if cur is None:
                self.raise_exc("RuntimeError", "no active exception")
            raise PyRaise(cur)
        v = self.ev(s.exc, env)
        if isinstance(v, VOptObj):
            v = self.force(v)       # optional exception value (fsmodel.TOptExc); None -> TypeError below
        if isinstance(v, VClass):
            v = self.call(v, [], {})
        if isinstance(v, VExc):
            raise PyRaise(v)
        if isinstance(v, VNone):
            self.raise_exc("TypeError", "exceptions must derive from BaseException")
        if isinstance(v, VObj) and self.ver.is_exc_class(v):
            raise PyRaise(VExc(self.class_of(v).name, [v]))
        raise Unsupported("raise of non-exception value")

    def exc_matches(self, exc, handler_type, env):
        """does `except handler_type` catch exc ?  (may fork for unknown subclasses)"""
        if handler_type is None:
            return True
        tv = self.ev(handler_type, env)
        names = []
        if isinstance(tv, VTuple):
            names = [x.name for x in tv.items]
        elif isinstance(tv, VClass):
            names = [tv.name]
        else:
            raise Unsupported("except clause type")
        for nm in names:
            if exc_is_sub(exc.cls, nm):
                return True
        if exc.any_subclass:
            # the raised class is an unknown subclass of exc.cls: a narrower handler may or may not match
            for nm in names:
                if exc_is_sub(nm, exc.cls):
                    b = self.path.fresh("exc_is_" + nm, z3.BoolSort())
                    if self.path.branch(b):
                        return True
        return False

    def ex_Try(self, s, env):
        try:
            try:
                self.exec_block(s.body, env)
            except PyRaise as pr:
                exc = pr.exc
                handled = False
                for h in s.handlers:
                    if self.exc_matches(exc, h.type, env):
                        handled = True
                        if h.name:
                            env.set(h.name, exc)
                        saved = getattr(self, "cur_exc", None)
                        self.cur_exc = exc
                        try:
                            self.exec_block(h.body, env)
                        finally:
                            self.cur_exc = saved
                        break
                if not handled:
                    raise
            else:
                self.exec_block(s.orelse, env)
        except (PyRaise, ReturnSig, BreakSig, ContinueSig) as sig:
            if s.finalbody:
                # while a `finally` block runs because of an exception, that exception is the one "being handled":
                # a bare `raise` inside it re-raises *it* (not the exception of an enclosing handler)
                saved = getattr(self, "cur_exc", None)
                if isinstance(sig, PyRaise):
                    self.cur_exc = sig.exc
                try:
                    self.exec_block(s.finalbody, env)
                finally:
                    self.cur_exc = saved
            raise
        else:
            if s.finalbody:
                self.exec_block(s.finalbody, env)

    def ex_With(self, s, env):
        from . import builtins as B
        return B.exec_with(self, s, env)

    # ------------------------------------------------------------------ loops
    def loop_spec(self, s):
        return self.ver.loop_spec(self.cur_contract, s) if self.depth == 0 or True else None

    def ex_While(self, s, env):
        spec = self.ver.loop_spec_for(self, s)
        if spec is None:
            return self.unroll_while(s, env)
        name = spec["name"]
        snap = self.snapshot_env(env)
        self.loop_snap.append(snap)
        try:
            self.check_invariants(spec, env, name + "/inv-entry")
            self.havoc_loop_targets(s, env, spec)
            self.assume_invariants(spec, env)
            c = self.ev(s.test, env)
            if self.test(c):
                try:
                    self.exec_block(s.body, env)
                except ContinueSig:
                    pass
                except BreakSig:
                    return
                self.check_invariants(spec, env, name + "/inv-preserved")
                if spec.get("decreases"):
                    pass
                raise PathEnd("loop body end")
            else:
                self.exec_block(s.orelse, env)
        finally:
            self.loop_snap.pop()

    def unroll_while(self, s, env):
        K = self.ver.unroll_bound
        self.ver.note_bounded(s, K)
        for _ in range(K):
            c = self.ev(s.test, env)
            if not self.test(c):
                self.exec_block(s.orelse, env)
                return
            try:
                self.exec_block(s.body, env)
            except ContinueSig:
                continue
            except BreakSig:
                return
        c = self.ev(s.test, env)
        if self.test(c):
            self.ver.bound_reached(s)
            raise PathEnd("unroll bound")
        self.exec_block(s.orelse, env)

    def check_invariants(self, spec, env, oname):
        for idx, inv in enumerate(spec.get("inv", [])):
            phi = self.eval_spec(inv, env)
            self.path.prove(phi, "%s#%d" % (oname, idx), "invariant", where=inv,
                            assume_form=self.eval_spec(inv, env, assume=True))

    def assume_invariants(self, spec, env):
        for inv in spec.get("inv", []):
            self.path.assume(self.eval_spec(inv, env, assume=True))

    def eval_spec(self, src, env, extra=None, assume=False):
        """evaluate a spec expression (source string) to a z3 Bool in the given env.
        assume=True: the formula will be *assumed*; positive `exists` under `forall` are skolemised explicitly
        so that the resulting axioms carry usable triggers."""
        node = self.ver.parse_spec(src)
        saved = self.spec
        saved_mode = (self.assume_mode, self.polarity, self.q_ctx)
        self.assume_mode, self.polarity, self.q_ctx = assume, True, []
        try:
            return self._eval_spec(node, env, extra)
        finally:
            self.assume_mode, self.polarity, self.q_ctx = saved_mode

    def _eval_spec(self, node, env, extra=None):
        saved = self.spec
        self.spec = True
        e2 = env
        if extra:
            e2 = Env(env, env.module)
            e2.vars.update(extra)
        try:
            v = self.ev(node, e2)
        finally:
            self.spec = saved
        return self.truth(v)

    def eval_spec_value(self, src, env, extra=None):
        node = self.ver.parse_spec(src)
        saved = self.spec
        self.spec = True
        e2 = env
        if extra:
            e2 = Env(env, env.module)
            e2.vars.update(extra)
        try:
            return self.ev(node, e2)
        finally:
            self.spec = saved

    def havoc_loop_targets(self, s, env, spec):
        from .modset import loop_modset, body_mods
        names, paths = loop_modset(self, s, env)
        # ghost state written by the `effects` of callee / parameter contracts is not visible in the loop's AST:
        # havoc every ghost variable that some registered effect statement may write
        genv = getattr(self, "ghost_env", None)
        if genv is not None and genv.vars and any(isinstance(n, ast.Call) for b in s.body for n in ast.walk(b)):
            for gname in sorted(self.ver.ghost_written_names()):
                gv = genv.vars.get(gname)
                if gv is None:
                    continue
                if isinstance(gv, (VSeq, VMap, VSet, VObj, VDictRec)):
                    self.havoc_inplace(gv, "lg_" + gname)
                else:
                    genv.vars[gname] = self.havoc_like(gv, "lg_" + gname)
        for extra in spec.get("modifies", []):
            paths.append(extra)
        ge = getattr(self, "ghost_env", None)
        if ge is not None and "fs" in ge.vars:
            # abstract file system (pyvc/fsmodel.py): I/O primitives mutate the ghost state behind the back of the
            # syntactic modifies analysis, so every cut loop havocs it (the invariants say what is preserved)
            from . import fsmodel
            for g in fsmodel.GHOST_NAMES:
                if g in ge.vars and g not in paths:
                    paths.append(g)
        for nm in sorted(names):
            cur = env.lookup(nm)
            lt = self.ver.local_type(self, nm)
            if cur is None:
                continue
            if isinstance(cur, (VSeq, VMap, VSet, VObj, VDictRec)):
                # rebinding a name to a container inside the loop: give it a fresh object
                nv = self.fresh_value(lt if lt is not None else cur.t, "lv_" + nm) if not isinstance(cur, (VObj, VDictRec)) else cur
                if isinstance(cur, (VObj, VDictRec)):
                    self.havoc_inplace(cur, "lv_" + nm)
                env.find_env(nm).vars[nm] = nv
                continue
            if isinstance(cur, (VFunc, VClass, VModule, VOpaque)):
                continue
            if lt is not None:
                env.find_env(nm).vars[nm] = self.fresh_value(lt, "lv_" + nm)
            elif isinstance(cur, VEmptyList):
                raise Unsupported("loop assigns list '%s' of unknown element type; declare it in locals" % nm)
            else:
                env.find_env(nm).vars[nm] = self.fresh_value(typeof(cur), "lv_" + nm)
        from .modset import _root
        for p in paths:
            try:
                node = self.ver.parse_spec(p) if isinstance(p, str) else p
                from .modset import _root
                rn = _root(node)
                if rn is not None and rn in names and env.lookup(rn) is None:
                    continue    # a container local first bound inside the loop body: nothing to havoc yet
                saved = self.spec
                self.spec = True
                try:
                    if isinstance(node, ast.Attribute):
                        base = self.ev(node.value, env)
                        if isinstance(base, VObj):
                            cur = base.fields.get(node.attr)
                            if isinstance(cur, (VSeq, VMap, VSet, VObj, VDictRec)):
                                self.havoc_inplace(cur, "lm_" + node.attr)
                            elif cur is not None:
                                base.fields[node.attr] = self.havoc_like(cur, "lm_" + node.attr)
                            continue
                    try:
                        v = self.ev(node, env)
                    except Unsupported:
                        # the mutated path mentions a name that is only bound inside the body (e.g.
                        # `d.setdefault(k, []).append(x)` with k assigned in the loop): havoc the whole root container
                        r2 = node
                        while isinstance(r2, (ast.Attribute, ast.Subscript, ast.Call)):
                            r2 = r2.func if isinstance(r2, ast.Call) else r2.value
                        v = env.lookup(r2.id) if isinstance(r2, ast.Name) else None
                        if v is None:
                            raise
                finally:
                    self.spec = saved
                if isinstance(v, (VSeq, VMap, VSet, VObj, VDictRec)):
                    self.havoc_inplace(v, "lm")
            except Unsupported:
                if getattr(node, "_alias_src", False):
                    continue   # a name of the binding expression that is not a variable here (builtin, comprehension var)
                raise
        self.havoc_ghost_targets(s, env)

    def havoc_ghost_targets(self, s, env):
        """ghost variables written by the `ghost:` statements of the verified contract's cut points
        (`asserts={"x": [...], "call:x.m": [...]}`) are havoc'd at the cut of every loop whose body contains such a
        cut point syntactically (ghost variables written by registered `effects` are handled in havoc_loop_targets)."""
        genv = getattr(self, "ghost_env", None)
        cc = self.cur_contract
        if genv is None or not genv.vars or cc is None or len(self.fn_stack) != 1:
            return
        writes = self.ver.ghost_cut_writes(cc)
        if not writes:
            return
        from .modset import _target_names
        cuts = set()
        for st in list(s.body) + list(s.orelse):
            for x in ast.walk(st):
                if isinstance(x, (ast.Assign, ast.AnnAssign)):
                    for t in getattr(x, "targets", [getattr(x, "target", None)]):
                        if t is not None:
                            _target_names(t, cuts)
                elif isinstance(x, ast.Expr) and isinstance(x.value, ast.Call):
                    cuts.add("call:" + ast.unparse(x.value.func))
                elif isinstance(x, ast.Yield):
                    cuts.add("yield:" + (ast.unparse(x.value) if x.value is not None else ""))
        names = set()
        for key, ns in writes.items():
            if key in cuts:
                names |= ns
        for nm in sorted(names):
            cur = genv.vars.get(nm)
            if cur is None:
                continue
            if isinstance(cur, (VSeq, VMap, VSet, VObj, VDictRec)):
                self.havoc_inplace(cur, "gh_" + nm)
            elif isinstance(cur, (VFunc, VClass, VModule, VOpaque)):
                continue
            else:
                genv.vars[nm] = self.fresh_value(typeof(cur), "gh_" + nm)

    def ex_For(self, s, env):
        from . import builtins as B
        return B.exec_for(self, s, env)


_MISSING = object()


def _consts_of(e):
    out = set()
    seen = set()
    st = [e]
    while st:
        x = st.pop()
        if x.get_id() in seen:
            continue
        seen.add(x.get_id())
        if z3.is_quantifier(x):
            st.append(x.body())
        elif z3.is_app(x):
            if x.num_args() == 0 and x.decl().kind() == z3.Z3_OP_UNINTERPRETED:
                out.add(x.decl().name())
            st.extend(x.children())
    return out
def _is_j(v):
    """python-side JSON model values (pyvc/jsontree.py)"""
    return type(v).__name__ in ("VJDict", "VJSet", "VJList", "VWStr")


class SpecUndef(Exception):
    pass


class VEmptyList(V):
    """[] whose element type is not known yet"""
    t = None

    def __init__(self, kind="list"):
        self.kind = kind


class VEmptySet(V):
    t = None


class TOptObj(T):
    def __init__(self, inner):
        self.inner = inner
        self.name = "OptObj[%s]" % inner.name


class TDictRec(T):
    def __init__(self, fields):
        self.fields = dict(fields)
        self.name = "DictRec[%s]" % ",".join(self.fields)
