"""Trusted model of dynamically typed JSON-ish values (`Any` payloads of log records) -- type name `Json`.

A `Json` value is an element of the uninterpreted sort JV.  Python values enter it through *injections*
(jv_of_bool/int/real/str/dict, jv_none); the code can observe it only through a few *observers*
(truthiness, isinstance(v, dict) + the dict content, int(v)).  z3 equality on JV is *representation identity*
(same python type and same content, so `0` and `0.0` are different Json values and have different dumps).

Assumed contract (added to the path as ground instances whenever an injected term is built; listed as an assumption):
    bool(jv(b)) == b, bool(jv(i)) == (i != 0), bool(jv(r)) == (r != 0), bool(jv(None)) == False
    isinstance(jv(m), dict) and dict-content(jv(m)) == m for a dict m;  scalars / None are not dicts
    int(jv(i)) == i, int(jv(b)) == (1 if b else 0)   (both never raise)
Everything else about a Json value (its str(), whether int(v) raises for other values, ...) is uninterpreted but
deterministic.
"""
from __future__ import annotations
import z3

from .values import *  # noqa
from .core import *  # noqa


class _TJson(TUn):
    def __init__(self):
        TUn.__init__(self, "JV")
        self.name = "Json"

    def wrap(self, e):
        return VJson(e, self)

    def coerce_in(self, v):
        """python value -> JV expression (None when v cannot be a Json value).  The assumed facts about the
        injected term (see module docstring) are added to the current path as *ground instances*."""
        if isinstance(v, VJson):
            return v.e
        f = F
        if isinstance(v, VBool):
            t = f.of_bool(v.e)
            return _inst(t, lambda: z3.And(f.truthy(t) == v.e, z3.Not(f.is_dict(t)), f.int_ok(t),
                                           f.int_val(t) == z3.If(v.e, 1, 0)))
        if isinstance(v, VInt):
            t = f.of_int(v.e)
            return _inst(t, lambda: z3.And(f.truthy(t) == (v.e != 0), z3.Not(f.is_dict(t)), f.int_ok(t),
                                           f.int_val(t) == v.e))
        if isinstance(v, VReal):
            t = f.of_real(v.e)
            return _inst(t, lambda: z3.And(f.truthy(t) == (v.e != 0), z3.Not(f.is_dict(t))))
        if isinstance(v, VStr):
            t = f.of_str(v.e)
            return _inst(t, lambda: z3.And(f.truthy(t) == (z3.Length(v.e) > 0), z3.Not(f.is_dict(t))))
        if isinstance(v, VNone):
            t = f.none
            return _inst(t, lambda: z3.And(z3.Not(f.truthy(t)), z3.Not(f.is_dict(t))))
        if isinstance(v, VMap) and v.kt == TStr and v.order is None:
            m = unwrap(as_json_map(v), DICT_T())
            t = f.of_dict(m)
            return _inst(t, lambda: z3.And(f.is_dict(t), f.dict_of(t) == m, f.truthy(t) == (DICT_T().dt.card(m) > 0)))
        return None


CUR = [None]     # the path under construction (set by Interp.__init__): receives the ground axiom instances


def _inst(term, fact):
    p = CUR[0]
    if p is not None:
        done = getattr(p, "_jv_done", None)
        if done is None:
            done = p._jv_done = set()
            p.ver.note_assumption(
                "Json (Any) values: uninterpreted sort with injections for bool/int/float/str/None/dict and the "
                "observers bool(v), isinstance(v, dict)+content, int(v); python semantics of these on injected "
                "values is assumed (ground instances, pyvc/jsonmodel.py); everything else about a Json value is "
                "uninterpreted but deterministic")
        if term.get_id() not in done:
            done.add(term.get_id())
            p.keep = getattr(p, "keep", []) + [term]
            p.assume(fact())
    return term


class VJson(VUn):
    """a dynamically typed value"""

    def truth_expr(self, I):
        return F.truthy(self.e)

    def as_map(self, I):
        """the dict content (meaningful when isinstance(v, dict))"""
        m = DICT_T().wrap(F.dict_of(self.e))
        I.assume_wf_map(m)
        return m


TJSON = _TJson()
_DICT_T = []


def DICT_T():
    if not _DICT_T:
        _DICT_T.append(TMap(TStr, TJSON))
    return _DICT_T[0]


class _F:
    """the function symbols (created lazily: the Map datatype over JV must exist first)"""

    def __getattr__(self, name):
        JV = TJSON.sort()
        B, I_, R_, S = z3.BoolSort(), z3.IntSort(), z3.RealSort(), z3.StringSort()
        D = DICT_T().sort()
        table = {
            "of_bool": lambda: z3.Function("jv_of_bool", B, JV),
            "of_int": lambda: z3.Function("jv_of_int", I_, JV),
            "of_real": lambda: z3.Function("jv_of_real", R_, JV),
            "of_str": lambda: z3.Function("jv_of_str", S, JV),
            "of_dict": lambda: z3.Function("jv_of_dict", D, JV),
            "none": lambda: z3.Const("jv_none", JV),
            "truthy": lambda: z3.Function("jv_truthy", JV, B),
            "is_dict": lambda: z3.Function("jv_is_dict", JV, B),
            "dict_of": lambda: z3.Function("jv_dict_of", JV, D),
            "int_ok": lambda: z3.Function("jv_int_ok", JV, B),
            "int_val": lambda: z3.Function("jv_int_val", JV, I_),
        }
        if name not in table:
            raise AttributeError(name)
        v = table[name]()
        setattr(self, name, v)
        return v


F = _F()


def as_json_map(m):
    """Dict[str, X] -> Dict[str, Json] (values injected pointwise; same domain, same cardinality)"""
    if m.vt == TJSON:
        return m
    k = z3.String("jm_k")
    probe = m.vt.wrap(z3.Select(m.val, k))
    inj = TJSON.coerce_in(probe)
    if inj is None:
        raise TypeError("dict values of %s are not Json values" % m.vt)
    val = z3.simplify(m.val)
    if z3.is_const_array(val):
        c = TJSON.coerce_in(m.vt.wrap(val.arg(0)))
        nv = z3.K(z3.StringSort(), c)
    else:
        nv = z3.Lambda([k], inj)
    return VMap(m.dom, nv, m.card, TStr, TJSON)


# ------------------------------------------------------------------ hooks used by builtins.py

def sp_jv(I, args, kw):
    """jv(x): the Json value of a python value (spec + ghost)"""
    e = TJSON.coerce_in(args[0])
    if e is None:
        raise Unsupported("jv() of %s" % type(args[0]).__name__)
    return VJson(e, TJSON)


def _j(v):
    if isinstance(v, VOpt):
        v = v.val()
    if not isinstance(v, VJson):
        raise Unsupported("Json observer applied to %s" % type(v).__name__)
    return v


def sp_jv_truthy(I, args, kw):
    return VBool(F.truthy(_j(args[0]).e))


def sp_jv_is_dict(I, args, kw):
    return VBool(F.is_dict(_j(args[0]).e))


def sp_jv_dict(I, args, kw):
    return DICT_T().wrap(F.dict_of(_j(args[0]).e))


def sp_jv_int_ok(I, args, kw):
    return VBool(F.int_ok(_j(args[0]).e))


def sp_jv_int_val(I, args, kw):
    return VInt(F.int_val(_j(args[0]).e))


def json_isinstance(I, v, names):
    """isinstance(v, names) for a Json value -> z3 Bool"""
    out = []
    for nm in names:
        if nm in ("dict", "Mapping", "MutableMapping"):
            out.append(F.is_dict(v.e))
        elif nm == "object":
            out.append(z3.BoolVal(True))
        else:
            raise Unsupported("isinstance(<Json>, %s)" % nm)
    return z3.Or(out) if out else z3.BoolVal(False)


def json_int(I, v):
    """int(v) for a Json value: defined iff jv_int_ok(v); otherwise raises some Exception subclass
    (TypeError or ValueError in CPython; the model does not say which)"""
    if I.spec:
        return VInt(F.int_val(v.e))
    if I.path.branch(F.int_ok(v.e)):
        return VInt(F.int_val(v.e))
    raise PyRaise(VExc("Exception", [VStr("int() of a non-numeric value")], any_subclass=True))


SPEC_FUNCS = {
    "jv": sp_jv, "jv_truthy": sp_jv_truthy, "jv_is_dict": sp_jv_is_dict,
    "jv_dict": sp_jv_dict, "jv_int_ok": sp_jv_int_ok, "jv_int_val": sp_jv_int_val,
}
