"""Front end: loads the *current* sources of $VERIF_REPO with ast on every run.

Nothing from the repository is copied into /verif: functions are looked up by
`relative/path.py:Qual.name` and the FunctionDef node that is interpreted symbolically is
the node parsed from the file as it is on disk now.
"""
from __future__ import annotations
import ast
import hashlib
import os

REPO = os.environ.get("VERIF_REPO", "/repo")


class ClassInfo:
    def __init__(self, name, node, module):
        self.name = name
        self.node = node
        self.module = module
        self.methods = {}
        self.attrs = {}     # class level simple assignments (ast expr)
        self.bases = []
        for b in node.bases:
            if isinstance(b, ast.Name):
                self.bases.append(b.id)
            elif isinstance(b, ast.Attribute):
                self.bases.append(b.attr)
            elif isinstance(b, ast.Subscript) and isinstance(b.value, ast.Name):
                self.bases.append(b.value.id)
        self.decorators = [ast.unparse(d) for d in node.decorator_list]
        self.fields = []    # dataclass style annotated fields: (name, default expr or None)
        for st in node.body:
            if isinstance(st, (ast.FunctionDef,)):
                self.methods[st.name] = st
            elif isinstance(st, ast.Assign) and len(st.targets) == 1 and isinstance(st.targets[0], ast.Name):
                self.attrs[st.targets[0].id] = st.value
            elif isinstance(st, ast.AnnAssign) and isinstance(st.target, ast.Name):
                self.fields.append((st.target.id, st.value))
                if st.value is not None:
                    self.attrs[st.target.id] = st.value

    def find_method(self, name):
        if name in self.methods:
            return self.methods[name], self
        if name in self.attrs and isinstance(self.attrs[name], ast.Name) and self.attrs[name].id != name:
            # alias such as  __contains__ = contains
            return self.find_method(self.attrs[name].id)
        for b in self.bases:
            ci = self.module.classes.get(b)
            if ci is not None:
                r = ci.find_method(name)
                if r:
                    return r
        return None


class ModuleInfo:
    def __init__(self, relpath, repo=None):
        self.relpath = relpath
        self.repo = repo or REPO
        self.path = os.path.join(self.repo, relpath)
        with open(self.path, "r", encoding="utf-8") as f:
            self.source = f.read()
        self.tree = ast.parse(self.source, filename=self.path)
        self.functions = {}
        self.classes = {}
        self.consts = {}     # name -> ast expr (module level simple assignment)
        self.imports = {}    # local name -> (module dotted, attr or None, level)
        self._scan(self.tree.body)

    def _scan(self, body):
        for st in body:
            if isinstance(st, ast.FunctionDef):
                self.functions[st.name] = st
            elif isinstance(st, ast.ClassDef):
                ci = self.classes[st.name] = ClassInfo(st.name, st, self)
                for sub in st.body:
                    if isinstance(sub, ast.ClassDef):
                        # nested class: registered under its bare name (first definition wins) and reachable as
                        # an attribute of the outer class
                        self.classes.setdefault(sub.name, ClassInfo(sub.name, sub, self))
                        ci.attrs.setdefault(sub.name, ast.Name(id=sub.name, ctx=ast.Load()))
            elif isinstance(st, ast.Assign):
                for t in st.targets:
                    if isinstance(t, ast.Name):
                        self.consts[t.id] = st.value
            elif isinstance(st, ast.AnnAssign) and isinstance(st.target, ast.Name) and st.value is not None:
                self.consts[st.target.id] = st.value
            elif isinstance(st, ast.ImportFrom):
                for a in st.names:
                    self.imports[a.asname or a.name] = (st.module or "", a.name, st.level)
            elif isinstance(st, ast.Import):
                for a in st.names:
                    self.imports[a.asname or a.name.split(".")[0]] = (a.name, None, 0)
            elif isinstance(st, (ast.If, ast.Try)):
                # module level try/if: scan all arms (first definition wins is not modelled;
                # later definitions override, as at import time on the taken arm)
                for sub in ("body", "orelse", "finalbody"):
                    self._scan(getattr(st, sub, []) or [])
                for h in getattr(st, "handlers", []) or []:
                    self._scan(h.body)

    def resolve_import(self, name):
        """-> (relpath of repo module, attr) or None when outside the repo."""
        if name not in self.imports:
            return None
        mod, attr, level = self.imports[name]
        if level:
            base = os.path.dirname(self.relpath)
            for _ in range(level - 1):
                base = os.path.dirname(base)
            parts = [base] + (mod.split(".") if mod else [])
            cand = os.path.join(*parts)
        else:
            cand = mod.replace(".", "/")
        for p in (cand + ".py", os.path.join(cand, "__init__.py")):
            if os.path.exists(os.path.join(self.repo, p)):
                return p, attr
        # from pkg import submodule
        if attr:
            for p in (os.path.join(cand, attr + ".py"), os.path.join(cand, attr, "__init__.py")):
                if os.path.exists(os.path.join(self.repo, p)):
                    return p, None
        return None

    def segment(self, node):
        return ast.get_source_segment(self.source, node) or ""


_MODS = {}


def load_module(relpath, repo=None):
    key = (repo or REPO, relpath)
    if key not in _MODS:
        _MODS[key] = ModuleInfo(relpath, repo)
    return _MODS[key]


def reset_cache():
    _MODS.clear()


REGION_SELECTORS = {}   # tag -> selector(FunctionDef) -> [stmt, ...]  (the real statement nodes of the function)


def find_function(key, repo=None):
    """key = 'rel/path.py:func' | 'rel/path.py:Class.method' | 'rel/path.py:outer.<locals>.inner'
             | '<any of those>#<region tag>'  (a statement region of the function, see REGION_SELECTORS)
    -> (ModuleInfo, ClassInfo|None, FunctionDef)"""
    if "#" in key:
        base, tag = key.split("#", 1)
        mod, cls, node = find_function(base, repo)
        stmts = list(REGION_SELECTORS[tag](node))
        if not stmts:
            raise KeyError("region %s not found in %s" % (tag, base))
        # the region is verified as a parameterless function whose body *is* the selected statement nodes of the
        # current source; its free variables are typed by the contract (`types`)
        fn = ast.FunctionDef(name="%s#%s" % (node.name, tag),
                             args=ast.arguments(posonlyargs=[], args=[], vararg=None, kwonlyargs=[], kw_defaults=[],
                                                kwarg=None, defaults=[]),
                             body=stmts, decorator_list=[], returns=None, type_comment=None)
        fn.lineno, fn.col_offset = stmts[0].lineno, stmts[0].col_offset
        fn.end_lineno, fn.end_col_offset = stmts[-1].end_lineno, stmts[-1].end_col_offset
        return mod, cls, fn
    relpath, qual = key.split(":", 1)
    mod = load_module(relpath, repo)
    parts = [p for p in qual.split(".") if p != "<locals>"]
    cls = None
    node = None
    if parts[0] in mod.classes and len(parts) >= 2:
        cls = mod.classes[parts[0]]
        r = cls.find_method(parts[1])
        if r is None:
            raise KeyError("no method %s" % key)
        node = r[0]
        rest = parts[2:]
    elif parts[0] in mod.functions:
        node = mod.functions[parts[0]]
        rest = parts[1:]
    else:
        raise KeyError("no function %s" % key)
    for p in rest:
        found = None
        for sub in ast.walk(node):
            if isinstance(sub, ast.FunctionDef) and sub.name == p and sub is not node:
                found = sub
                break
        if found is None:
            raise KeyError("no nested function %s in %s" % (p, key))
        node = found
    return mod, cls, node


def source_hash(mod, node):
    return hashlib.sha256(mod.segment(node).encode("utf-8")).hexdigest()[:16]


def loop_header(n):
    """source text of a loop header: the anchor loop specifications are re-attached by (see loop_anchors.json)"""
    if isinstance(n, ast.For):
        return "for %s in %s" % (ast.unparse(n.target), ast.unparse(n.iter))
    return "while %s" % ast.unparse(n.test)


def local_bindings(node):
    """[(local name, source text of the statement / loop header that first binds it)] in source order, for the
    function's own scope (nested defs excluded; parameters excluded).  Used to recognise pure renames of locals."""
    params = set()
    a = getattr(node, "args", None)
    if a is not None:
        params = {x.arg for x in a.args + a.kwonlyargs + a.posonlyargs} | ({a.vararg.arg} if a.vararg else set()) | \
                 ({a.kwarg.arg} if a.kwarg else set())
    found = {}

    def names_of(t, acc):
        if isinstance(t, ast.Name):
            acc.append(t.id)
        elif isinstance(t, (ast.Tuple, ast.List)):
            for e in t.elts:
                names_of(e, acc)
        elif isinstance(t, ast.Starred):
            names_of(t.value, acc)

    def walk(n):
        for ch in ast.iter_child_nodes(n):
            if isinstance(ch, (ast.FunctionDef, ast.Lambda, ast.ClassDef, ast.AsyncFunctionDef)):
                if isinstance(ch, (ast.FunctionDef, ast.AsyncFunctionDef, ast.ClassDef)) and ch.name not in params:
                    found.setdefault(ch.name, (ch.lineno, ch.col_offset, "def " + ch.name))
                continue
            acc, text = [], None
            if isinstance(ch, ast.Assign):
                for t in ch.targets:
                    names_of(t, acc)
                text = ast.unparse(ch)
            elif isinstance(ch, (ast.AnnAssign, ast.AugAssign)):
                names_of(ch.target, acc)
                text = ast.unparse(ch)
            elif isinstance(ch, ast.For):
                names_of(ch.target, acc)
                text = loop_header(ch)
            elif isinstance(ch, ast.With):
                for it in ch.items:
                    if it.optional_vars is not None:
                        names_of(it.optional_vars, acc)
                text = "with " + ", ".join(ast.unparse(it) for it in ch.items)
            elif isinstance(ch, ast.ExceptHandler) and ch.name:
                acc.append(ch.name)
                text = "except %s as %s" % (ast.unparse(ch.type) if ch.type else "", ch.name)
            elif isinstance(ch, ast.NamedExpr):
                names_of(ch.target, acc)
                text = ast.unparse(ch)
            elif isinstance(ch, ast.comprehension):
                pass
            for nm in acc:
                if nm not in params:
                    found.setdefault(nm, (ch.lineno, ch.col_offset, text))
            walk(ch)

    walk(node)
    return [(nm, v[2]) for nm, v in sorted(found.items(), key=lambda kv: (kv[1][0], kv[1][1], kv[0]))]


def loops_in(node):
    """loops of a function body in source order (not descending into nested defs)."""
    out = []

    def walk(n):
        for ch in ast.iter_child_nodes(n):
            if isinstance(ch, (ast.FunctionDef, ast.Lambda, ast.ClassDef, ast.AsyncFunctionDef)):
                continue
            if isinstance(ch, (ast.For, ast.While)):
                out.append(ch)
            walk(ch)

    walk(node)
    return out
