"""Type descriptors and symbolic value wrappers.

Two levels:
  * encodable types (TInt, TReal, TBool, TStr, TUn, TOpt, TTuple, TRec, TList, TMap, TSet):
    have a z3 sort; values can be stored inside z3 arrays;
  * heap objects (VObj, VDictRec, VFunc...): python-side identity, mutable fields.
Mutable containers (VSeq, VMap, VSet) are python objects with identity (aliasing inside one
activation is exact); when read out of another container they carry an `origin` so that a
mutation is written back (path alias; precondition: containers are tree shaped).
"""
from __future__ import annotations
import ast
import z3

_DT_CACHE = {}
STRLIKE = set()   # names of opaque sorts that stand for python strings used only as keys: str(x) is x, isinstance(x, str)


class T:
    name = "?"

    def sort(self):
        raise NotImplementedError

    def __repr__(self):
        return self.name

    def __eq__(self, o):
        return isinstance(o, T) and self.name == o.name

    def __hash__(self):
        return hash(self.name)


class _TInt(T):
    name = "int"

    def sort(self):
        return z3.IntSort()

    def wrap(self, e):
        return VInt(e)


class _TReal(T):
    name = "float"

    def sort(self):
        return z3.RealSort()

    def wrap(self, e):
        return VReal(e)


class _TBool(T):
    name = "bool"

    def sort(self):
        return z3.BoolSort()

    def wrap(self, e):
        return VBool(e)


class _TStr(T):
    name = "str"

    def sort(self):
        return z3.StringSort()

    def wrap(self, e):
        return VStr(e)


class _TNone(T):
    name = "None"

    def sort(self):
        return z3.BoolSort()

    def wrap(self, e):
        return VNone()


class _TPath(T):
    """pathlib.Path value: abstractly the (normalised) path string `str(p)`; see pyvc/fsmodel.py"""
    name = "Path"

    def sort(self):
        return z3.StringSort()

    def wrap(self, e):
        return VPath(e)


TInt, TReal, TBool, TStr, TNone = _TInt(), _TReal(), _TBool(), _TStr(), _TNone()
TPath = _TPath()


class TUn(T):
    """uninterpreted sort (generic K / V, opaque library values)"""

    def __init__(self, nm):
        self.name = "Un_" + nm
        self.nm = nm

    def sort(self):
        return z3.DeclareSort(self.nm)

    def wrap(self, e):
        return VUn(e, self)


def _safe(s):
    return "".join(c if c.isalnum() else "_" for c in s)


class TOpt(T):
    def __init__(self, inner):
        self.inner = inner
        self.name = "Opt[%s]" % inner.name
        key = self.name
        if key not in _DT_CACHE:
            d = z3.Datatype("Opt_" + _safe(inner.name))
            d.declare("none")
            d.declare("some", ("val", inner.sort()))
            _DT_CACHE[key] = d.create()
        self.dt = _DT_CACHE[key]

    def sort(self):
        return self.dt

    def wrap(self, e):
        return VOpt(e, self)

    def none(self):
        return self.dt.none

    def some(self, v):
        return self.dt.some(v)


class TTuple(T):
    def __init__(self, elems):
        self.elems = list(elems)
        self.name = "Tup[%s]" % ",".join(t.name for t in self.elems)
        key = self.name
        if key not in _DT_CACHE:
            d = z3.Datatype("Tup_" + _safe(self.name))
            d.declare("mk", *[("f%d" % i, t.sort()) for i, t in enumerate(self.elems)])
            _DT_CACHE[key] = d.create()
        self.dt = _DT_CACHE[key]

    def sort(self):
        return self.dt

    def acc(self, i, e):
        return getattr(self.dt, "f%d" % i)(e)

    def wrap(self, e):
        return VTuple([t.wrap(self.acc(i, e)) for i, t in enumerate(self.elems)], self)


class TRec(T):
    """frozen record (dataclass(frozen=True)-like value)."""

    def __init__(self, nm, fields, pyclass=None):
        self.nm = nm
        self.fields = dict(fields)  # ordered name -> T
        self.name = "Rec_" + nm
        self.pyclass = pyclass
        key = self.name
        if key not in _DT_CACHE:
            d = z3.Datatype("Rec_" + _safe(nm))
            d.declare("mk", *[(fn, ft.sort()) for fn, ft in self.fields.items()])
            _DT_CACHE[key] = d.create()
        self.dt = _DT_CACHE[key]

    def sort(self):
        return self.dt

    def acc(self, fname, e):
        return getattr(self.dt, fname)(e)

    def wrap(self, e):
        return VRec({fn: ft.wrap(self.acc(fn, e)) for fn, ft in self.fields.items()}, self)


class TMutRec(T):
    """mutable dict-shaped record with a fixed set of string keys, stored *by value* inside containers
    (z3 datatype).  Exec-mode representation: a VDictRec whose `.mt` is this type; when it is read out of a
    map / list / another record it carries an `origin` and every mutation is written back (path alias;
    precondition: records are not shared between containers, at most one live alias per stored record)."""

    def __init__(self, nm, fields):
        self.nm = nm
        self.fields = dict(fields)
        self.name = "MRec_" + nm
        key = self.name
        if key not in _DT_CACHE:
            d = z3.Datatype("MRec_" + _safe(nm))
            d.declare("mk", *[("mr_%s_%s" % (_safe(nm), _safe(fn)), ft.sort()) for fn, ft in self.fields.items()])
            _DT_CACHE[key] = d.create()
        self.dt = _DT_CACHE[key]

    def sort(self):
        return self.dt

    def acc(self, fname, e):
        return getattr(self.dt, "mr_%s_%s" % (_safe(self.nm), _safe(fname)))(e)

    def wrap(self, e):
        d = VDictRec({})
        d.mt = self
        for fn, ft in self.fields.items():
            v = ft.wrap(self.acc(fn, e))
            if isinstance(v, (VSeq, VMap, VSet, VDictRec)):
                v.origin = (d, fn)
            d.fields[fn] = v
        return d


class TDRec(T):
    """dict-shaped record: a python dict with a fixed set of *possible* string keys, z3-encodable (so it can be a
    value of a Dict / an element of a List).  `required` keys are always present, `optional` keys carry a presence
    bit.  Reading it uses the dict protocol (`d.get(k, dflt)`, `d[k]`, `k in d`, isinstance(d, dict));
    a dict literal whose keys fit is coerced to it when stored into a typed container."""

    def __init__(self, nm, required, optional):
        self.nm = nm
        self.required = dict(required)
        self.optional = dict(optional)
        self.fields = dict(self.required)
        self.fields.update(self.optional)
        self.name = "DRec_" + nm
        key = self.name
        if key not in _DT_CACHE:
            d = z3.Datatype("DRec_" + _safe(nm))
            fs = [("v_" + fn, ft.sort()) for fn, ft in self.fields.items()]
            fs += [("has_" + fn, z3.BoolSort()) for fn in self.optional]
            d.declare("mk", *fs)
            _DT_CACHE[key] = d.create()
        self.dt = _DT_CACHE[key]

    def sort(self):
        return self.dt

    def wrap(self, e):
        return VDRec(e, self)

    def val(self, fname, e):
        return getattr(self.dt, "v_" + fname)(e)

    def has(self, fname, e):
        if fname in self.required:
            return z3.BoolVal(True)
        if fname in self.optional:
            return getattr(self.dt, "has_" + fname)(e)
        return z3.BoolVal(False)

    def mk(self, vals, present):
        """vals: {field: z3 expr (for every field)}, present: {optional field: z3 Bool}"""
        args = [vals[fn] for fn in self.fields] + [present[fn] for fn in self.optional]
        return self.dt.mk(*args)


class TList(T):
    def __init__(self, elem, kind="list"):
        self.elem = elem
        self.kind = kind
        self.name = "Seq[%s]" % elem.name
        key = self.name
        if key not in _DT_CACHE:
            d = z3.Datatype("Seq_" + _safe(elem.name))
            d.declare("mk", ("arr", z3.ArraySort(z3.IntSort(), elem.sort())), ("n", z3.IntSort()))
            _DT_CACHE[key] = d.create()
        self.dt = _DT_CACHE[key]

    def sort(self):
        return self.dt

    def wrap(self, e):
        return VSeq(self.dt.arr(e), self.dt.n(e), self.elem, self.kind)


class TMap(T):
    def __init__(self, k, v, ordered=False):
        self.k, self.v = k, v
        self.ordered = ordered
        self.name = "%s[%s,%s]" % ("OMap" if ordered else "Map", k.name, v.name)
        key = self.name
        if key not in _DT_CACHE:
            d = z3.Datatype(_safe(self.name))
            fs = [("dom", z3.ArraySort(k.sort(), z3.BoolSort())),
                  ("val", z3.ArraySort(k.sort(), v.sort())),
                  ("card", z3.IntSort())]
            if ordered:
                fs += [("oarr", z3.ArraySort(z3.IntSort(), k.sort()))]
            d.declare("mk", *fs)
            _DT_CACHE[key] = d.create()
        self.dt = _DT_CACHE[key]

    def sort(self):
        return self.dt

    def wrap(self, e):
        m = VMap(self.dt.dom(e), self.dt.val(e), self.dt.card(e), self.k, self.v)
        if self.ordered:
            m.order = VSeq(self.dt.oarr(e), self.dt.card(e), self.k, "list")
        return m


class TSet(T):
    def __init__(self, k):
        self.k = k
        self.name = "Set[%s]" % k.name
        key = self.name
        if key not in _DT_CACHE:
            d = z3.Datatype(_safe(self.name))
            d.declare("mk", ("dom", z3.ArraySort(k.sort(), z3.BoolSort())), ("card", z3.IntSort()))
            _DT_CACHE[key] = d.create()
        self.dt = _DT_CACHE[key]

    def sort(self):
        return self.dt

    def wrap(self, e):
        return VSet(self.dt.dom(e), self.dt.card(e), self.k)


class TObj(T):
    """heap object with declared mutable fields (not z3 encodable)."""

    def __init__(self, nm, fields, cls=None):
        self.nm = nm
        self.fields = dict(fields)
        self.name = "Obj_" + nm
        self.cls = cls  # (module, classname) for method resolution


class TFun(T):
    def __init__(self, cname):
        self.cname = cname
        self.name = "Fun_" + cname


# ---------------------------------------------------------------- values

class V:
    origin = None  # (parent container V, key z3 expr / python key)

    def writeback(self):
        o = self.origin
        if o is not None:
            parent, key = o
            parent.store_back(key, self)


class VInt(V):
    t = TInt

    def __init__(self, e):
        self.e = z3.IntVal(e) if isinstance(e, int) else e


class VReal(V):
    t = TReal

    def __init__(self, e):
        if isinstance(e, (int, float)):
            e = z3.RealVal(repr(e) if isinstance(e, float) else e)
        self.e = e


class VBool(V):
    t = TBool

    def __init__(self, e):
        self.e = z3.BoolVal(e) if isinstance(e, bool) else e


class VStr(V):
    t = TStr

    def __init__(self, e):
        self.e = z3.StringVal(e) if isinstance(e, str) else e

    def concrete(self):
        e = z3.simplify(self.e)
        if z3.is_string_value(e):
            return e.as_string()
        return None


class VUn(V):
    def __init__(self, e, t):
        self.e = e
        self.t = t


class VPath(V):
    """pathlib.Path: immutable; `e` is the z3 string str(p) (a fixpoint of path normalisation)"""
    t = TPath

    def __init__(self, e):
        self.e = z3.StringVal(e) if isinstance(e, str) else e


class VNone(V):
    t = TNone
    e = None


class VOpt(V):
    def __init__(self, e, t):
        self.e = e
        self.t = t

    def is_none(self):
        return self.t.dt.is_none(self.e)

    def val(self):
        v = self.t.inner.wrap(self.t.dt.val(self.e))
        return v


class VTuple(V):
    def __init__(self, items, t=None):
        self.items = list(items)
        self._t = t

    @property
    def t(self):
        if self._t is None:
            self._t = TTuple([typeof(x) for x in self.items])
        return self._t


class VPyList(VTuple):
    """a python *list* of statically known length whose elements have no symbolic encoding (dict literals, heap
    objects), e.g. `[entry]`.  Behaves like a tuple for len / indexing / iteration / truthiness; it reports itself as
    `list` to isinstance, and every mutating method is `unsupported` (never silently wrong)."""
    pylist = True


class VPyConstSet(VTuple):
    """a set / frozenset literal of python constants of mixed types ({True, 1, "yes"}): python-level, immutable;
    supports only `x in s` (hashing x first: an unhashable x raises TypeError), len and iteration"""
    pyconstset = True


class VRec(V):
    def __init__(self, fields, t):
        self.fields = dict(fields)
        self.t = t


class VDRec(V):
    """value of a dict-shaped record type (immutable value semantics, like VRec)"""

    # `owner` = (env, name) of the only local that refers to this freshly copied dict (`x = dict(rec)`): item stores
    # through that name are modelled as a functional update + rebinding; any other store is unsupported
    owner = None

    def __init__(self, e, t):
        self.e = e
        self.t = t

    def field(self, fname):
        return self.t.fields[fname].wrap(self.t.val(fname, self.e))

    def has(self, fname):
        return self.t.has(fname, self.e)


class VSeq(V):
    def __init__(self, arr, n, et, kind="list"):
        self.arr, self.n, self.et, self.kind = arr, n, et, kind

    @property
    def t(self):
        return TList(self.et, self.kind)

    def get(self, i):
        v = self.et.wrap(z3.Select(self.arr, i))
        if isinstance(v, (VSeq, VMap, VSet, VDictRec)):
            v.origin = (self, i)
        return v

    def store_back(self, key, child):
        self.arr = z3.Store(self.arr, key, unwrap(child, self.et))
        self.writeback()


class VMap(V):
    order = None  # VSeq of keys when insertion order is modelled

    def __init__(self, dom, val, card, kt, vt):
        self.dom, self.val, self.card, self.kt, self.vt = dom, val, card, kt, vt

    @property
    def t(self):
        return TMap(self.kt, self.vt, ordered=self.order is not None)

    def get(self, k):
        v = self.vt.wrap(z3.Select(self.val, k))
        if isinstance(v, (VSeq, VMap, VSet, VDictRec)):
            v.origin = (self, k)
        return v

    def store_back(self, key, child):
        self.val = z3.Store(self.val, key, unwrap(child, self.vt))
        self.writeback()


class VSet(V):
    def __init__(self, dom, card, kt):
        self.dom, self.card, self.kt = dom, card, kt

    @property
    def t(self):
        return TSet(self.kt)


class VObj(V):
    """heap object: python identity, mutable named fields."""

    def __init__(self, cls, fields, tobj=None):
        self.cls = cls          # ClassInfo or name
        self.fields = dict(fields)
        self.tobj = tobj

    t = None


class VDictRec(V):
    """python dict with concrete string keys (TypedDict, kwargs, literal config dicts)."""

    def __init__(self, fields):
        self.fields = dict(fields)

    t = None
    mt = None   # TMutRec when this dict is (an alias of) a by-value record stored in a container

    def store_back(self, key, child):
        self.fields[key] = child
        self.writeback()

    def adopt(self, mt):
        """this literal dict has just been stored in a container of records of type mt: from now on it is the
        alias of the stored record (python reference semantics of `m[k] = rec; rec[f] = ...`)"""
        self.mt = mt
        for fn, ft in mt.fields.items():
            ch = self.fields.get(fn)
            if isinstance(ch, VDictRec) and isinstance(ft, TMutRec):
                ch.origin = (self, fn)
                ch.adopt(ft)
            elif isinstance(ch, (VSeq, VMap, VSet)):
                ch.origin = (self, fn)


class VFunc(V):
    t = None

    def __init__(self, kind, name, node=None, module=None, closure=None, selfv=None,
                 contract=None, impl=None):
        self.kind = kind  # 'ast' | 'lambda' | 'param' | 'builtin' | 'method'
        self.name = name
        self.node = node
        self.module = module
        self.closure = closure
        self.selfv = selfv
        self.contract = contract
        self.impl = impl


class VClass(V):
    t = None

    def __init__(self, name, node=None, module=None, rec=None, exc_base=None):
        self.name = name
        self.node = node
        self.module = module
        self.rec = rec
        self.exc_base = exc_base


class VModule(V):
    t = None

    def __init__(self, name, info=None):
        self.name = name
        self.info = info


class VExc(V):
    t = None

    def __init__(self, cls, args=(), any_subclass=False):
        self.cls = cls            # class name (string)
        self.args = list(args)
        self.any_subclass = any_subclass


class VOpaque(V):
    """a python-side constant we do not interpret (e.g. a sentinel object())."""
    t = None

    def __init__(self, tag):
        self.tag = tag


class VNaN(V):
    """float('nan'): floats are mathematical reals in this engine (A-REAL); this is the single non-finite float value it
    can represent, and only as a python-side constant (spec constructor `nan()`): every ordering comparison and ==
    with it is False, math.isfinite is False, float()/abs() keep it.  Arithmetic on it is not modelled."""
    t = None


class VUndef(V):
    """spec mode only: the value of a partial operation outside its domain (e.g. None[0]).
    Any predicate over it is an unconstrained boolean, so a clause that depends on it cannot be proved."""
    t = None


def typeof(v):
    if isinstance(v, (VInt, VReal, VBool, VStr, VNone)):
        return v.t
    if type(v).__name__ == "VDyn":
        return v.t
    if isinstance(v, (VUn, VOpt, VRec, VTuple, VSeq, VMap, VSet, VPath, VDRec)):
        return v.t
    if isinstance(v, VDictRec) and v.mt is not None:
        return v.mt
    raise TypeError("value of %s has no encodable type" % type(v).__name__)


def _eta(dt, parts):
    """mk(acc1(x), acc2(x), ...) == x : keeps quantified container variables as plain variables (triggers)"""
    x = None
    for acc, e in parts:
        if not (z3.is_app(e) and e.num_args() == 1 and e.decl().eq(getattr(dt, acc))):
            return None
        if x is None:
            x = e.arg(0)
        elif not x.eq(e.arg(0)):
            return None
    return x


def unwrap(v, t):
    """V -> z3 expression of sort t.sort() (with coercions int->float, x->Optional[x], JSON-like -> Dyn)."""
    if t.name == "Dyn":
        from .dyn import to_dyn
        return to_dyn(v)
    if t.name == "DKey":
        from .dyn import key_code
        return key_code(v)
    if getattr(t, "coerce_in", None) is not None:
        # dynamically typed target (Json): python values are injected
        r = t.coerce_in(v)
        if r is not None:
            return r
        raise TypeError("cannot encode %s as %s" % (type(v).__name__, t))
    if isinstance(t, TOpt):
        if isinstance(v, VNone):
            return t.none()
        if isinstance(v, VOpt):
            if v.t == t:
                return v.e
            raise TypeError("optional mismatch %s vs %s" % (v.t, t))
        return t.some(unwrap(v, t.inner))
    if t is TReal or isinstance(t, _TReal):
        if isinstance(v, VInt):
            return z3.ToReal(v.e)
        if isinstance(v, VBool):
            return z3.If(v.e, z3.RealVal(1), z3.RealVal(0))
        if isinstance(v, VReal):
            return v.e
    if isinstance(t, _TInt):
        if isinstance(v, VBool):
            return z3.If(v.e, z3.IntVal(1), z3.IntVal(0))
        if isinstance(v, VInt):
            return v.e
    if isinstance(t, _TBool) and isinstance(v, VBool):
        return v.e
    if isinstance(t, _TStr) and isinstance(v, VStr):
        return v.e
    if isinstance(t, _TNone):
        return z3.BoolVal(True)
    if isinstance(t, _TPath) and isinstance(v, VPath):
        return v.e
    if isinstance(t, TUn) and isinstance(v, VUn) and v.t == t:
        return v.e
    if isinstance(t, TTuple) and isinstance(v, VTuple):
        if len(v.items) != len(t.elems):
            raise TypeError("tuple arity")
        parts = [unwrap(x, et) for x, et in zip(v.items, t.elems)]
        # eta: mk(f0(e), f1(e), ...) is e itself (keeps a quantified tuple variable visible to the triggers)
        try:
            base = None
            for i, p in enumerate(parts):
                if not (z3.is_app(p) and p.num_args() == 1 and p.decl().eq(getattr(t.dt, "f%d" % i))):
                    base = None
                    break
                if base is None:
                    base = p.arg(0)
                elif not base.eq(p.arg(0)):
                    base = None
                    break
            if base is not None and parts and base.sort().eq(t.dt):
                return base
        except z3.Z3Exception:
            pass
        return t.dt.mk(*parts)
    if isinstance(t, TRec) and isinstance(v, VRec):
        if v.t.nm != t.nm:
            raise TypeError("record mismatch %s vs %s" % (v.t, t))
        return t.dt.mk(*[unwrap(v.fields[fn], ft) for fn, ft in t.fields.items()])
    if isinstance(t, TRec) and getattr(t, "dictshape", False) and isinstance(v, VDictRec):
        # a dict literal with constant string keys stored where a dict-shaped record is expected
        extra = [k for k in v.fields if k not in t.fields]
        missing = [k for k in t.fields if k not in v.fields and k not in t.optkeys]
        if extra or missing:
            raise TypeError("dict literal does not have the shape of %s (extra %s, missing %s)" % (t.nm, extra, missing))
        return t.dt.mk(*[unwrap(v.fields[fn], ft) if fn in v.fields else ft.none() for fn, ft in t.fields.items()])
    if isinstance(t, TMutRec) and isinstance(v, VDictRec):
        if set(v.fields) != set(t.fields):
            raise TypeError("dict with keys %s is not a %s record" % (sorted(v.fields), t.nm))
        es = [unwrap(v.fields[fn], ft) for fn, ft in t.fields.items()]
        # eta-reduction: mk(acc_1(x), ..., acc_n(x)) is x (an unmodified record read out of a container)
        x = None
        for i, e in enumerate(es):
            if not (z3.is_app(e) and e.num_args() == 1 and e.decl().eq(t.dt.accessor(0, i))):
                x = None
                break
            if x is None:
                x = e.arg(0)
            elif not x.eq(e.arg(0)):
                x = None
                break
        if x is not None and x.sort().eq(t.dt):
            return x
        return t.dt.mk(*es)
    if isinstance(t, TMap) and isinstance(v, VDictRec) and not v.fields and not t.ordered:
        dflt = z3.Const("dflt_" + "".join(c if c.isalnum() else "_" for c in t.v.name), t.v.sort())
        return t.dt.mk(z3.K(t.k.sort(), z3.BoolVal(False)), z3.K(t.k.sort(), dflt), z3.IntVal(0))
    if isinstance(t, TDRec):
        if isinstance(v, VDRec) and v.t == t:
            v.owner = None      # the dict object is now shared with a container: no more in-place updates modelled
            return v.e
        if isinstance(v, VDictRec):
            return drec_of_literal(v, t)
        raise TypeError("cannot encode %s as %s" % (type(v).__name__, t))
    if isinstance(t, TList) and type(v).__name__ == "VEmptyList":
        dflt = z3.Const("dflt_" + "".join(c if c.isalnum() else "_" for c in t.elem.name), t.elem.sort())
        return t.dt.mk(z3.K(z3.IntSort(), dflt), z3.IntVal(0))
    if isinstance(t, TList) and isinstance(v, VSeq):
        if v.et != t.elem:
            raise TypeError("list elem mismatch %s vs %s" % (v.et, t.elem))
        x = _eta(t.dt, [("arr", v.arr), ("n", v.n)])
        if x is not None:
            return x
        return t.dt.mk(v.arr, v.n)
    if isinstance(t, TMap) and isinstance(v, VMap):
        if v.kt != t.k or v.vt != t.v:
            raise TypeError("map mismatch")
        if t.ordered:
            return t.dt.mk(v.dom, v.val, v.card, v.order.arr)
        x = _eta(t.dt, [("dom", v.dom), ("val", v.val), ("card", v.card)])
        if x is not None:
            return x
        return t.dt.mk(v.dom, v.val, v.card)
    if isinstance(t, TSet) and isinstance(v, VSet):
        return _eta2(t.dt, [v.dom, v.card])
    raise TypeError("cannot encode %s as %s" % (type(v).__name__, t))


def future_type(rt):
    """concurrent.futures.Future as a value: the outcome of the submitted call (see externals._tpe_submit)"""
    return TRec("Future_" + _safe(rt.name), {"raised": TBool, "value": rt, "exc_type": TStr, "exc_msg": TStr})


def _eta2(dt, es):
    """mk(acc_0(x), ..., acc_n(x)) is x: an unmodified container value read out of another container keeps its
    original term (equalities between stored values stay syntactic)"""
    x = None
    for i, e in enumerate(es):
        if not (z3.is_app(e) and e.num_args() == 1 and e.decl().eq(dt.accessor(0, i))):
            return dt.mk(*es)
        if x is None:
            x = e.arg(0)
        elif not x.eq(e.arg(0)):
            return dt.mk(*es)
    if x is not None and x.sort().eq(dt):
        return x
    return dt.mk(*es)
def drec_shape_ok(v, t):
    """does the dict literal have exactly the required keys plus some of the optional ones?"""
    keys = set(v.fields)
    return set(t.required) <= keys and keys <= set(t.fields)


def _empty_of(ft):
    """z3 value used for `{}` / `[]` literals and for absent optional fields"""
    if isinstance(ft, TMap):
        dflt = z3.Const("dflt_" + _safe(ft.v.name), ft.v.sort())
        args = [z3.K(ft.k.sort(), z3.BoolVal(False)), z3.K(ft.k.sort(), dflt), z3.IntVal(0)]
        if ft.ordered:
            args.append(z3.K(z3.IntSort(), z3.Const("dflt_" + _safe(ft.k.name), ft.k.sort())))
        return ft.dt.mk(*args)
    if isinstance(ft, TList):
        return ft.dt.mk(z3.K(z3.IntSort(), z3.Const("dflt_" + _safe(ft.elem.name), ft.elem.sort())), z3.IntVal(0))
    return z3.Const("dflt_" + _safe(ft.name), ft.sort())


def drec_of_literal(v, t):
    if not drec_shape_ok(v, t):
        raise TypeError("dict literal with keys %s does not fit %s" % (sorted(v.fields), t.nm))
    vals, present = {}, {}
    for fn, ft in t.fields.items():
        if fn in v.fields:
            x = v.fields[fn]
            if isinstance(x, VDictRec) and not x.fields and isinstance(ft, TMap):
                vals[fn] = _empty_of(ft)
            elif type(x).__name__ == "VEmptyList" and isinstance(ft, TList):
                vals[fn] = _empty_of(ft)
            else:
                vals[fn] = unwrap(x, ft)
        else:
            vals[fn] = _empty_of(ft)
        if fn in t.optional:
            present[fn] = z3.BoolVal(fn in v.fields)
    return t.mk(vals, present)


# ---------------------------------------------------------------- type parsing

class TypeEnv:
    def __init__(self):
        self.named = {"int": TInt, "float": TReal, "Real": TReal, "bool": TBool, "str": TStr,
                      "None": TNone, "Path": TPath}
        from .dyn import TDyn
        self.named["Dyn"] = TDyn

    def declare(self, name, t):
        self.named[name] = t

    def parse(self, s):
        if isinstance(s, T):
            return s
        return self._p(ast.parse(s.strip(), mode="eval").body)

    def _p(self, n):
        if isinstance(n, ast.Constant) and n.value is None:
            return TNone
        if isinstance(n, ast.Name):
            if n.id in self.named:
                return self.named[n.id]
            raise KeyError("unknown type %s" % n.id)
        if isinstance(n, ast.Subscript):
            head = n.value.id
            args = n.slice.elts if isinstance(n.slice, ast.Tuple) else [n.slice]
            if head == "Optional":
                return TOpt(self._p(args[0]))
            if head in ("List", "list", "Seq"):
                return TList(self._p(args[0]))
            if head in ("Deque", "deque"):
                return TList(self._p(args[0]), "deque")
            if head in ("Dict", "dict", "Map"):
                return TMap(self._p(args[0]), self._p(args[1]))
            if head == "DefaultDict":
                # collections.defaultdict(float|int): a dict whose missing keys read as 0 (and are inserted by the read)
                t = TMap(self._p(args[0]), self._p(args[1]))
                t.default_zero = True
                return t
            if head in ("OrderedDict", "OMap"):
                return TMap(self._p(args[0]), self._p(args[1]), ordered=True)
            if head in ("Set", "set"):
                return TSet(self._p(args[0]))
            if head in ("Tuple", "tuple"):
                return TTuple([self._p(a) for a in args])
            if head == "Un":
                return TUn(args[0].id)
            if head == "Future":
                return future_type(self._p(args[0]))
        raise KeyError("cannot parse type %s" % ast.dump(n))
