"""Type descriptors and symbolic value wrappers.

Two levels:
  * encodable types (TInt, TReal, TBool, TStr, TUn, TOpt, TTuple, TRec, TList, TMap, TSet):
    have a z3 sort; values can be stored inside z3 arrays;
  * heap objects (VObj, VDictRec, VFunc...): python-side identity, mutable fields.
Mutable containers (VSeq, VMap, VSet) are python objects with identity (aliasing inside one
activation is exact); when read out of another container they carry an `origin` so that a
mutation is written back (path alias; precondition: containers are tree shaped).
"""
from __future__ import annotations
import ast
import z3

_DT_CACHE = {}


class T:
    name = "?"

    def sort(self):
        raise NotImplementedError

    def __repr__(self):
        return self.name

    def __eq__(self, o):
        return isinstance(o, T) and self.name == o.name

    def __hash__(self):
        return hash(self.name)


class _TInt(T):
    name = "int"

    def sort(self):
        return z3.IntSort()

    def wrap(self, e):
        return VInt(e)


class _TReal(T):
    name = "float"

    def sort(self):
        return z3.RealSort()

    def wrap(self, e):
        return VReal(e)


class _TBool(T):
    name = "bool"

    def sort(self):
        return z3.BoolSort()

    def wrap(self, e):
        return VBool(e)


class _TStr(T):
    name = "str"

    def sort(self):
        return z3.StringSort()

    def wrap(self, e):
        return VStr(e)


class _TNone(T):
    name = "None"

    def sort(self):
        return z3.BoolSort()

    def wrap(self, e):
        return VNone()


TInt, TReal, TBool, TStr, TNone = _TInt(), _TReal(), _TBool(), _TStr(), _TNone()


class TUn(T):
    """uninterpreted sort (generic K / V, opaque library values)"""

    def __init__(self, nm):
        self.name = "Un_" + nm
        self.nm = nm

    def sort(self):
        return z3.DeclareSort(self.nm)

    def wrap(self, e):
        return VUn(e, self)


def _safe(s):
    return "".join(c if c.isalnum() else "_" for c in s)


class TOpt(T):
    def __init__(self, inner):
        self.inner = inner
        self.name = "Opt[%s]" % inner.name
        key = self.name
        if key not in _DT_CACHE:
            d = z3.Datatype("Opt_" + _safe(inner.name))
            d.declare("none")
            d.declare("some", ("val", inner.sort()))
            _DT_CACHE[key] = d.create()
        self.dt = _DT_CACHE[key]

    def sort(self):
        return self.dt

    def wrap(self, e):
        return VOpt(e, self)

    def none(self):
        return self.dt.none

    def some(self, v):
        return self.dt.some(v)


class TTuple(T):
    def __init__(self, elems):
        self.elems = list(elems)
        self.name = "Tup[%s]" % ",".join(t.name for t in self.elems)
        key = self.name
        if key not in _DT_CACHE:
            d = z3.Datatype("Tup_" + _safe(self.name))
            d.declare("mk", *[("f%d" % i, t.sort()) for i, t in enumerate(self.elems)])
            _DT_CACHE[key] = d.create()
        self.dt = _DT_CACHE[key]

    def sort(self):
        return self.dt

    def acc(self, i, e):
        return getattr(self.dt, "f%d" % i)(e)

    def wrap(self, e):
        return VTuple([t.wrap(self.acc(i, e)) for i, t in enumerate(self.elems)], self)


class TRec(T):
    """frozen record (dataclass(frozen=True)-like value)."""

    def __init__(self, nm, fields, pyclass=None):
        self.nm = nm
        self.fields = dict(fields)  # ordered name -> T
        self.name = "Rec_" + nm
        self.pyclass = pyclass
        key = self.name
        if key not in _DT_CACHE:
            d = z3.Datatype("Rec_" + _safe(nm))
            d.declare("mk", *[(fn, ft.sort()) for fn, ft in self.fields.items()])
            _DT_CACHE[key] = d.create()
        self.dt = _DT_CACHE[key]

    def sort(self):
        return self.dt

    def acc(self, fname, e):
        return getattr(self.dt, fname)(e)

    def wrap(self, e):
        return VRec({fn: ft.wrap(self.acc(fn, e)) for fn, ft in self.fields.items()}, self)


class TList(T):
    def __init__(self, elem, kind="list"):
        self.elem = elem
        self.kind = kind
        self.name = "Seq[%s]" % elem.name
        key = self.name
        if key not in _DT_CACHE:
            d = z3.Datatype("Seq_" + _safe(elem.name))
            d.declare("mk", ("arr", z3.ArraySort(z3.IntSort(), elem.sort())), ("n", z3.IntSort()))
            _DT_CACHE[key] = d.create()
        self.dt = _DT_CACHE[key]

    def sort(self):
        return self.dt

    def wrap(self, e):
        return VSeq(self.dt.arr(e), self.dt.n(e), self.elem, self.kind)


class TMap(T):
    def __init__(self, k, v, ordered=False):
        self.k, self.v = k, v
        self.ordered = ordered
        self.name = "%s[%s,%s]" % ("OMap" if ordered else "Map", k.name, v.name)
        key = self.name
        if key not in _DT_CACHE:
            d = z3.Datatype(_safe(self.name))
            fs = [("dom", z3.ArraySort(k.sort(), z3.BoolSort())),
                  ("val", z3.ArraySort(k.sort(), v.sort())),
                  ("card", z3.IntSort())]
            if ordered:
                fs += [("oarr", z3.ArraySort(z3.IntSort(), k.sort()))]
            d.declare("mk", *fs)
            _DT_CACHE[key] = d.create()
        self.dt = _DT_CACHE[key]

    def sort(self):
        return self.dt

    def wrap(self, e):
        m = VMap(self.dt.dom(e), self.dt.val(e), self.dt.card(e), self.k, self.v)
        if self.ordered:
            m.order = VSeq(self.dt.oarr(e), self.dt.card(e), self.k, "list")
        return m


class TSet(T):
    def __init__(self, k):
        self.k = k
        self.name = "Set[%s]" % k.name
        key = self.name
        if key not in _DT_CACHE:
            d = z3.Datatype(_safe(self.name))
            d.declare("mk", ("dom", z3.ArraySort(k.sort(), z3.BoolSort())), ("card", z3.IntSort()))
            _DT_CACHE[key] = d.create()
        self.dt = _DT_CACHE[key]

    def sort(self):
        return self.dt

    def wrap(self, e):
        return VSet(self.dt.dom(e), self.dt.card(e), self.k)


class TObj(T):
    """heap object with declared mutable fields (not z3 encodable)."""

    def __init__(self, nm, fields, cls=None):
        self.nm = nm
        self.fields = dict(fields)
        self.name = "Obj_" + nm
        self.cls = cls  # (module, classname) for method resolution


class TFun(T):
    def __init__(self, cname):
        self.cname = cname
        self.name = "Fun_" + cname


# ---------------------------------------------------------------- values

class V:
    origin = None  # (parent container V, key z3 expr / python key)

    def writeback(self):
        o = self.origin
        if o is not None:
            parent, key = o
            parent.store_back(key, self)


class VInt(V):
    t = TInt

    def __init__(self, e):
        self.e = z3.IntVal(e) if isinstance(e, int) else e


class VReal(V):
    t = TReal

    def __init__(self, e):
        if isinstance(e, (int, float)):
            e = z3.RealVal(repr(e) if isinstance(e, float) else e)
        self.e = e


class VBool(V):
    t = TBool

    def __init__(self, e):
        self.e = z3.BoolVal(e) if isinstance(e, bool) else e


class VStr(V):
    t = TStr

    def __init__(self, e):
        self.e = z3.StringVal(e) if isinstance(e, str) else e

    def concrete(self):
        e = z3.simplify(self.e)
        if z3.is_string_value(e):
            return e.as_string()
        return None


class VUn(V):
    def __init__(self, e, t):
        self.e = e
        self.t = t


class VNone(V):
    t = TNone
    e = None


class VOpt(V):
    def __init__(self, e, t):
        self.e = e
        self.t = t

    def is_none(self):
        return self.t.dt.is_none(self.e)

    def val(self):
        v = self.t.inner.wrap(self.t.dt.val(self.e))
        return v


class VTuple(V):
    def __init__(self, items, t=None):
        self.items = list(items)
        self._t = t

    @property
    def t(self):
        if self._t is None:
            self._t = TTuple([typeof(x) for x in self.items])
        return self._t


class VRec(V):
    def __init__(self, fields, t):
        self.fields = dict(fields)
        self.t = t


class VSeq(V):
    def __init__(self, arr, n, et, kind="list"):
        self.arr, self.n, self.et, self.kind = arr, n, et, kind

    @property
    def t(self):
        return TList(self.et, self.kind)

    def get(self, i):
        v = self.et.wrap(z3.Select(self.arr, i))
        if isinstance(v, (VSeq, VMap, VSet)):
            v.origin = (self, i)
        return v

    def store_back(self, key, child):
        self.arr = z3.Store(self.arr, key, unwrap(child, self.et))
        self.writeback()


class VMap(V):
    order = None  # VSeq of keys when insertion order is modelled

    def __init__(self, dom, val, card, kt, vt):
        self.dom, self.val, self.card, self.kt, self.vt = dom, val, card, kt, vt

    @property
    def t(self):
        return TMap(self.kt, self.vt, ordered=self.order is not None)

    def get(self, k):
        v = self.vt.wrap(z3.Select(self.val, k))
        if isinstance(v, (VSeq, VMap, VSet)):
            v.origin = (self, k)
        return v

    def store_back(self, key, child):
        self.val = z3.Store(self.val, key, unwrap(child, self.vt))
        self.writeback()


class VSet(V):
    def __init__(self, dom, card, kt):
        self.dom, self.card, self.kt = dom, card, kt

    @property
    def t(self):
        return TSet(self.kt)


class VObj(V):
    """heap object: python identity, mutable named fields."""

    def __init__(self, cls, fields, tobj=None):
        self.cls = cls          # ClassInfo or name
        self.fields = dict(fields)
        self.tobj = tobj

    t = None


class VDictRec(V):
    """python dict with concrete string keys (TypedDict, kwargs, literal config dicts)."""

    def __init__(self, fields):
        self.fields = dict(fields)

    t = None


class VFunc(V):
    t = None

    def __init__(self, kind, name, node=None, module=None, closure=None, selfv=None,
                 contract=None, impl=None):
        self.kind = kind  # 'ast' | 'lambda' | 'param' | 'builtin' | 'method'
        self.name = name
        self.node = node
        self.module = module
        self.closure = closure
        self.selfv = selfv
        self.contract = contract
        self.impl = impl


class VClass(V):
    t = None

    def __init__(self, name, node=None, module=None, rec=None, exc_base=None):
        self.name = name
        self.node = node
        self.module = module
        self.rec = rec
        self.exc_base = exc_base


class VModule(V):
    t = None

    def __init__(self, name, info=None):
        self.name = name
        self.info = info


class VExc(V):
    t = None

    def __init__(self, cls, args=(), any_subclass=False):
        self.cls = cls            # class name (string)
        self.args = list(args)
        self.any_subclass = any_subclass


class VOpaque(V):
    """a python-side constant we do not interpret (e.g. a sentinel object())."""
    t = None

    def __init__(self, tag):
        self.tag = tag


class VUndef(V):
    """spec mode only: the value of a partial operation outside its domain (e.g. None[0]).
    Any predicate over it is an unconstrained boolean, so a clause that depends on it cannot be proved."""
    t = None


def typeof(v):
    if isinstance(v, (VInt, VReal, VBool, VStr, VNone)):
        return v.t
    if type(v).__name__ == "VDyn":
        return v.t
    if isinstance(v, (VUn, VOpt, VRec, VTuple, VSeq, VMap, VSet)):
        return v.t
    raise TypeError("value of %s has no encodable type" % type(v).__name__)


def unwrap(v, t):
    """V -> z3 expression of sort t.sort() (with coercions int->float, x->Optional[x], JSON-like -> Dyn)."""
    if t.name == "Dyn":
        from .dyn import to_dyn
        return to_dyn(v)
    if t.name == "DKey":
        from .dyn import key_code
        return key_code(v)
    if isinstance(t, TOpt):
        if isinstance(v, VNone):
            return t.none()
        if isinstance(v, VOpt):
            if v.t == t:
                return v.e
            raise TypeError("optional mismatch %s vs %s" % (v.t, t))
        return t.some(unwrap(v, t.inner))
    if t is TReal or isinstance(t, _TReal):
        if isinstance(v, VInt):
            return z3.ToReal(v.e)
        if isinstance(v, VBool):
            return z3.If(v.e, z3.RealVal(1), z3.RealVal(0))
        if isinstance(v, VReal):
            return v.e
    if isinstance(t, _TInt):
        if isinstance(v, VBool):
            return z3.If(v.e, z3.IntVal(1), z3.IntVal(0))
        if isinstance(v, VInt):
            return v.e
    if isinstance(t, _TBool) and isinstance(v, VBool):
        return v.e
    if isinstance(t, _TStr) and isinstance(v, VStr):
        return v.e
    if isinstance(t, _TNone):
        return z3.BoolVal(True)
    if isinstance(t, TUn) and isinstance(v, VUn) and v.t == t:
        return v.e
    if isinstance(t, TTuple) and isinstance(v, VTuple):
        if len(v.items) != len(t.elems):
            raise TypeError("tuple arity")
        return t.dt.mk(*[unwrap(x, et) for x, et in zip(v.items, t.elems)])
    if isinstance(t, TRec) and isinstance(v, VRec):
        if v.t.nm != t.nm:
            raise TypeError("record mismatch %s vs %s" % (v.t, t))
        return t.dt.mk(*[unwrap(v.fields[fn], ft) for fn, ft in t.fields.items()])
    if isinstance(t, TList) and type(v).__name__ == "VEmptyList":
        dflt = z3.Const("dflt_" + "".join(c if c.isalnum() else "_" for c in t.elem.name), t.elem.sort())
        return t.dt.mk(z3.K(z3.IntSort(), dflt), z3.IntVal(0))
    if isinstance(t, TList) and isinstance(v, VSeq):
        if v.et != t.elem:
            raise TypeError("list elem mismatch %s vs %s" % (v.et, t.elem))
        return t.dt.mk(v.arr, v.n)
    if isinstance(t, TMap) and isinstance(v, VMap):
        if v.kt != t.k or v.vt != t.v:
            raise TypeError("map mismatch")
        if t.ordered:
            return t.dt.mk(v.dom, v.val, v.card, v.order.arr)
        return t.dt.mk(v.dom, v.val, v.card)
    if isinstance(t, TSet) and isinstance(v, VSet):
        return t.dt.mk(v.dom, v.card)
    raise TypeError("cannot encode %s as %s" % (type(v).__name__, t))


# ---------------------------------------------------------------- type parsing

class TypeEnv:
    def __init__(self):
        self.named = {"int": TInt, "float": TReal, "Real": TReal, "bool": TBool, "str": TStr,
                      "None": TNone}
        from .dyn import TDyn
        self.named["Dyn"] = TDyn

    def declare(self, name, t):
        self.named[name] = t

    def parse(self, s):
        if isinstance(s, T):
            return s
        return self._p(ast.parse(s.strip(), mode="eval").body)

    def _p(self, n):
        if isinstance(n, ast.Constant) and n.value is None:
            return TNone
        if isinstance(n, ast.Name):
            if n.id in self.named:
                return self.named[n.id]
            raise KeyError("unknown type %s" % n.id)
        if isinstance(n, ast.Subscript):
            head = n.value.id
            args = n.slice.elts if isinstance(n.slice, ast.Tuple) else [n.slice]
            if head == "Optional":
                return TOpt(self._p(args[0]))
            if head in ("List", "list", "Seq"):
                return TList(self._p(args[0]))
            if head in ("Deque", "deque"):
                return TList(self._p(args[0]), "deque")
            if head in ("Dict", "dict", "Map"):
                return TMap(self._p(args[0]), self._p(args[1]))
            if head in ("OrderedDict", "OMap"):
                return TMap(self._p(args[0]), self._p(args[1]), ordered=True)
            if head in ("Set", "set"):
                return TSet(self._p(args[0]))
            if head in ("Tuple", "tuple"):
                return TTuple([self._p(a) for a in args])
            if head == "Un":
                return TUn(args[0].id)
        raise KeyError("cannot parse type %s" % ast.dump(n))
