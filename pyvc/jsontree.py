"""A small python-side model of JSON objects with symbolic string keys, for *bounded* checks (C07).

A JSON tree is not a value the engine can encode as one z3 term (it is recursive and heterogeneous), and z3's
string theory turned out to be far too slow on the word equations that `".".join` / `str.split(".")` produce
(seconds per feasibility query, see ENGINE_GUIDE).  So the tree and its keys are kept on the python side:

  * `VWStr`   -- a *string* in separator normal form: the non-empty list of its maximal "."-free words,
                 s = w0 + "." + w1 + ... (every string has exactly one such decomposition; "" is [""], "." is
                 ["", ""], "a.b" is ["a", "b"]).  The number of words is concrete on a path; each word is a
                 symbolic integer id (z3 Int, 0 is the empty word).  `".".join` is list concatenation,
                 `split(".")` is the list itself, equality is pointwise equality of ids.  Ordering (`sorted`)
                 is the lexicographic order of the id lists: this is the python string order provided every
                 character other than "." sorts after "." (letters, digits, non-ASCII: yes; ' !"#$%&()*+,-' no)
                 -- the one restriction of this encoding, recorded as an assumption.
  * `VJDict`  -- a python dict with python identity (aliasing and in-place mutation are exact).  On one
                 execution path it has a concrete number of entries; keys are `VWStr`/`VStr` values, pairwise
                 different on that path (facts of the path condition).  Values: nested `VJDict`s or atoms.
  * atoms     -- any non-dict JSON value (number, string, null, list).  The codec under verification only
                 compares them with ==/!= and tests `isinstance(x, dict)`, so an atom is abstracted to the
                 integer id of its ==-class (`VInt`).
  * `VJSet`, `VJList` -- python-side finite set / list of such values (concrete size per path).

Every operation whose outcome depends on symbolic keys (lookup, insertion, set difference/intersection,
sorting, truthiness of a string) *forks* the path on the deciding comparison (`Path.branch`), so the path
condition is quantifier-free linear integer arithmetic and z3 returns concrete counter-models in milliseconds.
Nothing here is used by the unbounded contracts: these values only come into existence through `jtree(...)`
inputs, through locals declared with the types `JObj` / `JList`, or through operations on such values.
"""
from __future__ import annotations
import ast
import z3

from .values import *  # noqa
from .values import VNone  # noqa
from .core import *  # noqa

MAX_WORD_ID = 26


class TJObj(T):
    """type name `JObj`: python-side JSON object (not z3-encodable)"""
    name = "JObj"


class TJList(T):
    """type name `JList`: python-side list of python-side values"""
    name = "JList"


class VWStr(V):
    t = None

    def __init__(self, words):
        self.words = [z3.IntVal(w) if isinstance(w, int) else w for w in words]
        assert self.words


class VJDict(V):
    t = None

    def __init__(self, slots=()):
        self.slots = [[k, v] for k, v in slots]     # [key V (VWStr | VStr), value V]


class VJSet(V):
    t = None

    def __init__(self, items=()):
        self.items = list(items)                    # key values, pairwise different on the path


class VJList(V):
    t = None
    kind = "list"

    def __init__(self, items=()):
        self.items = list(items)


def is_j(v):
    return isinstance(v, (VWStr, VJDict, VJSet, VJList))


# ------------------------------------------------------------------ strings in separator normal form

def w_eq(a, b):
    if len(a.words) != len(b.words):
        return z3.BoolVal(False)
    return z3.And([x == y for x, y in zip(a.words, b.words)])


def _lex(xs, ys, strict):
    if not xs:
        return z3.BoolVal(len(ys) > 0 or not strict)
    if not ys:
        return z3.BoolVal(False)
    return z3.Or(xs[0] < ys[0], z3.And(xs[0] == ys[0], _lex(xs[1:], ys[1:], strict)))


def w_lt(I, a, b, strict):
    I.ver.note_assumption("bounded JSON model: keys are compared in separator normal form, i.e. every key character "
                          "other than '.' is assumed to sort after '.'")
    return _lex(a.words, b.words, strict)


def w_truth(a):
    if len(a.words) > 1:
        return z3.BoolVal(True)
    return a.words[0] != 0


def from_const(s):
    """concrete python strings that have a meaning in the abstraction: only words that are empty"""
    parts = s.split(".")
    if any(parts):
        return None
    return VWStr([0] * len(parts))


def as_w(v):
    if isinstance(v, VWStr):
        return v
    if isinstance(v, VStr):
        c = const_of(v)
        if isinstance(c, str):
            return from_const(c)
    return None


def str_eq(I, a, b):
    """a == b where at least one side is a VWStr"""
    wa, wb = as_w(a), as_w(b)
    if wa is None or wb is None:
        if isinstance(a, (VWStr, VStr)) and isinstance(b, (VWStr, VStr)):
            raise Unsupported("comparison of an abstract key with a concrete string")
        return z3.BoolVal(False)
    return w_eq(wa, wb)


def w_join(I, sep, items):
    if const_of(sep) != ".":
        raise Unsupported("join of abstract keys with a separator other than '.'")
    words = []
    for x in items:
        w = as_w(x)
        if w is None:
            raise Unsupported("join of abstract keys with %s" % type(x).__name__)
        words.extend(w.words)
    return VWStr(words)


def w_method(I, s, name, args, kw):
    if name == "split" and len(args) == 1 and const_of(args[0]) == "." and not kw:
        return VJList([VWStr([w]) for w in s.words])
    raise Unsupported("str.%s on an abstract key" % name)


def word_text(i):
    if i <= 0:
        return ""
    if i >= MAX_WORD_ID:
        return "é" * (i - MAX_WORD_ID + 1)
    return chr(ord("a") + i - 1)


# ------------------------------------------------------------------ construction of symbolic inputs

def fresh_key(I, hint, maxwords):
    """a fresh symbolic string with 1..maxwords words; the word count is decided by forking (the first path
    explored has one-word keys)"""
    n = 1
    while n < maxwords:
        single = I.path.fresh("%s_w%d_last" % (hint, n), z3.BoolSort())
        if I.path.branch(single):
            break
        n += 1
    ws = []
    for j in range(n):
        w = I.path.fresh("%s_w%d" % (hint, j), z3.IntSort())
        I.path.assume(z3.And(w >= 0, w <= MAX_WORD_ID))
        ws.append(w)
    return VWStr(ws)


def _build(I, hint, shape, pos, maxwords):
    if isinstance(shape, (list, tuple)):
        d = VJDict()
        for j, sub in enumerate(shape):
            k = fresh_key(I, "%s_k%s%d" % (hint, pos, j), maxwords)
            for k2, _ in d.slots:
                I.path.assume(z3.Not(w_eq(k2, k)))
            d.slots.append([k, _build(I, hint, sub, "%s%d_" % (pos, j), maxwords)])
        return d
    if shape == 0:
        return VInt(I.path.fresh("%s_a%s" % (hint, pos), z3.IntSort()))
    if shape is None:
        return VNone()          # the JSON null atom (a key that is present and holds null)
    raise Unsupported("jtree shape element %r" % (shape,))


def sp_jtree(I, args, kw):
    """jtree(hint, shape, maxwords=2): a fresh symbolic JSON object of the given concrete shape.  `shape` is a
    python literal in a string: a list is an object whose entries have the listed shapes, 0 is an atom;
    e.g. '[[0], 0]' = {k0: {k00: atom}, k1: atom} with k0 != k1.  Keys are arbitrary strings with at most
    maxwords-1 separators; atoms are unconstrained."""
    hint = const_of(args[0])
    shape = ast.literal_eval(const_of(args[1]))
    maxwords = const_of(args[2]) if len(args) > 2 else 2
    if not isinstance(shape, (list, tuple)):
        raise Unsupported("jtree: top level must be an object")
    I.ver.note_assumption("bounded JSON model: at most %d distinct key words; keys have at most %d '.'-separated words"
                          % (MAX_WORD_ID, maxwords))
    return _build(I, hint, shape, "", maxwords)


def sp_jtree_oneof(I, args, kw):
    """jtree_oneof(hint, 'shape1|shape2|...', maxwords=2): a fresh symbolic JSON object whose shape is one of the
    listed alternatives; the choice is a fork of the path (the first path explored takes the first shape)"""
    hint = const_of(args[0])
    alts = [a for a in const_of(args[1]).split("|") if a.strip()]
    rest = list(args[2:])
    for i, a in enumerate(alts[:-1]):
        pick = I.path.fresh("%s_shape%d" % (hint, i), z3.BoolSort())
        if I.path.branch(pick):
            return sp_jtree(I, [args[0], VStr(a)] + rest, kw)
    return sp_jtree(I, [args[0], VStr(alts[-1])] + rest, kw)


def all_keys(v, out=None):
    out = [] if out is None else out
    if isinstance(v, VJDict):
        for k, x in v.slots:
            out.append(k)
            all_keys(x, out)
    return out


def sp_jkeys_dotfree(I, args, kw):
    """no key anywhere in the tree contains the path separator"""
    return VBool(all(len(k.words) == 1 for k in all_keys(args[0]) if isinstance(k, VWStr)))


def sp_jkeys_nonempty(I, args, kw):
    return VBool(z3.And([w_truth(k) for k in all_keys(args[0]) if isinstance(k, VWStr)] + [z3.BoolVal(True)]))


def sp_jkey(I, args, kw):
    """jkey(hint, maxwords=2): a fresh symbolic string with at most maxwords-1 separators"""
    return fresh_key(I, const_of(args[0]), const_of(args[1]) if len(args) > 1 else 2)


def _walk_path(I, d, path):
    """follow the '.'-separated words of `path` through nested objects (case split on the matching entries)"""
    cur = d
    for w in path.words:
        if not isinstance(cur, VJDict):
            return None
        idx = find(I, cur, VWStr([w]))
        if idx is None:
            return None
        cur = cur.slots[idx][1]
    return cur


def sp_jpath_get(I, args, kw):
    """jpath_get(d, path): the value reached by following path.split('.') from d (undefined when not resolvable)"""
    r = _walk_path(I, args[0], args[1])
    return VUndef() if r is None else r


def sp_jpath_has(I, args, kw):
    return VBool(_walk_path(I, args[0], args[1]) is not None)


SPEC_FUNCS = {"jkey": sp_jkey, "jpath_get": sp_jpath_get, "jpath_has": sp_jpath_has,
              "jtree": sp_jtree, "jtree_oneof": sp_jtree_oneof, "jkeys_dotfree": sp_jkeys_dotfree, "jkeys_nonempty": sp_jkeys_nonempty}


# ------------------------------------------------------------------ dict primitives (exec mode forks)

def is_empty_literal(v):
    return isinstance(v, VDictRec) and not v.fields


def as_jdict(v):
    """an empty `{}` literal (VDictRec) behaves as an empty JSON object"""
    if isinstance(v, VJDict):
        return v
    if is_empty_literal(v):
        return VJDict()
    return None


def _is_key(k):
    return isinstance(k, (VWStr, VStr))


def find(I, d, k):
    """index of the entry whose key equals k (forks once per candidate entry), or None"""
    if not _is_key(k):
        return None
    for idx, (ke, _) in enumerate(d.slots):
        if ke is k or I.path.branch(I.eq(ke, k)):
            return idx
    return None


def contains(I, d, k):
    if not _is_key(k):
        return z3.BoolVal(False)
    return z3.Or([I.eq(ke, k) for ke, _ in d.slots] + [z3.BoolVal(False)])


def subscript(I, d, k):
    if I.spec:
        raise Unsupported("JObj subscript in a specification")
    idx = find(I, d, k)
    if idx is None:
        I.raise_exc("KeyError", "missing key")
    return d.slots[idx][1]


def store(I, d, k, v):
    if not _is_key(k):
        raise Unsupported("JObj store with a non-string key")
    idx = find(I, d, k)
    if idx is None:
        d.slots.append([k, v])
    else:
        d.slots[idx][1] = v


def delete(I, d, k):
    idx = find(I, d, k)
    if idx is None:
        I.raise_exc("KeyError", "del missing key")
    del d.slots[idx]


def method(I, d, name, args, kw):
    from . import builtins as B
    if name == "get":
        default = args[1] if len(args) > 1 else kw.get("default", VNone())
        idx = find(I, d, I.force(args[0]))
        return default if idx is None else d.slots[idx][1]
    if name in ("keys", "values", "items"):
        return B.VMapView(d, name)
    if name == "pop":
        idx = find(I, d, I.force(args[0]))
        if idx is None:
            if len(args) > 1:
                return args[1]
            I.raise_exc("KeyError", "pop missing key")
        return d.slots.pop(idx)[1]
    if name == "setdefault":
        idx = find(I, d, I.force(args[0]))
        if idx is None:
            d.slots.append([args[0], args[1] if len(args) > 1 else VNone()])
            return d.slots[-1][1]
        return d.slots[idx][1]
    if name == "update":
        other = as_jdict(I.force(args[0])) if args else None
        if other is None:
            raise Unsupported("JObj.update with %s" % (type(args[0]).__name__ if args else "kwargs"))
        for ke, v in list(other.slots):
            store(I, d, ke, v)
        return VNone()
    if name == "clear":
        d.slots[:] = []
        return VNone()
    if name == "copy":
        return VJDict(d.slots)
    raise Unsupported("JObj.%s" % name)


def view_items(I, view):
    d = view.m
    if view.kind == "keys":
        return [k for k, _ in d.slots]
    if view.kind == "values":
        return [v for _, v in d.slots]
    return [VTuple([k, v]) for k, v in d.slots]


# ------------------------------------------------------------------ sets, lists, sorting

def to_set(I, v):
    """set(d.keys()) / set(d)"""
    from . import builtins as B
    if isinstance(v, B.VMapView) and v.kind == "keys":
        v = v.m
    if isinstance(v, VJDict):
        return VJSet([k for k, _ in v.slots])
    if isinstance(v, VJSet):
        return VJSet(v.items)
    if isinstance(v, VDictRec):
        return VJSet([VStr(k) for k in v.fields])
    return None


def set_binop(I, op, a, b):
    xs = a.items if isinstance(a, VJSet) else []
    ys = b.items if isinstance(b, VJSet) else []

    def member(x, zs):
        for y in zs:
            if x is y or I.path.branch(I.eq(x, y)):
                return True
        return False
    if isinstance(op, ast.Sub):
        return VJSet([x for x in xs if not member(x, ys)])
    if isinstance(op, ast.BitAnd):
        return VJSet([x for x in xs if member(x, ys)])
    if isinstance(op, ast.BitOr):
        return VJSet(list(xs) + [y for y in ys if not member(y, xs)])
    raise Unsupported("set operator %s" % type(op).__name__)


def set_contains(I, s, x):
    return z3.Or([I.eq(k, x) for k in s.items] + [z3.BoolVal(False)])


def sort_values(I, items):
    """sorted() of a concrete number of symbolic values: insertion sort, one fork per comparison (stable)"""
    out = []
    for x in items:
        pos = len(out)
        while pos > 0 and I.path.branch(I.lt(x, out[pos - 1], True)):
            pos -= 1
        out.insert(pos, x)
    return out


def sorted_of(I, v):
    """sorted(VJSet | VJList | keys view of a JObj | JObj) -> VJList, or None when v is something else"""
    from . import builtins as B
    if isinstance(v, VJSet):
        return VJList(sort_values(I, v.items))
    if isinstance(v, VJList):
        return VJList(sort_values(I, v.items))
    if isinstance(v, B.VMapView) and isinstance(v.m, VJDict):
        return VJList(sort_values(I, view_items(I, v)))
    if isinstance(v, VJDict):
        return VJList(sort_values(I, [k for k, _ in v.slots]))
    return None


def _const_index(k, n):
    c = const_of(k)
    if not isinstance(c, int) or isinstance(c, bool):
        raise Unsupported("symbolic index into a python-side list")
    return c


def list_subscript(I, o, k):
    c = _const_index(k, len(o.items))
    if -len(o.items) <= c < len(o.items):
        return o.items[c]
    I.raise_exc("IndexError", "list index out of range")


def list_slice(I, o, lo, hi):
    cl = None if lo is None or isinstance(lo, VNone) else _const_index(lo, 0)
    ch = None if hi is None or isinstance(hi, VNone) else _const_index(hi, 0)
    return VJList(o.items[cl:ch])


def list_items_of(I, v):
    if isinstance(v, (VJList, VTuple)):
        return list(v.items)
    if type(v).__name__ == "VEmptyList":
        return []
    return None


def list_method(I, o, name, args, kw):
    if name == "append":
        o.items.append(args[0])
        return VNone()
    if name == "extend":
        xs = list_items_of(I, I.force(args[0]))
        if xs is None:
            raise Unsupported("JList.extend with %s" % type(args[0]).__name__)
        o.items.extend(xs)
        return VNone()
    if name == "copy":
        return VJList(o.items)
    if name == "clear":
        o.items[:] = []
        return VNone()
    if name == "pop" and not args:
        if not o.items:
            I.raise_exc("IndexError", "pop from empty list")
        return o.items.pop()
    if name == "sort" and not kw:
        o.items[:] = sort_values(I, o.items)
        return VNone()
    raise Unsupported("JList.%s" % name)


# ------------------------------------------------------------------ equality, cloning, reporting

def eq(I, a, b):
    """structural == involving at least one python-side JSON value"""
    if isinstance(a, VWStr) or isinstance(b, VWStr):
        return str_eq(I, a, b)
    if isinstance(a, VJList) or isinstance(b, VJList):
        xs, ys = list_items_of(I, a), list_items_of(I, b)
        if xs is None or ys is None or isinstance(a, VTuple) or isinstance(b, VTuple) or len(xs) != len(ys):
            return z3.BoolVal(False)
        return z3.And([I.eq(x, y) for x, y in zip(xs, ys)] + [z3.BoolVal(True)])
    da, db = as_jdict(a), as_jdict(b)
    if da is None or db is None:
        return z3.BoolVal(False)
    if len(da.slots) != len(db.slots):
        # keys of one object are pairwise different, so equal key sets have equal sizes
        return z3.BoolVal(False)
    conj = []
    for ka, va in da.slots:
        conj.append(z3.Or([z3.And(I.eq(ka, kb), I.eq(va, vb)) for kb, vb in db.slots] + [z3.BoolVal(False)]))
    return z3.And(conj + [z3.BoolVal(True)])


def truth(I, v):
    if isinstance(v, VWStr):
        return w_truth(v)
    if isinstance(v, VJDict):
        return z3.BoolVal(len(v.slots) > 0)
    return z3.BoolVal(len(v.items) > 0)


def clone(I, v, memo):
    if isinstance(v, VJDict):
        c = VJDict()
        memo[id(v)] = c
        for k, x in v.slots:
            c.slots.append([k, I.clone_value(x, memo)])
        return c
    if isinstance(v, VJList):
        c = VJList()
        memo[id(v)] = c
        c.items = [I.clone_value(x, memo) for x in v.items]
        return c
    memo[id(v)] = v
    return v


def deepcopy(I, v, memo=None):
    """copy.deepcopy on the JSON model: new identities for every object, atoms shared (immutable)"""
    memo = {} if memo is None else memo
    if id(v) in memo:
        return memo[id(v)]
    if isinstance(v, VJDict):
        c = VJDict()
        memo[id(v)] = c
        for k, x in v.slots:
            c.slots.append([k, deepcopy(I, x, memo)])
        return c
    if isinstance(v, VJList):
        c = VJList()
        memo[id(v)] = c
        c.items = [deepcopy(I, x, memo) for x in v.items]
        return c
    if isinstance(v, VDictRec):
        c = VDictRec({})
        memo[id(v)] = c
        for k, x in v.fields.items():
            c.fields[k] = deepcopy(I, x, memo)
        return c
    if isinstance(v, VSeq):
        return VSeq(v.arr, v.n, v.et, v.kind)      # encodable elements are values: a copy of the wrapper is deep
    if isinstance(v, VMap):
        from . import builtins as B
        return B.bi_dict(I, [v], {})
    if isinstance(v, VSet):
        return VSet(v.dom, v.card, v.kt)
    if isinstance(v, VTuple):
        return VTuple([deepcopy(I, x, memo) for x in v.items], v._t)
    if isinstance(v, (VObj,)):
        raise Unsupported("deepcopy of a heap object")
    return v


def concretize(v, model, cz):
    if isinstance(v, VWStr):
        ids = []
        for w in v.words:
            r = model.eval(w, model_completion=True)
            ids.append(r.as_long() if z3.is_int_value(r) else 0)
        return ".".join(word_text(i) for i in ids)
    if isinstance(v, VJDict):
        return {"$jobj": [[cz(k, model), cz(x, model)] for k, x in v.slots]}
    if isinstance(v, VJList):
        return {"$jlist": [cz(x, model) for x in v.items]}
    return {"$jset": [cz(x, model) for x in v.items]}
