"""`Dyn`: dynamically typed JSON-like python values (what json.loads returns, what `Dict[str, Any]` bundles hold).

    Dyn ::= None | bool | int | float(real) | str | list[Dyn] | dict[str, Dyn]

encoded as one z3 algebraic datatype `JV` that is recursive through arrays (created through the SMT-LIB front
end, the python Datatype API cannot express the nesting).  Values outside this universe (tuples, sets, bytes,
arbitrary objects, dicts with non-string keys, NaN/inf) are NOT covered by a contract that types an input `Dyn`.

Modelling decisions (all conservative):
  * a VDyn is an immutable term.  Executing code looks at it through `view` (exec mode: forks on the runtime tag,
    like Optional values are forced).  Lists/dicts obtained that way are read-only views: a mutation through such
    a view is reported as a failed obligation `<fn>/frame:dyn-value-not-mutated` (inputs typed Dyn are thereby
    proved unchanged whenever the check is green).  `list(x)` / `dict(x)` give ordinary mutable copies.
  * python `==` on Dyn: numbers compare numerically across bool/int/float, strings/None structurally, different
    kinds are unequal, containers through the uninterpreted predicate `dyn_py_eq` (only reflexivity is known).
  * ordering of Dyn values (sort keys): numbers numerically, strings lexicographically, anything else is a
    TypeError in exec mode and an uninterpreted relation in spec mode.
  * dict keys are encoded as integer *key codes* (`DKey`): z3 needs seconds to build models of String-indexed arrays
    (0.05 s with Int indices).  `dyn_skey : String -> Int` / `dyn_kstr : Int -> String` are assumed to be mutually
    inverse bijections (strings are countable), string constants get fixed small codes.  A dict view is a
    VMap[DKey, Dyn]; DKey wraps back to a python string (`dyn_kstr(code)`), so iterating keys yields strings.
  * well-formedness (`wf`): the datatype's carrier also contains ill-formed terms (negative lengths), so no
    universally quantified axiom is used; instead, for every Dyn term the interpretation looks at (inputs, json.loads
    results, elements read out of them) it assumes  len(list) >= 0, len(dict) >= 0, len(dict) == 0 <=> no key.
"""
from __future__ import annotations
import z3

from .values import *  # noqa
from .values import T, V

_SRC = """
(declare-datatypes ((JV 0)) ((
  (jnull)
  (jbool (jb Bool))
  (jint (ji Int))
  (jreal (jr Real))
  (jstr (js String))
  (jlist (larr (Array Int JV)) (ln Int))
  (jdict (ddom (Array Int Bool)) (dval (Array Int JV)) (dcard Int))
)))
(declare-const jv_probe JV)
(assert (= jv_probe jv_probe))
"""
JV = z3.parse_smt2_string(_SRC)[0].arg(0).sort()
(jnull, jbool, jint, jreal, jstr, jlist, jdict) = [JV.constructor(i) for i in range(7)]
(is_null, is_bool, is_int, is_real, is_str, is_list, is_dict) = [JV.recognizer(i) for i in range(7)]
jb, ji, jr, js = JV.accessor(1, 0), JV.accessor(2, 0), JV.accessor(3, 0), JV.accessor(4, 0)
larr, ln = JV.accessor(5, 0), JV.accessor(5, 1)
ddom, dval, dcard = JV.accessor(6, 0), JV.accessor(6, 1), JV.accessor(6, 2)
JNULL = jnull()


skey = z3.Function("dyn_skey", z3.StringSort(), z3.IntSort())
kstr = z3.Function("dyn_kstr", z3.IntSort(), z3.StringSort())
CODES = {}          # string constant -> key code (process wide, assigned at first use)
CURRENT_I = None    # the interpreter of the path being executed (set by Interp.__init__)


class _TDKey(T):
    """key of a Dyn dict: an integer code standing for a python string"""
    name = "DKey"

    def sort(self):
        return z3.IntSort()

    def wrap(self, e):
        return VStr(kstr(e))


TDKey = _TDKey()


def _key_axioms(p):
    if getattr(p, "_dyn_key_axioms", False):
        return
    p._dyn_key_axioms = True
    x = z3.String("dk_s")
    i = z3.Int("dk_i")
    p.assume_bg(z3.ForAll([x], kstr(skey(x)) == x, patterns=[skey(x)]))
    p.assume_bg(z3.ForAll([i], skey(kstr(i)) == i, patterns=[kstr(i)]))
    if CURRENT_I is not None:
        CURRENT_I.ver.note_assumption("Dyn dict keys are integer codes: dyn_skey/dyn_kstr are mutually inverse bijections "
                                      "between strings and integers (string constants have fixed codes)")


def key_code(v):
    """z3 Int term: the key code of a python string value (TypeError for non-strings: never a key of a Dyn dict)"""
    if not isinstance(v, VStr):
        raise TypeError("key of a Dyn dict must be a string")
    p = CURRENT_I.path if CURRENT_I is not None else None
    if p is not None:
        _key_axioms(p)
    c = v.concrete()
    if c is None:
        return skey(v.e)
    if c not in CODES:
        CODES[c] = len(CODES) + 1
    code = z3.IntVal(CODES[c])
    if p is not None:
        done = getattr(p, "_dyn_key_consts", None)
        if done is None:
            done = p._dyn_key_consts = set()
        if c not in done:
            done.add(c)
            p.assume(z3.And(skey(z3.StringVal(c)) == code, kstr(code) == z3.StringVal(c)))
    return code


def key_seq_to_str(keys):
    """a listing of key codes (VSeq of DKey) as the list of python strings"""
    i = z3.Int("ks_i")
    return VSeq(z3.Lambda([i], kstr(z3.Select(keys.arr, i))), keys.n, TStr, "list")


class _TDyn(T):
    name = "Dyn"

    def sort(self):
        return JV

    def wrap(self, e):
        return VDyn(e)


TDyn = _TDyn()


class VDyn(V):
    t = TDyn

    def __init__(self, e):
        self.e = e
        self._view = None


def is_num(e):
    return z3.Or(is_int(e), is_bool(e), is_real(e))


def num(e):
    """numeric value (as a real) of a bool/int/float Dyn; unspecified otherwise"""
    return z3.If(is_int(e), z3.ToReal(ji(e)), z3.If(is_bool(e), z3.If(jb(e), z3.RealVal(1), z3.RealVal(0)), jr(e)))


def to_dyn(v):
    """V -> z3 term of sort JV (injection of an ordinary value into Dyn); TypeError when not JSON-like"""
    if isinstance(v, VDyn):
        return v.e
    if isinstance(v, VNone):
        return JNULL
    if isinstance(v, VBool):
        return jbool(v.e)
    if isinstance(v, VInt):
        return jint(v.e)
    if isinstance(v, VReal):
        return jreal(v.e)
    if isinstance(v, VStr):
        return jstr(v.e)
    if isinstance(v, VOpt):
        return z3.If(v.is_none(), JNULL, to_dyn(v.val()))
    if type(v).__name__ == "VEmptyList":
        return jlist(z3.K(z3.IntSort(), JNULL), z3.IntVal(0))
    if isinstance(v, VSeq):
        if v.kind != "list":
            raise TypeError("deque/tuple is not a JSON-like value")
        if v.et == TDyn:
            return jlist(v.arr, v.n)
        i = z3.Int("td_i")
        return jlist(z3.Lambda([i], to_dyn(v.et.wrap(z3.Select(v.arr, i)))), v.n)
    if isinstance(v, VMap):
        k = z3.Int("td_k")
        if v.kt is TDKey:
            if v.vt == TDyn:
                return jdict(v.dom, v.val, v.card)
            return jdict(v.dom, z3.Lambda([k], to_dyn(v.vt.wrap(z3.Select(v.val, k)))), v.card)
        if v.kt is not TStr:
            raise TypeError("dict with non-string keys is not a JSON-like value")
        if CURRENT_I is not None:
            _key_axioms(CURRENT_I.path)
        return jdict(z3.Lambda([k], z3.Select(v.dom, kstr(k))),
                     z3.Lambda([k], to_dyn(v.vt.wrap(z3.Select(v.val, kstr(k))))), v.card)
    if isinstance(v, VDictRec):
        dom = z3.K(z3.IntSort(), z3.BoolVal(False))
        val = z3.K(z3.IntSort(), JNULL)
        for k2, x in v.fields.items():
            kc = key_code(VStr(k2))
            dom = z3.Store(dom, kc, z3.BoolVal(True))
            val = z3.Store(val, kc, to_dyn(x))
        return jdict(dom, val, z3.IntVal(len(v.fields)))
    raise TypeError("cannot encode %s as Dyn" % type(v).__name__)


def wf(I, e):
    """well-formedness of the Dyn term e, assumed when the interpretation first looks at it (type invariant of the
    JSON-like values: the datatype's carrier also contains terms with negative lengths, which no python value has)"""
    p = I.path
    seen = getattr(p, "_dyn_wf", None)
    if seen is None:
        seen = p._dyn_wf = {}
        I.ver.note_assumption("Dyn values are well-formed JSON-like values: len(list) >= 0, len(dict) >= 0, "
                              "a dict with a key has len >= 1; floats are reals (no NaN/inf)")
    if I.spec and (I.q_ctx or I.binders):
        return                # inside a quantifier: a fact about the bound constant would be useless
    if e.get_id() in seen:
        return
    seen[e.get_id()] = e      # keeps the term alive: z3 recycles ids of freed terms
    if z3.is_app(e) and e.decl().kind() == z3.Z3_OP_DT_CONSTRUCTOR and e.decl().name() not in ("jlist", "jdict"):
        return
    p.assume(z3.Implies(is_list(e), ln(e) >= 0))
    p.assume(z3.Implies(is_dict(e), dcard(e) >= 0))


def key_fact(I, m, kk):
    """reading key kk of a dict view of a Dyn value: a dict that has the key is not empty (the instance of
    `len(d) == 0 iff no key` that truthiness tests need; kept quantifier free)"""
    if getattr(m, "from_dyn", False) and not (I.spec and (I.q_ctx or I.binders)):
        I.path.assume(z3.Implies(z3.Select(m.dom, kk), m.card >= 1))


class _Frozen:
    """parent of a read-only view: any write-back is a frame violation"""

    def __init__(self, I):
        self.I = I

    def store_back(self, key, child):
        I = self.I
        I.path.prove(z3.BoolVal(False), "%s/frame:dyn-value-not-mutated" % I.cur_obl_prefix(), "frame",
                     where="a list/dict reached through a Dyn value (input) is mutated in place")


def _mk_view(I, e, tag):
    if tag == "dict":
        v = VMap(ddom(e), dval(e), dcard(e), TDKey, TDyn)
        v.origin = (_Frozen(I), None)
        v.from_dyn = True
        return v
    if tag == "list":
        v = VSeq(larr(e), ln(e), TDyn, "list")
        v.origin = (_Frozen(I), None)
        return v
    if tag == "str":
        return VStr(js(e))
    if tag == "int":
        return VInt(ji(e))
    if tag == "real":
        return VReal(jr(e))
    if tag == "bool":
        return VBool(jb(e))
    return VNone()


_TAGS = [("dict", is_dict), ("list", is_list), ("str", is_str), ("int", is_int), ("real", is_real), ("bool", is_bool)]


def view(I, v):
    """exec mode: decide the runtime type of a Dyn value by branching and return the ordinary value"""
    if v._view is not None:
        return v._view
    e = z3.simplify(v.e)
    wf(I, e)
    out = None
    for tag, rec in _TAGS:
        if I.path.branch(rec(e)):
            out = _mk_view(I, e, tag)
            break
    if out is None:
        out = VNone()
    v._view = out
    return out


NATIVE_ATTRS = {
    "dict": {"get", "keys", "values", "items", "setdefault", "pop", "popitem", "update", "clear", "copy", "fromkeys"},
    "list": {"append", "extend", "insert", "pop", "remove", "clear", "index", "count", "sort", "reverse", "copy"},
    "str": {"lower", "upper", "strip", "lstrip", "rstrip", "split", "rsplit", "join", "startswith", "endswith", "format",
            "replace", "encode", "isdigit", "isalpha", "isalnum", "isspace", "splitlines", "find", "rfind", "index",
            "rindex", "count", "title", "capitalize", "casefold", "zfill", "partition", "rpartition", "swapcase",
            "center", "ljust", "rjust", "expandtabs", "islower", "isupper", "isnumeric", "isdecimal", "isidentifier",
            "removeprefix", "removesuffix", "translate", "format_map", "istitle", "isascii", "isprintable", "maketrans"},
}
# attributes of int/float/bool/None objects: not modelled
_NUM_ATTRS = {"real", "imag", "numerator", "denominator", "bit_length", "bit_count", "conjugate", "is_integer", "hex",
              "as_integer_ratio", "to_bytes", "from_bytes", "fromhex"}
_RECS = None


def exec_tag_view(I, v, tag):
    """exec mode: one two-way branch `is the value a <tag>?`; the view when it is, None when it is not"""
    rec = {"dict": is_dict, "list": is_list, "str": is_str}[tag]
    cache = getattr(v, "_pviews", None)
    if cache is None:
        cache = v._pviews = {}
    if tag in cache:
        return cache[tag]
    e = z3.simplify(v.e)
    wf(I, e)
    out = _mk_view(I, e, tag) if I.path.branch(rec(e)) else None
    cache[tag] = out
    return out


def exec_attr_view(I, v, name):
    """exec mode attribute access on a Dyn value: the ordinary value that owns attribute `name`, or None when the
    runtime value has no such attribute (the caller raises AttributeError / uses the getattr default)"""
    if name.startswith("__") or name in _NUM_ATTRS:
        raise Unsupported("attribute %s of a Dyn value" % name)
    owners = [t for t in ("dict", "list", "str") if name in NATIVE_ATTRS[t]]
    if not owners:
        return None
    if len(owners) == 1:
        return exec_tag_view(I, v, owners[0])
    o = view(I, v)
    if isinstance(o, VMap):
        return o if "dict" in owners else None
    if isinstance(o, VSeq):
        return o if "list" in owners else None
    if isinstance(o, VStr):
        return o if "str" in owners else None
    return None


def spec_view(I, v, tag):
    """spec mode: look at a Dyn value as if it had the given type (unspecified payload when it has not)"""
    wf(I, v.e)
    return _mk_view(I, v.e, tag)


def spec_view_for_attr(I, v, name, STR_METHODS, MAP_METHODS, SEQ_METHODS):
    if name in MAP_METHODS and name not in ("pop", "clear", "copy", "update"):
        return spec_view(I, v, "dict")
    if name in STR_METHODS:
        return spec_view(I, v, "str")
    if name in SEQ_METHODS:
        return spec_view(I, v, "list")
    if name in MAP_METHODS:
        return spec_view(I, v, "dict")
    raise Unsupported("attribute %s of a Dyn value in a specification" % name)


def truth(v):
    e = v.e
    return z3.If(is_null(e), z3.BoolVal(False),
                 z3.If(is_bool(e), jb(e),
                       z3.If(is_int(e), ji(e) != 0,
                             z3.If(is_real(e), jr(e) != 0,
                                   z3.If(is_str(e), z3.Length(js(e)) > 0,
                                         z3.If(is_list(e), ln(e) > 0, dcard(e) > 0))))))


def isinstance_cond(v, names):
    e = v.e
    cs = []
    for nm in names:
        if nm == "object":
            return z3.BoolVal(True)
        if nm == "str":
            cs.append(is_str(e))
        elif nm == "int":
            cs.append(z3.Or(is_int(e), is_bool(e)))
        elif nm == "bool":
            cs.append(is_bool(e))
        elif nm == "float":
            cs.append(is_real(e))
        elif nm in ("dict", "Mapping", "MutableMapping"):
            cs.append(is_dict(e))
        elif nm == "list":
            cs.append(is_list(e))
        elif nm == "Sequence":
            cs.append(z3.Or(is_list(e), is_str(e)))
        elif nm == "NoneType":
            cs.append(is_null(e))
        # every other class (tuple, set, bytes, user classes): never an instance, Dyn holds JSON-like values only
    return z3.Or(cs) if cs else z3.BoolVal(False)


def length(I, v):
    """len(x) as a total term (unspecified for values without len)"""
    e = v.e
    wf(I, e)
    und = z3.Function("dyn_len_undef", JV, z3.IntSort())
    return z3.If(is_str(e), z3.Length(js(e)), z3.If(is_list(e), ln(e), z3.If(is_dict(e), dcard(e), und(e))))


def has_len(v):
    e = v.e
    return z3.Or(is_str(e), is_list(e), is_dict(e))


def py_eq(I, a, b):
    """python == where at least one side is a VDyn"""
    if not isinstance(a, VDyn):
        a, b = b, a
    e = a.e
    if isinstance(b, VNone):
        return is_null(e)
    if isinstance(b, VStr):
        return z3.And(is_str(e), js(e) == b.e)
    if isinstance(b, (VInt, VBool, VReal)):
        from .core import to_real
        return z3.And(is_num(e), num(e) == to_real(b))
    if isinstance(b, VOpt):
        return z3.If(b.is_none(), is_null(e), py_eq(I, a, b.val()))
    if isinstance(b, VDyn):
        f = b.e
        if e.eq(f):
            return z3.BoolVal(True)
        peq = z3.Function("dyn_py_eq", JV, JV, z3.BoolSort())
        return z3.If(z3.And(is_num(e), is_num(f)), num(e) == num(f),
                     z3.If(z3.And(is_str(e), is_str(f)), js(e) == js(f),
                           z3.If(z3.And(is_null(e), is_null(f)), z3.BoolVal(True),
                                 z3.If(z3.And(is_list(e), is_list(f)), z3.Or(e == f, peq(e, f)),
                                       z3.If(z3.And(is_dict(e), is_dict(f)), z3.Or(e == f, peq(e, f)),
                                             z3.BoolVal(False))))))
    if type(b).__name__ == "VEmptyList":
        return z3.And(is_list(e), ln(e) == 0)
    if isinstance(b, VDictRec) and not b.fields:
        return z3.And(is_dict(e), dcard(e) == 0)
    if isinstance(b, (VSeq, VMap, VDictRec)):
        if I.spec:
            raise Unsupported("== between a Dyn value and a container in a specification")
        return I.eq(view(I, a), b)
    return z3.BoolVal(False)


def comparable(a, b):
    """both numbers or both strings: the cases in which python orders two Dyn values"""
    return z3.Or(z3.And(is_num(a), is_num(b)), z3.And(is_str(a), is_str(b)))


def py_lt(I, a, b, strict):
    """spec-mode ordering of two Dyn terms (numbers numerically, strings lexicographically, otherwise an
    uninterpreted relation: python raises TypeError there, see `sort_key_defined`)"""
    e, f = to_dyn(a), to_dyn(b)
    ule = z3.Function("dyn_le_undef", JV, JV, z3.BoolSort())
    nlt = (num(e) < num(f)) if strict else (num(e) <= num(f))
    slt = (js(e) < js(f)) if strict else (js(e) <= js(f))
    return z3.If(z3.And(is_num(e), is_num(f)), nlt, z3.If(z3.And(is_str(e), is_str(f)), slt, ule(e, f)))


def float_terms(e):
    """(defined?, value) of float(x): numbers convert numerically, a string through the uninterpreted pair
    str_float_ok / str_float_val (python's float literal syntax is not modelled), anything else is a TypeError"""
    fok = z3.Function("str_float_ok", z3.StringSort(), z3.BoolSort())
    fval = z3.Function("str_float_val", z3.StringSort(), z3.RealSort())
    return z3.Or(is_num(e), z3.And(is_str(e), fok(js(e)))), z3.If(is_num(e), num(e), fval(js(e)))


def int_terms(I, e):
    """(defined?, value) of int(x): bool/int exact, float truncated toward zero, str through int_parses/int_value"""
    from .builtins import int_parse_terms, real_to_int_trunc
    ip, iv = int_parse_terms(I, js(e))
    ok = z3.Or(is_int(e), is_bool(e), is_real(e), z3.And(is_str(e), ip))
    val = z3.If(is_int(e), ji(e), z3.If(is_bool(e), z3.If(jb(e), z3.IntVal(1), z3.IntVal(0)),
                                        z3.If(is_real(e), real_to_int_trunc(jr(e)), iv)))
    return ok, val


def _convert(I, v, ok, val, wrap):
    if I.spec:
        return wrap(val)
    if I.path.branch(ok):
        return wrap(val)
    if I.path.branch(is_str(v.e)):
        I.raise_exc("ValueError", "could not convert string")
    I.raise_exc("TypeError", "argument must be a string or a number")


def to_float(I, v):
    """float(x) for a Dyn value (exec mode: one branch on definedness; spec mode: the total term)"""
    ok, val = float_terms(v.e)
    return _convert(I, v, ok, val, VReal)


def to_int(I, v):
    ok, val = int_terms(I, v.e)
    return _convert(I, v, ok, val, VInt)


def to_str_term(I, v):
    """str(x) as a total term: identity on strings, uninterpreted function of the value otherwise"""
    e = v.e
    f = z3.Function("dyn_str", JV, z3.StringSort())
    return z3.If(is_str(e), js(e), f(e))


# ------------------------------------------------------------------ spec-language builtins

def _dy(args):
    v = args[0]
    if isinstance(v, VDyn):
        return v
    if isinstance(v, VUndef):
        from .interp import SpecUndef
        raise SpecUndef("Dyn predicate over an undefined value")
    return VDyn(to_dyn(v))


def _mk_is(rec):
    return lambda I, args, kw: VBool(rec(_dy(args).e))


def sp_as_str(I, args, kw):
    return spec_view(I, _dy(args), "str")


def sp_as_list(I, args, kw):
    return spec_view(I, _dy(args), "list")


def sp_as_dict(I, args, kw):
    return spec_view(I, _dy(args), "dict")


def sp_as_int(I, args, kw):
    return spec_view(I, _dy(args), "int")


def sp_as_bool(I, args, kw):
    return spec_view(I, _dy(args), "bool")


def sp_as_float(I, args, kw):
    return VReal(num(_dy(args).e))


def sp_dyn(I, args, kw):
    return _dy(args)


def sp_dyn_float(I, args, kw):
    return VReal(float_terms(_dy(args).e)[1])


def sp_dyn_float_ok(I, args, kw):
    return VBool(float_terms(_dy(args).e)[0])


def sp_dyn_int(I, args, kw):
    return VInt(int_terms(I, _dy(args).e)[1])


def sp_dyn_int_ok(I, args, kw):
    return VBool(int_terms(I, _dy(args).e)[0])


def sp_dyn_str(I, args, kw):
    return VStr(to_str_term(I, _dy(args)))


def sp_dyn_truthy(I, args, kw):
    return VBool(truth(_dy(args)))


def sp_dyn_same(I, args, kw):
    """structural identity of two Dyn values (stronger than python ==)"""
    return VBool(to_dyn(args[0]) == to_dyn(args[1]))


SPEC_FUNCS = {
    "is_str": _mk_is(is_str), "is_list": _mk_is(is_list), "is_dict": _mk_is(is_dict), "is_int": _mk_is(is_int),
    "is_bool": _mk_is(is_bool), "is_float": _mk_is(is_real), "is_null": _mk_is(is_null),
    "is_number": lambda I, args, kw: VBool(is_num(_dy(args).e)),
    "as_str": sp_as_str, "as_list": sp_as_list, "as_dict": sp_as_dict, "as_int": sp_as_int, "as_bool": sp_as_bool,
    "as_float": sp_as_float, "dyn": sp_dyn, "dyn_same": sp_dyn_same,
    "dyn_float": sp_dyn_float, "dyn_float_ok": sp_dyn_float_ok, "dyn_int": sp_dyn_int, "dyn_int_ok": sp_dyn_int_ok,
    "dyn_str": sp_dyn_str, "dyn_truthy": sp_dyn_truthy,
}


# ------------------------------------------------------------------ counter-model decoding

def concretize(v, model, depth=0):
    e = model.eval(v.e, model_completion=True)
    return _cz(e, model, depth)


def _cz(e, model, depth):
    if depth > 6:
        return {"$dyn": str(e)[:200]}
    try:
        ev = lambda x: model.eval(x, model_completion=True)
        if z3.is_true(ev(is_null(e))):
            return None
        if z3.is_true(ev(is_bool(e))):
            return z3.is_true(ev(jb(e)))
        if z3.is_true(ev(is_int(e))):
            r = ev(ji(e))
            return r.as_long() if z3.is_int_value(r) else str(r)
        if z3.is_true(ev(is_real(e))):
            r = ev(jr(e))
            if z3.is_rational_value(r):
                return {"$real": [str(r.numerator_as_long()), str(r.denominator_as_long())]}
            return {"$real_str": str(r)}
        if z3.is_true(ev(is_str(e))):
            r = ev(js(e))
            return r.as_string() if z3.is_string_value(r) else str(r)
        if z3.is_true(ev(is_list(e))):
            n = ev(ln(e))
            n = n.as_long() if z3.is_int_value(n) else 0
            return {"$seq": [_cz(ev(z3.Select(larr(e), z3.IntVal(i))), model, depth + 1) for i in range(min(max(n, 0), 8))],
                    "len": n, "kind": "list"}
        if z3.is_true(ev(is_dict(e))):
            from .concretize import walk_array
            keys = []
            seen = set()

            def add(k):
                if str(k) not in seen:
                    seen.add(str(k))
                    keys.append(k)
            walk_array(ev(ddom(e)), z3.IntSort(), add)
            walk_array(ev(dval(e)), z3.IntSort(), add)
            rev = {}
            for kc, code in CODES.items():
                rev[code] = kc
                add(z3.IntVal(code))
            items = []
            for k in keys[:60]:
                if z3.is_true(ev(z3.Select(ddom(e), k))):
                    kv = ev(k)
                    code = kv.as_long() if z3.is_int_value(kv) else None
                    if code in rev:
                        name = rev[code]
                    else:
                        ks = ev(kstr(k))
                        name = ks.as_string() if z3.is_string_value(ks) else "key#%s" % kv
                    items.append([name, _cz(ev(z3.Select(dval(e), k)), model, depth + 1)])
            c = ev(dcard(e))
            return {"$map": items, "card": c.as_long() if z3.is_int_value(c) else None}
    except Exception as ex:  # pragma: no cover
        return {"$dyn_error": repr(ex)}
    return {"$dyn": str(e)[:200]}


from .core import Unsupported  # noqa: E402  (core imports values only)
