"""Native evaluation of spec expressions (runs under /venv/bin/python, no z3).

Used (a) to replay a counter-model against the real code: the violated clause is evaluated on the values the
real function produced; (b) for the encoder cross-check: models of a contract's precondition are run through the
real function and every *proved* postcondition must also hold natively (a disagreement is a checker bug).
Quantifiers range over the finite candidate sets visible in the environment (list indices, dict keys, strings /
ints occurring in the inputs and outputs), which is exact for the index- and key-bounded clauses used here.
"""
from __future__ import annotations
import ast
import copy
import os


class Undef(Exception):
    pass


class SpecEnv:
    def __init__(self, vars, old=None, specs=None, ufs=None):
        self.vars = vars
        self.old = old
        self.specs = specs or {}
        self.ufs = ufs or {}


def load_spec_functions(path):
    tree = ast.parse(open(path).read())
    out = {}
    for st in tree.body:
        if isinstance(st, ast.FunctionDef):
            out[st.name] = st
    return out


def candidates(env, kind):
    """finite candidate universe for a typed binder"""
    seen = []

    def walk(v, depth=0):
        if depth > 6:
            return
        if isinstance(v, dict):
            for k, x in v.items():
                walk(k, depth + 1)
                walk(x, depth + 1)
        elif isinstance(v, (list, tuple, set, frozenset)) or type(v).__name__ == "deque":
            for x in v:
                walk(x, depth + 1)
        elif hasattr(v, "__dict__") and not callable(v):
            for x in vars(v).values():
                walk(x, depth + 1)
        else:
            seen.append(v)

    for v in list(env.vars.values()) + (list(env.old.values()) if env.old else []):
        walk(v)
    if kind == "str":
        xs = sorted({x for x in seen if isinstance(x, str)})
        return xs + ["\u0001fresh"]
    if kind == "int":
        xs = sorted({x for x in seen if isinstance(x, int) and not isinstance(x, bool)})
        return sorted(set(xs + [x + 1 for x in xs] + [x - 1 for x in xs] + [0, -1, 1]))
    if kind == "float":
        xs = sorted({float(x) for x in seen if isinstance(x, (int, float)) and not isinstance(x, bool)})
        return xs + [0.0, 1.0, -1.0]
    xs = []
    for x in seen:
        try:
            if x not in xs:
                xs.append(x)
        except Exception:
            pass
    return xs


def int_range(cond, name, env, bind):
    """bounds for an integer binder from its range condition (falls back to a window around container sizes)"""
    lo, hi = None, None
    for n in ast.walk(cond):
        if isinstance(n, ast.Compare):
            items = [n.left] + list(n.comparators)
            for a, op, b in zip(items, n.ops, items[1:]):
                try:
                    if isinstance(b, ast.Name) and b.id == name and isinstance(op, (ast.LtE, ast.Lt)):
                        v = ev(a, env, bind)
                        lo = max(lo, v + (1 if isinstance(op, ast.Lt) else 0)) if lo is not None else v + (1 if isinstance(op, ast.Lt) else 0)
                    if isinstance(a, ast.Name) and a.id == name and isinstance(op, (ast.Lt, ast.LtE)):
                        v = ev(b, env, bind)
                        hi = min(hi, v + (1 if isinstance(op, ast.LtE) else 0)) if hi is not None else v + (1 if isinstance(op, ast.LtE) else 0)
                except Undef:
                    pass
                except Exception:
                    pass
    sizes = [0]

    def walk(v, d=0):
        if d > 4:
            return
        if isinstance(v, (list, tuple, dict, set)) or type(v).__name__ == "deque":
            sizes.append(len(v))
            for x in (v.values() if isinstance(v, dict) else v):
                walk(x, d + 1)
        elif hasattr(v, "__dict__") and not callable(v):
            for x in vars(v).values():
                walk(x, d + 1)

    for v in list(env.vars.values()) + (list(env.old.values()) if env.old else []):
        walk(v)
    m = max(sizes) + 2
    if lo is None:
        lo = -2
    if hi is None:
        hi = m
    lo, hi = max(lo, -m - 50), min(hi, m + 50)
    return range(int(lo), int(hi))


def ev(n, env, bind):
    if isinstance(n, ast.Constant):
        return n.value
    if isinstance(n, ast.Name):
        if n.id in bind:
            return bind[n.id]
        if n.id in env.vars:
            return env.vars[n.id]
        if n.id in ("True", "False", "None"):
            return {"True": True, "False": False, "None": None}[n.id]
        raise Undef("name %s" % n.id)
    if isinstance(n, ast.Tuple):
        return tuple(ev(e, env, bind) for e in n.elts)
    if isinstance(n, ast.List):
        return [ev(e, env, bind) for e in n.elts]
    if isinstance(n, ast.BoolOp):
        if isinstance(n.op, ast.And):
            r = True
            for v in n.values:
                r = ev(v, env, bind)
                if not r:
                    return r
            return r
        r = False
        for v in n.values:
            r = ev(v, env, bind)
            if r:
                return r
        return r
    if isinstance(n, ast.UnaryOp):
        v = ev(n.operand, env, bind)
        if isinstance(n.op, ast.Not):
            return not v
        if isinstance(n.op, ast.USub):
            return -v
        return +v
    if isinstance(n, ast.IfExp):
        return ev(n.body, env, bind) if ev(n.test, env, bind) else ev(n.orelse, env, bind)
    if isinstance(n, ast.BinOp):
        a, b = ev(n.left, env, bind), ev(n.right, env, bind)
        op = n.op
        try:
            if isinstance(op, ast.Add):
                return a + b
            if isinstance(op, ast.Sub):
                return a - b
            if isinstance(op, ast.Mult):
                return a * b
            if isinstance(op, ast.Div):
                return a / b
            if isinstance(op, ast.FloorDiv):
                return a // b
            if isinstance(op, ast.Mod):
                return a % b
            if isinstance(op, ast.Pow):
                return a ** b
        except Exception as ex:
            raise Undef(repr(ex))
    if isinstance(n, ast.Compare):
        left = ev(n.left, env, bind)
        for op, rn in zip(n.ops, n.comparators):
            right = ev(rn, env, bind)
            try:
                if isinstance(op, ast.Eq):
                    ok = left == right
                elif isinstance(op, ast.NotEq):
                    ok = left != right
                elif isinstance(op, ast.Lt):
                    ok = left < right
                elif isinstance(op, ast.LtE):
                    ok = left <= right
                elif isinstance(op, ast.Gt):
                    ok = left > right
                elif isinstance(op, ast.GtE):
                    ok = left >= right
                elif isinstance(op, ast.In):
                    ok = left in right
                elif isinstance(op, ast.NotIn):
                    ok = left not in right
                elif isinstance(op, ast.Is):
                    ok = left is right
                elif isinstance(op, ast.IsNot):
                    ok = left is not right
                else:
                    raise Undef("cmp")
            except TypeError as ex:
                raise Undef(repr(ex))
            if not ok:
                return False
            left = right
        return True
    if isinstance(n, ast.Attribute):
        o = ev(n.value, env, bind)
        if isinstance(o, dict) and n.attr in o and not hasattr(dict, n.attr):
            return o[n.attr]
        try:
            return getattr(o, n.attr)
        except Exception as ex:
            raise Undef(repr(ex))
    if isinstance(n, ast.Subscript):
        o = ev(n.value, env, bind)
        if isinstance(n.slice, ast.Slice):
            lo = ev(n.slice.lower, env, bind) if n.slice.lower else None
            hi = ev(n.slice.upper, env, bind) if n.slice.upper else None
            return list(o)[lo:hi]
        k = ev(n.slice, env, bind)
        try:
            if type(o).__name__ == "deque":
                return list(o)[k]
            return o[k]
        except Exception as ex:
            raise Undef(repr(ex))
    if isinstance(n, ast.Call):
        return call(n, env, bind)
    raise Undef("expr %s" % type(n).__name__)


def truthy(v):
    return bool(v)


def call(n, env, bind):
    f = n.func
    name = f.id if isinstance(f, ast.Name) else None
    if name in ("forall", "exists"):
        vn = n.args[0]
        if isinstance(vn, ast.Tuple):
            bname, kind = vn.elts[0].id, vn.elts[1].value
        else:
            bname, kind = vn.id, "int"
        if kind == "int":
            cands = int_range(n.args[1], bname, env, bind)
        else:
            base = kind.split("[")[0]
            cands = candidates(env, {"str": "str", "float": "float", "int": "int"}.get(base, "any"))
        res = (name == "forall")
        for c in cands:
            b2 = dict(bind)
            b2[bname] = c
            try:
                if not truthy(ev(n.args[1], env, b2)):
                    continue
                body = truthy(ev(n.args[2], env, b2))
            except Undef:
                continue
            if name == "forall" and not body:
                return False
            if name == "exists" and body:
                return True
        return res
    if name == "forall2":
        b1, b2n = n.args[0].id, n.args[1].id
        r = int_range(n.args[2], b1, env, bind)
        for x in r:
            for y in int_range(n.args[2], b2n, env, dict(bind, **{b1: x})):
                bb = dict(bind)
                bb[b1], bb[b2n] = x, y
                try:
                    if truthy(ev(n.args[2], env, bb)) and not truthy(ev(n.args[3], env, bb)):
                        return False
                except Undef:
                    continue
        return True
    if name == "implies":
        try:
            a = truthy(ev(n.args[0], env, bind))
        except Undef:
            a = True
        return (not a) or truthy(ev(n.args[1], env, bind))
    if name == "ite":
        return ev(n.args[1], env, bind) if truthy(ev(n.args[0], env, bind)) else ev(n.args[2], env, bind)
    if name == "old":
        if env.old is None:
            raise Undef("old")
        return ev(n.args[0], SpecEnv(env.old, None, env.specs, env.ufs), bind)
    if name == "is_none":
        return ev(n.args[0], env, bind) is None
    if name in ("some", "truthy", "to_real"):
        v = ev(n.args[0], env, bind)
        return bool(v) if name == "truthy" else v
    if name == "present":
        return ev(n.args[0], env, bind) is not None
    if name == "seq_eq":
        a, b = ev(n.args[0], env, bind), ev(n.args[1], env, bind)
        if type(a).__name__ == "deque":
            a = list(a)
        if type(b).__name__ == "deque":
            b = list(b)
        return a == b
    if name == "same_obj":
        return ev(n.args[0], env, bind) is ev(n.args[1], env, bind)
    if name == "msum":
        m = ev(n.args[0], env, bind)
        agg = n.args[1].value
        fexpr = env.ufs.get("__agg__", {}).get(agg)
        if fexpr is None:
            raise Undef("aggregate " + agg)
        node = ast.parse(fexpr, mode="eval").body
        return sum(ev(node, SpecEnv({"v": v}, None, env.specs, env.ufs), {}) for v in m.values())
    if name == "int_parses":
        s = ev(n.args[0], env, bind)
        try:
            int(s)
            return True
        except Exception:
            return False
    if name == "int_value":
        try:
            return int(ev(n.args[0], env, bind))
        except Exception as ex:
            raise Undef(repr(ex))
    if name in ("len", "abs", "min", "max", "int", "float", "str", "bool", "sorted", "list", "tuple", "set", "sum", "round"):
        args = [ev(a, env, bind) for a in n.args]
        try:
            return {"len": len, "abs": abs, "min": min, "max": max, "int": int, "float": float, "str": str, "bool": bool,
                    "sorted": sorted, "list": list, "tuple": tuple, "set": set, "sum": sum, "round": round}[name](*args)
        except Exception as ex:
            raise Undef(repr(ex))
    if name in env.ufs and callable(env.ufs[name]):
        return env.ufs[name](*[ev(a, env, bind) for a in n.args])
    if name in env.specs:
        fn = env.specs[name]
        params = [a.arg for a in fn.args.args]
        loc = dict(zip(params, [ev(a, env, bind) for a in n.args]))
        return eval_body(fn.body, SpecEnv(loc, env.old, env.specs, env.ufs))
    if isinstance(f, ast.Attribute):
        o = ev(f.value, env, bind)
        args = [ev(a, env, bind) for a in n.args]
        try:
            return getattr(o, f.attr)(*args)
        except Exception as ex:
            raise Undef(repr(ex))
    raise Undef("call %s" % ast.unparse(n)[:40])


def eval_body(stmts, env):
    for st in stmts:
        if isinstance(st, ast.Expr) and isinstance(st.value, ast.Constant):
            continue
        if isinstance(st, ast.Return):
            return ev(st.value, env, {})
        if isinstance(st, ast.Assign) and isinstance(st.targets[0], ast.Name):
            env.vars[st.targets[0].id] = ev(st.value, env, {})
            continue
        if isinstance(st, ast.If):
            if truthy(ev(st.test, env, {})):
                r = eval_body(st.body, env)
            else:
                r = eval_body(st.orelse, env) if st.orelse else _NORET
            if r is not _NORET:
                return r
            continue
        raise Undef("stmt")
    return _NORET


_NORET = object()


def eval_clause(src, vars, old=None, specs=None, ufs=None):
    """-> True / False / None (undefined natively)"""
    node = ast.parse(src.strip(), mode="eval").body
    try:
        return bool(ev(node, SpecEnv(vars, old, specs, ufs), {}))
    except Undef:
        return None
