"""Runs under /venv/bin/python with PYTHONPATH=$VERIF_REPO:/verif : replays a counter-model on the real code."""
import importlib
import json
import sys
import traceback
from fractions import Fraction


def decode(x):
    if isinstance(x, dict):
        if "$real" in x:
            return float(Fraction(int(x["$real"][0]), int(x["$real"][1])))
        if "$real_approx" in x:
            return float(x["$real_approx"].rstrip("?"))
        if "$tuple" in x:
            return tuple(decode(y) for y in x["$tuple"])
        if "$seq" in x:
            return [decode(y) for y in x["$seq"]]
        if "$map" in x:
            return {_h(decode(k)): decode(v) for k, v in x["$map"]}
        if "$set" in x:
            return set(_h(decode(k)) for k in x["$set"])
        if "$un" in x:
            return x["$un"]
        if "$rec" in x:
            return {"$rec": x["$rec"], **{k: decode(v) for k, v in x["fields"].items()}}
        if "$obj" in x:
            return {"$obj": x["$obj"], **{k: decode(v) for k, v in x["fields"].items()}}
        if "$dict" in x:
            return {k: decode(v) for k, v in x["$dict"].items()}
        return x
    if isinstance(x, list):
        return [decode(y) for y in x]
    return x


def _h(k):
    return tuple(k) if isinstance(k, list) else k


def main():
    doc = json.load(open(sys.argv[1]))
    b = doc.get("builder")
    if not b:
        print("REPLAY: no-builder")
        return
    modname, fn = b.split(":")
    mod = importlib.import_module("replay_builders." + modname)
    inputs = {k: decode(v) for k, v in (doc.get("inputs") or {}).items()}
    try:
        ok, detail = getattr(mod, fn)(inputs, doc)
    except Exception:
        traceback.print_exc()
        print("REPLAY: error")
        return
    print("detail:", detail)
    # ok == True means the real code satisfied the clause on this input
    print("REPLAY:", "not-reproduced" if ok else "confirmed")


if __name__ == "__main__":
    main()
