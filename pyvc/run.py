"""check driver: ./check <Cxx> [--tier quick|thorough]  |  ./check --replay <file>

exit 0 held · 1 violation (VIOLATION line printed) · 2 undecided (engine limitation) · 3 checker crash
"""
from __future__ import annotations
import argparse
import importlib
import json
import multiprocessing as mp
import os
import subprocess
import sys
import time
import traceback

ROOT = os.path.dirname(os.path.dirname(os.path.abspath(__file__)))
sys.path.insert(0, ROOT)
sys.setrecursionlimit(20000)

CONTRACT_MODULES = ["c15_lru"]


def load_registry():
    from pyvc.verifier import REG
    if getattr(REG, "_loaded", False):
        return REG
    REG.spec_source(os.path.join(ROOT, "contracts", "specs.py"))
    import pkgutil
    import contracts
    names = sorted(m.name for m in pkgutil.iter_modules(contracts.__path__) if m.name != "specs" and not m.name.startswith("_"))
    for m in names:
        importlib.import_module("contracts." + m)
    REG._loaded = True
    return REG


def _work(args):
    idx, timeout_ms, tier = args
    from pyvc.verifier import Verifier
    REG = load_registry()
    c = REG.variants[idx]
    t0 = time.time()
    try:
        ver = Verifier(REG, timeout_ms=timeout_ms)
        ver.tier = tier
        r = ver.verify(c)
        obs = []
        for ob in r.pop("obligations"):
            obs.append({"name": ob.name, "kind": ob.kind, "status": ob.status, "detail": ob.detail,
                        "model": ob.model, "inputs": ob.inputs, "path": ob.path, "seconds": round(ob.seconds, 4),
                        "backend": ob.backend, "where": ob.where})
        r["obligations"] = obs
        r["assumptions"] = sorted(ver.assumptions)
        r["idx"] = idx
        r["replay"] = c.replay
        return r
    except Exception:
        return {"idx": idx, "key": c.key, "short": c.short, "prop": c.prop, "mode": c.mode, "crash": traceback.format_exc(),
                "obligations": [], "errors": [], "assumptions": [], "wall_s": time.time() - t0, "paths": 0,
                "queries": 0, "solver_s": 0, "exits": 0, "source_sha": "", "lines": (0, 0), "bounded_loops": [],
                "bounds_hit": [], "replay": None}


def summarize(results):
    """per obligation name -> aggregated status over all paths"""
    agg = {}
    for r in results:
        for ob in r["obligations"]:
            a = agg.setdefault(ob["name"], {"name": ob["name"], "key": r["key"], "contract": r["short"], "kind": ob["kind"],
                                            "mode": r["mode"], "vcs": 0, "proved": 0, "failed": 0, "unknown": 0,
                                            "seconds": 0.0, "backends": set(), "where": ob["where"], "witness": None,
                                            "replay": r.get("replay")})
            a["vcs"] += 1
            a[ob["status"]] += 1
            a["seconds"] += ob["seconds"]
            a["backends"].add(ob["backend"])
            if ob["status"] == "failed" and a["witness"] is None:
                a["witness"] = ob
            if ob["status"] == "unknown" and a["witness"] is None:
                a["witness"] = ob
    return agg


def main(argv=None):
    ap = argparse.ArgumentParser()
    ap.add_argument("prop", nargs="?")
    ap.add_argument("--tier", default=os.environ.get("VERIF_TIER", "quick"))
    ap.add_argument("--replay")
    ap.add_argument("--filter", default="")
    ap.add_argument("--jobs", type=int, default=int(os.environ.get("VERIF_JOBS", "14")))
    ap.add_argument("--no-evidence", action="store_true")
    a = ap.parse_args(argv)
    if a.replay:
        from pyvc.replay import run_replay_file
        return run_replay_file(a.replay)
    from pyvc.report import finish
    t0 = time.time()
    REG = load_registry()
    timeout_ms = 20000 if a.tier == "quick" else 120000
    idxs = [i for i, c in enumerate(REG.variants) if a.prop in c.prop and a.filter in (c.key + "#" + c.short)]
    lemma_results = []
    fcl = [c for c in REG.fclauses if a.prop in c["prop"] and a.filter in c["name"] + c["key"]]
    if not idxs and not [l for l in REG.lemmas if l[1] == a.prop] and not fcl:
        print("no contracts registered for", a.prop)
        return 2
    ctx = mp.get_context("fork")
    results = []
    if idxs:
        with ctx.Pool(min(a.jobs, max(1, len(idxs)))) as pool:
            results = pool.map(_work, [(i, timeout_ms, a.tier) for i in idxs], chunksize=1)
    from pyvc.lemmas import run_lemmas
    lemma_results = run_lemmas(REG, a.prop, timeout_ms) if not a.filter else []
    from pyvc.effects import run_clause
    for c in fcl:
        try:
            rs = run_clause(c)
        except Exception:
            rs = [{"name": c["name"], "status": "error", "detail": traceback.format_exc(), "where": "", "seconds": 0.0, "backend": "engine-F"}]
        for r in rs:
            r["name"] = "F/" + r["name"]
            r["fkey"] = c["key"]
            lemma_results.append(r)
    return finish(a.prop, a.tier, REG, results, lemma_results, time.time() - t0, write_evidence=not a.no_evidence)


if __name__ == "__main__":
    try:
        rc = main()
    except SystemExit:
        raise
    except Exception:
        traceback.print_exc()
        rc = 3
    sys.exit(rc)
