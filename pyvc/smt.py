"""Portfolio fallback: when z3's API answers `unknown`, the goal is dumped as SMT-LIB and tried
with /usr/bin/cvc5 (--strings-exp) and the z3-new CLI."""
from __future__ import annotations
import os
import subprocess
import tempfile
import z3


def goal_smt2(pc, p):
    s = z3.Solver()
    for f in pc:
        s.add(f)
    s.add(z3.Not(p))
    return s.to_smt2()


def run_cli(cmd, text, timeout_s):
    with tempfile.NamedTemporaryFile("w", suffix=".smt2", delete=False) as f:
        f.write(text)
        name = f.name
    try:
        r = subprocess.run(cmd + [name], capture_output=True, text=True, timeout=timeout_s + 5)
        out = (r.stdout or "").strip().splitlines()
        return out[0].strip() if out else "unknown"
    except Exception:
        return "unknown"
    finally:
        try:
            os.unlink(name)
        except OSError:
            pass


def fallback_prove(pc, p, timeout_ms):
    if os.environ.get("PYVC_NO_FALLBACK"):
        return False, None
    text = goal_smt2(pc, p)
    t = max(2, int(timeout_ms / 1000))
    r = run_cli(["/usr/bin/cvc5", "--strings-exp", "--tlimit=%d" % (t * 1000)], text.replace("(set-info :status unknown)", "(set-logic ALL)"), t)
    if r == "unsat":
        return True, "cvc5"
    r = run_cli(["z3-new", "-T:%d" % t], text, t)
    if r == "unsat":
        return True, "z3-new"
    return False, None
