"""Trusted contracts of names imported from outside the repository (stdlib)."""
from __future__ import annotations
import z3
from .values import *  # noqa
from .core import *  # noqa
from . import builtins as B


def _sqrt(I, args, kw):
    x = to_real(args[0])
    I.require_defined(x >= 0, "ValueError", "math domain error")
    r = I.path.fresh("sqrt", z3.RealSort())
    I.path.assume(z3.And(r >= 0, I.ver.mul_real(r, r) == x))
    return VReal(r)


def _nondet_real(tag):
    def f(I, args, kw):
        I.ver.note_assumption("%s() is an arbitrary real (nondeterministic clock)" % tag)
        return VReal(I.path.fresh(tag.replace(".", "_"), z3.RealSort()))
    return f


def _isfinite(I, args, kw):
    # reals are always finite under A-REAL
    return VBool(True)


def _isnan(I, args, kw):
    return VBool(False)


def _np_asarray(I, args, kw):
    """numpy.asarray(v, dtype=...) on an opaque vector value: the same abstract vector (the float32 cast is part of
    the numeric layer that the contracts treat as uninterpreted)."""
    I.ver.note_assumption("numpy.asarray(v, dtype) returns the same abstract vector value (numerics are uninterpreted)")
    v = args[0]
    if isinstance(v, VOpt) and I.spec:
        return v.val()
    return I.force(v)


def _np_stack(I, args, kw):
    """numpy.stack(list of vectors, axis=0): an opaque matrix value, a function of the list of (abstract) vectors"""
    xs = args[0] if I.spec else I.force(args[0])
    if not isinstance(xs, VSeq):
        raise Unsupported("numpy.stack of %s" % type(xs).__name__)
    t = xs.t
    f = z3.Function("np_stack_" + "".join(c if c.isalnum() else "_" for c in t.name), t.sort(), TUn("NpMat").sort())
    I.ver.note_assumption("numpy.stack / numpy.mean are uninterpreted functions of their (abstract) arguments")
    return VUn(f(unwrap(xs, t)), TUn("NpMat"))


def _np_mean(I, args, kw):
    """numpy.mean(matrix, axis=0): an opaque vector (sort Vec), a function of the abstract matrix"""
    m = args[0] if I.spec else I.force(args[0])
    if not (isinstance(m, VUn) and m.t.nm == "NpMat"):
        raise Unsupported("numpy.mean of %s" % type(m).__name__)
    f = z3.Function("np_mean_axis0", TUn("NpMat").sort(), TUn("Vec").sort())
    return VUn(f(m.e), TUn("Vec"))


def _defaultdict(I, args, kw):
    """collections.defaultdict(float) / defaultdict(int): an empty dict whose missing keys read as 0 (and are inserted
    by the read).  The element types come from the declared local type of the variable it is assigned to."""
    if len(args) != 1 or not isinstance(args[0], VClass) or args[0].name not in ("float", "int"):
        raise Unsupported("defaultdict with a factory other than float/int")
    d = VDictRec({})
    d.default_value = VReal(0) if args[0].name == "float" else VInt(0)
    return d


def _heappush(I, args, kw):
    """heapq.heappush(h, x): trusted multiset model -- the heap list is kept as a list in *some* order (the heap
    layout is never observed except through heappop / nsmallest / len): x is added."""
    h = I.force(args[0])
    if not isinstance(h, VSeq):
        raise Unsupported("heappush on %s (declare the heap's element type)" % type(h).__name__)
    I.ver.note_assumption("heapq: the heap is a multiset kept in a list; heappop removes and returns a minimum "
                          "(python tuple order), heappush adds, nsmallest(n, h) = the n least in ascending order")
    h.arr = z3.Store(h.arr, h.n, unwrap(args[1], h.et))
    h.n = z3.simplify(h.n + 1)
    h.writeback()
    return VNone()


def _heappop(I, args, kw):
    """heapq.heappop(h): IndexError on an empty heap; otherwise removes one occurrence of a least element (tuple
    order) and returns it; every other element stays (named array, pointwise facts with triggers)."""
    h = I.force(args[0])
    if not isinstance(h, VSeq):
        raise Unsupported("heappop on %s" % type(h).__name__)
    I.require_defined(h.n > 0, "IndexError", "index out of range")
    p = I.path
    m = p.fresh("heap_min_at", z3.IntSort())
    i = z3.Int("hp_i")
    old, n0 = h.arr, h.n
    p.assume(z3.And(0 <= m, m < n0))
    least = h.et.wrap(z3.Select(old, m))
    el = h.et.wrap(z3.Select(old, i))
    p.assume(z3.ForAll([i], z3.Implies(z3.And(0 <= i, i < n0), I.lt(least, el, False)), patterns=[z3.Select(old, i)]))
    res = I.fresh_value(TList(h.et), "heap")
    p.assume(res.n == n0 - 1)
    p.assume(z3.ForAll([i], z3.Implies(z3.And(0 <= i, i < res.n),
                                      z3.Select(res.arr, i) == z3.If(i < m, z3.Select(old, i), z3.Select(old, i + 1))),
                       patterns=[z3.Select(res.arr, i)]))
    p.assume(z3.ForAll([i], z3.Implies(z3.And(0 <= i, i < n0, i != m),
                                      z3.Select(res.arr, z3.If(i < m, i, i - 1)) == z3.Select(old, i)),
                       patterns=[z3.Select(old, i)]))
    h.arr, h.n = res.arr, res.n
    h.writeback()
    g = getattr(I, "ghost_env", None)
    if g is not None and "heap_pops" in g.vars:
        g.vars["heap_pops"] = VInt(to_int(g.vars["heap_pops"]) + 1)     # ghost: number of heappop calls so far
    return least


def _timedelta(I, args, kw):
    """datetime.timedelta(days=, seconds=): a duration in seconds on the real line.  Datetimes are modelled as
    real numbers (UTC seconds); datetime - timedelta and datetime comparisons are then ordinary arithmetic."""
    I.ver.note_assumption("datetimes are points on the real time line (UTC seconds); timedelta(days=n) == 86400*n")
    days = kw.get("days", args[0] if args else VInt(0))
    secs = kw.get("seconds", args[1] if len(args) > 1 else VInt(0))
    return VReal(to_real(I.force(days)) * 86400 + to_real(I.force(secs)))


# ---------------------------------------------------------------- concurrent.futures (trusted model)

def _callable_contract(I, fn):
    fn = I.force(fn)
    g = B.callable_un_func(I, fn) if isinstance(fn, VUn) else fn
    if isinstance(g, VFunc) and g.kind == "param" and g.contract is not None:
        return g
    raise Unsupported("executor.submit of a callable without a declared function contract")


def _tpe_submit(I, args, kw):
    """ThreadPoolExecutor.submit(fn, *a) -> Future.   ASSUMED CONTRACT (not verified here):
      * the pool invokes fn(*a) exactly once, some time between this submit and the delivery of the
        future's result; Future.result() blocks until that invocation has finished and then returns its
        value or re-raises the exception it raised -- whatever the order in which invocations complete;
      * the invocation obeys fn's declared function contract, and its outcome does not depend on how the
        pool interleaves it with the other submitted invocations (task independence / thread safety is a
        precondition on the tasks, not something decided here).  Ghost `effects_before` of the contract are
        executed at submission, i.e. they record *submission* order; contracts with post-call ghost effects
        (whose relative order would be schedule dependent) are rejected.
    The Future is a value {raised, value, exc_type, exc_msg} describing that outcome; nothing else about
    timing (done(), as_completed order, ...) is modelled, so code whose result depends on completion order
    cannot be verified with this model."""
    if not args:
        I.raise_exc("TypeError", "submit() missing fn")
    g = _callable_contract(I, args[0])
    c = g.contract
    if c.effects or c.effects_exc:
        raise Unsupported("executor.submit of a callable whose contract has post-call ghost effects")
    if c.returns is None:
        raise Unsupported("executor.submit of a callable without declared return type")
    env = Env(getattr(I, "ghost_env", None), None)
    rest = list(args[1:])
    for i, pn in enumerate(c.params):
        if i < len(rest):
            env.set(pn, rest[i])
        elif pn in kw:
            env.set(pn, kw[pn])
    if g.selfv is not None:
        env.set("self_fn", g.selfv)
    caller = I.cur_obl_prefix()
    for nm, src in c.requires:
        I.path.prove(I.eval_spec(src, env), "%s/submit:%s/pre:%s" % (caller, c.short, nm), "call-pre", where=src)
    for st in c.effects_before:
        I.exec_ghost(st, env)
    rt = I.ver.types.parse(c.returns)
    ft = future_type(rt)
    raised = I.path.fresh("fut_raised", z3.BoolSort())
    conds = [I.eval_spec(cond, env) for _, cond in c.raises_list() if cond is not None]
    if not c.raises_list():
        I.path.assume(z3.Not(raised))
    elif len(conds) == len(c.raises_list()):
        I.path.assume(z3.Implies(raised, z3.Or(conds)))
    res = I.fresh_value(rt, "fut_value")
    for nm, src in c.ensures:
        I.path.assume(z3.Implies(z3.Not(raised), I.eval_spec(src, env, extra={"result": res})))
    if c.exc_info is not None:
        tn, msg = I.eval_spec_value(c.exc_info[0], env), I.eval_spec_value(c.exc_info[1], env)
    else:
        tn, msg = VStr(I.path.fresh("fut_exc_type", z3.StringSort())), VStr(I.path.fresh("fut_exc_msg", z3.StringSort()))
    I.ver.note_assumption("ThreadPoolExecutor.submit/Future.result(): each submitted callable is invoked exactly once, "
                          "result() returns its value or re-raises its exception independent of completion order; "
                          "task outcomes do not depend on the interleaving (task independence assumed)")
    return VRec({"raised": VBool(raised), "value": res, "exc_type": tn, "exc_msg": msg}, ft)


def _future_result(I, fut, args, kw):
    """Future.result(): value of the submitted invocation, or its exception re-raised (see _tpe_submit)"""
    if I.path.branch(fut.fields["raised"].e):
        ex = VExc("Exception", [], any_subclass=True)
        ex.tname = fut.fields["exc_type"]
        ex.msg = fut.fields["exc_msg"]
        raise PyRaise(ex)
    return fut.fields["value"]


B.REC_METHODS[("Future_", "result")] = _future_result


def _thread_pool_executor(I, args, kw):
    """ThreadPoolExecutor(...): context manager with submit(); __exit__ waits for all submitted work
    (no observable effect in this model).  max_workers only bounds concurrency and is not modelled."""
    noop = VFunc("builtin", "shutdown", impl=lambda I2, a, k: VNone())
    return B.VExt("ThreadPoolExecutor", {"submit": VFunc("builtin", "submit", impl=_tpe_submit), "shutdown": noop})


TABLE = {
    ("numpy", "asarray"): _np_asarray,
    ("collections", "defaultdict"): _defaultdict,
    ("heapq", "heappush"): _heappush,
    ("heapq", "heappop"): _heappop,
    ("numpy", "stack"): _np_stack,
    ("numpy", "mean"): _np_mean,
    ("datetime", "timedelta"): _timedelta,
    ("datetime", "now"): _nondet_real("datetime.now"),
    ("concurrent", "ThreadPoolExecutor"): _thread_pool_executor,
    ("math", "sqrt"): _sqrt,
    ("math", "isfinite"): _isfinite,
    ("math", "isnan"): _isnan,
    ("math", "isinf"): _isnan,
    ("time", "time"): _nondet_real("time.time"),
    ("time", "perf_counter"): _nondet_real("time.perf_counter"),
    ("time", "monotonic"): _nondet_real("time.monotonic"),
    ("collections", "deque"): B.bi_deque,
}

TYPING = {"Any", "Dict", "List", "Tuple", "Optional", "Callable", "Iterable", "Iterator", "Generic", "TypeVar",
          "Deque", "Hashable", "Protocol", "Literal", "TypedDict", "Union", "Set", "Sequence", "Mapping",
          "MutableMapping", "TYPE_CHECKING"}


def external_member(ver, modname, attr):
    key = (modname.split(".")[0] if modname else "", attr)
    if key in TABLE:
        return VFunc("builtin", "%s.%s" % key, impl=TABLE[key])
    if key in (("datetime", "datetime"), ("datetime", "timezone")):
        # class used as a namespace only: datetime.datetime.now(tz) / datetime.timezone.utc
        return VModule("datetime." + attr, None)
    # abstract file system / OS primitives (os, pathlib, tempfile, time.sleep, random.uniform, errno, json.dumps)
    from . import fsmodel
    if key in fsmodel.TABLE:
        return VFunc("builtin", "%s.%s" % key, impl=fsmodel.TABLE[key])
    if key in fsmodel.CONSTS:
        return mk_const(fsmodel.CONSTS[key])
    if key[0] == "collections" and attr == "OrderedDict":
        return VClass("OrderedDict")
    if key[0] in ("typing", "typing_extensions", "__future__", "dataclasses", "abc"):
        return VOpaque("%s.%s" % key)
    if attr in EXC_PARENT:
        return VClass(attr, exc_base=EXC_PARENT[attr] or "BaseException")
    return VOpaque("%s.%s" % (modname, attr))
