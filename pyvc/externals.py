"""Trusted contracts of names imported from outside the repository (stdlib)."""
from __future__ import annotations
import z3
from .values import *  # noqa
from .core import *  # noqa
from . import builtins as B


def _sqrt(I, args, kw):
    x = to_real(args[0])
    I.require_defined(x >= 0, "ValueError", "math domain error")
    r = I.path.fresh("sqrt", z3.RealSort())
    I.path.assume(z3.And(r >= 0, I.ver.mul_real(r, r) == x))
    return VReal(r)


def _nondet_real(tag):
    def f(I, args, kw):
        I.ver.note_assumption("%s() is an arbitrary real (nondeterministic clock)" % tag)
        return VReal(I.path.fresh(tag.replace(".", "_"), z3.RealSort()))
    return f


def _isfinite(I, args, kw):
    # reals are always finite under A-REAL
    return VBool(True)


def _isnan(I, args, kw):
    return VBool(False)


def _hashlib_new(algo):
    """Trusted model of hashlib.<algo>([data]): a hash object whose `hexdigest()` / `digest()` is an *uninterpreted
    deterministic function* (`uf_<algo>_hex`, spec name `<algo>_hex`) of the concatenation of everything passed to the constructor and to
    `update()` so far (bytes are modelled as the text they encode, see str.encode).  Nothing else is assumed (no
    collision freedom, no length): equal inputs give equal digests, and the digest depends on nothing but the bytes fed
    in.  `update` accepts bytes only (a str argument raises TypeError as in CPython is not modelled: every caller in
    /repo passes `.encode(...)` results or bytes literals)."""
    def f(I, args, kw):
        state = {"buf": z3.StringVal("")}
        # same symbol as the spec-level `R.uf("<algo>_hex", ["str"], "str")` (verifier.spec_name prefixes "uf_")
        hexfn = z3.Function("uf_%s_hex" % algo, z3.StringSort(), z3.StringSort())
        rawfn = z3.Function("uf_%s_raw" % algo, z3.StringSort(), z3.StringSort())

        def feed(v):
            v = I.force(v) if not I.spec else v
            if not isinstance(v, VStr):
                raise Unsupported("hashlib update with a non-bytes value (%s)" % type(v).__name__)
            state["buf"] = z3.simplify(z3.Concat(state["buf"], v.e))

        def update(I2, a, k):
            feed(a[0])
            return VNone()

        def hexdigest(I2, a, k):
            return VStr(hexfn(state["buf"]))

        def digest(I2, a, k):
            return VStr(rawfn(state["buf"]))
        if args:
            feed(args[0])
        I.ver.note_assumption("hashlib.%s is an uninterpreted deterministic function of the bytes fed to it" % algo)
        return VObj("hashlib.%s" % algo, {"update": VFunc("builtin", "update", impl=update),
                                           "hexdigest": VFunc("builtin", "hexdigest", impl=hexdigest),
                                           "digest": VFunc("builtin", "digest", impl=digest)}, None)
    return f


TABLE = {
    ("hashlib", "sha256"): _hashlib_new("sha256"),
    ("math", "sqrt"): _sqrt,
    ("math", "isfinite"): _isfinite,
    ("math", "isnan"): _isnan,
    ("math", "isinf"): _isnan,
    ("time", "time"): _nondet_real("time.time"),
    ("time", "perf_counter"): _nondet_real("time.perf_counter"),
    ("time", "monotonic"): _nondet_real("time.monotonic"),
    ("collections", "deque"): B.bi_deque,
}

TYPING = {"Any", "Dict", "List", "Tuple", "Optional", "Callable", "Iterable", "Iterator", "Generic", "TypeVar",
          "Deque", "Hashable", "Protocol", "Literal", "TypedDict", "Union", "Set", "Sequence", "Mapping",
          "MutableMapping", "TYPE_CHECKING"}


def external_member(ver, modname, attr):
    key = (modname.split(".")[0] if modname else "", attr)
    if key in TABLE:
        return VFunc("builtin", "%s.%s" % key, impl=TABLE[key])
    # abstract file system / OS primitives (os, pathlib, tempfile, time.sleep, random.uniform, errno, json.dumps)
    from . import fsmodel
    if key in fsmodel.TABLE:
        return VFunc("builtin", "%s.%s" % key, impl=fsmodel.TABLE[key])
    if key in fsmodel.CONSTS:
        return mk_const(fsmodel.CONSTS[key])
    if key[0] == "collections" and attr == "OrderedDict":
        return VClass("OrderedDict")
    if key[0] in ("typing", "typing_extensions", "__future__", "dataclasses", "abc"):
        return VOpaque("%s.%s" % key)
    if attr in EXC_PARENT:
        return VClass(attr, exc_base=EXC_PARENT[attr] or "BaseException")
    return VOpaque("%s.%s" % (modname, attr))
