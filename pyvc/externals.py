"""Trusted contracts of names imported from outside the repository (stdlib)."""
from __future__ import annotations
import z3
from .values import *  # noqa
from .core import *  # noqa
from . import builtins as B


def _sqrt(I, args, kw):
    x = to_real(args[0])
    I.require_defined(x >= 0, "ValueError", "math domain error")
    r = I.path.fresh("sqrt", z3.RealSort())
    I.path.assume(z3.And(r >= 0, I.ver.mul_real(r, r) == x))
    return VReal(r)


def _nondet_real(tag):
    def f(I, args, kw):
        I.ver.note_assumption("%s() is an arbitrary real (nondeterministic clock)" % tag)
        return VReal(I.path.fresh(tag.replace(".", "_"), z3.RealSort()))
    return f


def _isfinite(I, args, kw):
    # reals are always finite under A-REAL; the python-side constant VNaN is the one non-finite float
    return VBool(not isinstance(args[0], VNaN))


def _isnan(I, args, kw):
    return VBool(isinstance(args[0], VNaN))


def _isinf(I, args, kw):
    return VBool(False)


def _deepcopy(I, args, kw):
    """copy.deepcopy(x): assumed contract = a structurally equal value sharing no mutable part with x.
    Only modelled for the python-side JSON model (JObj trees), literal dicts and encodable containers."""
    from . import jsontree
    I.ver.note_assumption("copy.deepcopy returns a structurally equal value with fresh identities (trusted stdlib contract)")
    return jsontree.deepcopy(I, I.force(args[0]))


TABLE = {
    ("copy", "deepcopy"): _deepcopy,
    ("math", "sqrt"): _sqrt,
    ("math", "isfinite"): _isfinite,
    ("math", "isnan"): _isnan,
    ("math", "isinf"): _isinf,
    ("time", "time"): _nondet_real("time.time"),
    ("time", "perf_counter"): _nondet_real("time.perf_counter"),
    ("time", "monotonic"): _nondet_real("time.monotonic"),
    ("collections", "deque"): B.bi_deque,
}

from . import ext_listing
TABLE.update(ext_listing.TABLE)          # abstract directory listing (snapshot discovery, C06)

TYPING = {"Any", "Dict", "List", "Tuple", "Optional", "Callable", "Iterable", "Iterator", "Generic", "TypeVar",
          "Deque", "Hashable", "Protocol", "Literal", "TypedDict", "Union", "Set", "Sequence", "Mapping",
          "MutableMapping", "TYPE_CHECKING"}


def external_member(ver, modname, attr):
    full = (modname or "", attr)
    if full in TABLE:
        return VFunc("builtin", "%s.%s" % full, impl=TABLE[full])
    if full == ("os", "path"):
        return VModule("os.path", None)
    key = (modname.split(".")[0] if modname else "", attr)
    if key in TABLE and not (modname or "").startswith("os."):
        return VFunc("builtin", "%s.%s" % key, impl=TABLE[key])
    if key[0] == "collections" and attr == "OrderedDict":
        return VClass("OrderedDict")
    if key[0] in ("typing", "typing_extensions", "__future__", "dataclasses", "abc"):
        return VOpaque("%s.%s" % key)
    if attr in EXC_PARENT:
        return VClass(attr, exc_base=EXC_PARENT[attr] or "BaseException")
    return VOpaque("%s.%s" % (modname, attr))
