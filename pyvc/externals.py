"""Trusted contracts of names imported from outside the repository (stdlib)."""
from __future__ import annotations
import z3
from .values import *  # noqa
from .core import *  # noqa
from . import builtins as B


def _sqrt(I, args, kw):
    x = to_real(args[0])
    I.require_defined(x >= 0, "ValueError", "math domain error")
    r = I.path.fresh("sqrt", z3.RealSort())
    I.path.assume(z3.And(r >= 0, I.ver.mul_real(r, r) == x))
    return VReal(r)


def _nondet_real(tag):
    def f(I, args, kw):
        I.ver.note_assumption("%s() is an arbitrary real (nondeterministic clock)" % tag)
        return VReal(I.path.fresh(tag.replace(".", "_"), z3.RealSort()))
    return f


def _isfinite(I, args, kw):
    # reals are always finite under A-REAL; the python-side constant VNaN is the one non-finite float
    return VBool(not isinstance(args[0], VNaN))


def _isnan(I, args, kw):
    return VBool(isinstance(args[0], VNaN))


def _isinf(I, args, kw):
    return VBool(False)


def _json_loads(I, args, kw):
    """json.loads(s) for a str argument: either raises (json.JSONDecodeError, a ValueError; or RecursionError for
    deeply nested input) or returns an *arbitrary* JSON-like value (Dyn): nothing is assumed about how the value
    relates to the text.  Floats are reals (the NaN/Infinity literals accepted by the stdlib parser are outside
    the model, A-REAL); keyword arguments (cls, object_hook, ...) are not supported."""
    from .dyn import TDyn
    if kw:
        raise Unsupported("json.loads with keyword arguments")
    v = I.force(args[0])
    if not isinstance(v, VStr):
        I.raise_exc("TypeError", "the JSON object must be str, bytes or bytearray")
    I.ver.note_assumption("json.loads(str) returns an arbitrary JSON-like value (Dyn) or raises ValueError/RecursionError; "
                          "no relation between text and value is assumed")
    if I.path.branch(I.path.fresh("json_decode_error", z3.BoolSort())):
        raise PyRaise(VExc("JSONDecodeError", [VStr(I.path.fresh("json_err_msg", z3.StringSort()))]))
    if I.path.branch(I.path.fresh("json_recursion_error", z3.BoolSort())):
        raise PyRaise(VExc("RecursionError", [VStr("maximum recursion depth exceeded")]))
    return I.fresh_value(TDyn, "json_value")


def _np_asarray(I, args, kw):
    """numpy.asarray(v, dtype=...) on an opaque vector value: the same abstract vector (the float32 cast is part of
    the numeric layer that the contracts treat as uninterpreted)."""
    I.ver.note_assumption("numpy.asarray(v, dtype) returns the same abstract vector value (numerics are uninterpreted)")
    v = args[0]
    if isinstance(v, VOpt) and I.spec:
        return v.val()
    return I.force(v)


def _np_stack(I, args, kw):
    """numpy.stack(list of vectors, axis=0): an opaque matrix value, a function of the list of (abstract) vectors"""
    xs = args[0] if I.spec else I.force(args[0])
    if not isinstance(xs, VSeq):
        raise Unsupported("numpy.stack of %s" % type(xs).__name__)
    t = xs.t
    f = z3.Function("np_stack_" + "".join(c if c.isalnum() else "_" for c in t.name), t.sort(), TUn("NpMat").sort())
    I.ver.note_assumption("numpy.stack / numpy.mean are uninterpreted functions of their (abstract) arguments")
    return VUn(f(unwrap(xs, t)), TUn("NpMat"))


def _np_mean(I, args, kw):
    """numpy.mean(matrix, axis=0): an opaque vector (sort Vec), a function of the abstract matrix"""
    m = args[0] if I.spec else I.force(args[0])
    if not (isinstance(m, VUn) and m.t.nm == "NpMat"):
        raise Unsupported("numpy.mean of %s" % type(m).__name__)
    f = z3.Function("np_mean_axis0", TUn("NpMat").sort(), TUn("Vec").sort())
    return VUn(f(m.e), TUn("Vec"))


def _defaultdict(I, args, kw):
    """collections.defaultdict(float) / defaultdict(int): an empty dict whose missing keys read as 0 (and are inserted
    by the read).  The element types come from the declared local type of the variable it is assigned to."""
    if len(args) != 1 or not isinstance(args[0], VClass) or args[0].name not in ("float", "int"):
        raise Unsupported("defaultdict with a factory other than float/int")
    d = VDictRec({})
    d.default_value = VReal(0) if args[0].name == "float" else VInt(0)
    return d


def _heappush(I, args, kw):
    """heapq.heappush(h, x): trusted multiset model -- the heap list is kept as a list in *some* order (the heap
    layout is never observed except through heappop / nsmallest / len): x is added."""
    h = I.force(args[0])
    if not isinstance(h, VSeq):
        raise Unsupported("heappush on %s (declare the heap's element type)" % type(h).__name__)
    I.ver.note_assumption("heapq: the heap is a multiset kept in a list; heappop removes and returns a minimum "
                          "(python tuple order), heappush adds, nsmallest(n, h) = the n least in ascending order")
    h.arr = z3.Store(h.arr, h.n, unwrap(args[1], h.et))
    h.n = z3.simplify(h.n + 1)
    h.writeback()
    return VNone()


def _heappop(I, args, kw):
    """heapq.heappop(h): IndexError on an empty heap; otherwise removes one occurrence of a least element (tuple
    order) and returns it; every other element stays (named array, pointwise facts with triggers)."""
    h = I.force(args[0])
    if not isinstance(h, VSeq):
        raise Unsupported("heappop on %s" % type(h).__name__)
    I.require_defined(h.n > 0, "IndexError", "index out of range")
    p = I.path
    m = p.fresh("heap_min_at", z3.IntSort())
    i = z3.Int("hp_i")
    old, n0 = h.arr, h.n
    p.assume(z3.And(0 <= m, m < n0))
    least = h.et.wrap(z3.Select(old, m))
    el = h.et.wrap(z3.Select(old, i))
    p.assume(z3.ForAll([i], z3.Implies(z3.And(0 <= i, i < n0), I.lt(least, el, False)), patterns=[z3.Select(old, i)]))
    res = I.fresh_value(TList(h.et), "heap")
    p.assume(res.n == n0 - 1)
    p.assume(z3.ForAll([i], z3.Implies(z3.And(0 <= i, i < res.n),
                                      z3.Select(res.arr, i) == z3.If(i < m, z3.Select(old, i), z3.Select(old, i + 1))),
                       patterns=[z3.Select(res.arr, i)]))
    p.assume(z3.ForAll([i], z3.Implies(z3.And(0 <= i, i < n0, i != m),
                                      z3.Select(res.arr, z3.If(i < m, i, i - 1)) == z3.Select(old, i)),
                       patterns=[z3.Select(old, i)]))
    h.arr, h.n = res.arr, res.n
    h.writeback()
    g = getattr(I, "ghost_env", None)
    if g is not None and "heap_pops" in g.vars:
        g.vars["heap_pops"] = VInt(to_int(g.vars["heap_pops"]) + 1)     # ghost: number of heappop calls so far
    return least


def _nsmallest(I, args, kw):
    """heapq.nsmallest(n, h) (no key): the min(max(n, 0), len(h)) least elements in ascending order = a prefix of
    sorted(h) (trusted sorted() model: stable permutation ordered by python tuple order)"""
    if kw:
        raise Unsupported("heapq.nsmallest(key=...)")
    n = to_int(I.force(args[0]))
    h = I.force(args[1])
    if isinstance(h, B.VEmptyList):
        return h
    if not isinstance(h, VSeq):
        raise Unsupported("nsmallest over %s" % type(h).__name__)
    r = B.sort_seq(I, VSeq(h.arr, h.n, h.et, "list"), None)
    k = z3.If(n < 0, 0, z3.If(n > r.n, r.n, n))
    return VSeq(r.arr, z3.simplify(k), r.et, "list")


def _nlargest(I, args, kw):
    """heapq.nlargest(n, xs, key=None): documented as equivalent to sorted(xs, key=key, reverse=True)[:n]
    (trusted sorted() model: stable permutation, descending keys, ties keep their original order)"""
    n = to_int(I.force(args[0]))
    h = I.force(args[1])
    if isinstance(h, B.VEmptyList):
        return h
    if not isinstance(h, VSeq):
        h = B.to_seq(I, h)
    r = B.sort_seq(I, VSeq(h.arr, h.n, h.et, "list"), kw.get("key"), reverse=True)
    k = z3.If(n < 0, 0, z3.If(n > r.n, r.n, n))
    return VSeq(r.arr, z3.simplify(k), r.et, "list")


def _heapify(I, args, kw):
    """heapq.heapify(h): rearranges h in place into heap order -- a no-op in the multiset model (the layout of the
    list is never observed except through heappop / nsmallest / len)"""
    h = I.force(args[0])
    if not isinstance(h, (VSeq, B.VEmptyList)):
        raise Unsupported("heapify of %s" % type(h).__name__)
    return VNone()


def _log_noop(I, args, kw):
    """logging.warning/info/error/debug: diagnostic output on the root logger, not part of any modelled state;
    trusted not to raise (lazy %-formatting errors are swallowed by the logging module)"""
    I.ver.note_assumption("logging.* calls are no-ops that never raise (diagnostics on stderr are not modelled)")
    return VNone()


def _timedelta(I, args, kw):
    """datetime.timedelta(days=, seconds=): a duration in seconds on the real line.  Datetimes are modelled as
    real numbers (UTC seconds); datetime - timedelta and datetime comparisons are then ordinary arithmetic."""
    I.ver.note_assumption("datetimes are points on the real time line (UTC seconds); timedelta(days=n) == 86400*n")
    days = kw.get("days", args[0] if args else VInt(0))
    secs = kw.get("seconds", args[1] if len(args) > 1 else VInt(0))
    return VReal(to_real(I.force(days)) * 86400 + to_real(I.force(secs)))

# ---------------------------------------------------------------- process environment / os.path / json / contextvars
# (added for C16/C10: log writer and staging contracts)

class VHook(V):
    """python-side object whose attributes are builtin methods given by a table"""
    t = None

    def __init__(self, tag, methods):
        self.tag = tag
        self.methods = methods

    def get_attr(self, I, name):
        if name in self.methods:
            return VFunc("builtin", "%s.%s" % (self.tag, name), impl=self.methods[name])
        return None


def env_terms():
    has = z3.Function("environ_has", z3.StringSort(), z3.BoolSort())
    val = z3.Function("environ_val", z3.StringSort(), z3.StringSort())
    return has, val


def _environ_get(I, args, kw):
    """os.environ.get(k[, d]): the process environment is an *unknown but fixed* mapping during one verified call
    (environ_has / environ_val are uninterpreted functions of the variable name); nothing writes it."""
    I.ver.note_assumption("os.environ is an arbitrary mapping that does not change during the verified call")
    k = args[0]
    if not isinstance(k, VStr):
        raise Unsupported("os.environ.get with non-string key")
    has, val = env_terms()
    if len(args) > 1 and isinstance(args[1], VStr):
        return VStr(z3.If(has(k.e), val(k.e), args[1].e))
    if len(args) > 1 and not isinstance(args[1], VNone):
        raise Unsupported("os.environ.get default of %s" % type(args[1]).__name__)
    t = TOpt(TStr)
    return VOpt(z3.If(has(k.e), t.some(val(k.e)), t.none()), t)


def _str_uf(name, n):
    return z3.Function(name, *([z3.StringSort()] * (n + 1)))


def _basename(I, args, kw):
    """os.path.basename: deterministic uninterpreted string function (no structural facts assumed)"""
    a = I.to_str(args[0]) if not isinstance(args[0], VStr) else args[0]
    return VStr(_str_uf("os_path_basename", 1)(a.e))


def _dirname(I, args, kw):
    """os.path.dirname: deterministic uninterpreted string function (no structural facts assumed)"""
    a = I.to_str(args[0]) if not isinstance(args[0], VStr) else args[0]
    return VStr(_str_uf("os_path_dirname", 1)(a.e))


def _path_join(I, args, kw):
    """os.path.join(a, b): deterministic uninterpreted string function"""
    if len(args) != 2:
        raise Unsupported("os.path.join arity %d" % len(args))
    xs = [x if isinstance(x, VStr) else I.to_str(x) for x in args]
    return VStr(_str_uf("os_path_join", 2)(xs[0].e, xs[1].e))


def _may_raise_oserror(tag):
    def f(I, args, kw):
        """OS call whose effect is outside the model: returns None or raises OSError"""
        if I.spec:
            return VNone()
        b = I.path.fresh("oserr_" + tag, z3.BoolSort())
        if I.path.branch(b):
            raise PyRaise(VExc("OSError", [VStr(tag)], any_subclass=True))
        return VNone()
    return f


def _dumps_tag(kw):
    parts = []
    for k in sorted(kw):
        v = kw[k]
        if k == "indent" or k == "default" or k == "cls":
            raise Unsupported("json.dumps(%s=...)" % k)
        if isinstance(v, VTuple):
            c = tuple(const_of(x) for x in v.items)
        else:
            c = const_of(v)
        if c is B._NOCONST or (isinstance(c, tuple) and any(x is B._NOCONST for x in c)):
            raise Unsupported("json.dumps with symbolic option %s" % k)
        parts.append("%s=%r" % (k, c))
    return ";".join(parts)


def _json_dumps(I, args, kw):
    """json.dumps(x, **opts) without `indent`: a deterministic uninterpreted function of (x, opts) into strings.
    Trusted fact: the output contains no raw LF / CR (control characters inside strings are escaped)."""
    x = args[0]
    tag = _dumps_tag(kw)
    try:
        t = typeof(x)
    except TypeError:
        # a value with no single encoding (literal dict of mixed values, heap objects): an arbitrary string per call
        # (sound over-approximation of a deterministic function whose argument is not tracked), still without raw LF/CR
        r = I.path.fresh("json_dumps_opaque", z3.StringSort())
        I.path.assume(z3.And(z3.Not(z3.Contains(r, z3.StringVal("\n"))), z3.Not(z3.Contains(r, z3.StringVal("\r")))))
        I.ver.note_assumption("json.dumps of an untracked python value: arbitrary string without raw LF/CR")
        return VStr(r)
    nm = "json_dumps<%s>_%s" % (tag, "".join(c if c.isalnum() else "_" for c in t.name))
    f = z3.Function(nm, t.sort(), z3.StringSort())
    r = f(unwrap(x, t))
    I.path.assume(z3.And(z3.Not(z3.Contains(r, z3.StringVal("\n"))), z3.Not(z3.Contains(r, z3.StringVal("\r")))))
    I.ver.note_assumption("json.dumps (no indent): uninterpreted deterministic function of (value, options); its output has no raw LF/CR")
    return VStr(r)


def _ctxvar(I, args, kw):
    """contextvars.ContextVar(name, default=...): the current value lives in the contract's ghost variable
    `ctx_<name>` (declare it with ghost={"ctx_<name>": (type, "any")}); get() reads it, set() writes it."""
    name = const_of(args[0])
    if not isinstance(name, str):
        raise Unsupported("ContextVar with symbolic name")
    gname = "ctx_" + name

    def get(I2, a, k):
        if a or k:
            raise Unsupported("ContextVar.get(default)")
        v = I2.ghost_env.lookup(gname)
        if v is None:
            raise Unsupported("ContextVar %s read: declare ghost %s in the contract" % (name, gname))
        return v

    def set_(I2, a, k):
        if I2.ghost_env.lookup(gname) is None:
            raise Unsupported("ContextVar %s written: declare ghost %s in the contract" % (name, gname))
        I2.ghost_env.set(gname, a[0])
        return VOpaque("ctx_token")

    return VHook("ContextVar:" + name, {"get": get, "set": set_})


def _open(I, args, kw):
    """open(path, mode) for the log writers: every open / write is recorded in the ghost traces
    `fs_opens: List[Tuple[str, str]]` and `fs_writes: List[Tuple[str, str, str]]` (path, mode, data) of the contract.
    open and write may raise OSError; nothing else about the file system is modelled.  bytes == str (utf-8
    encoding is treated as the identity on text)."""
    opens = I.ghost_env.lookup("fs_opens")
    writes = I.ghost_env.lookup("fs_writes")
    if opens is None or writes is None:
        raise Unsupported("open(): declare ghost fs_opens / fs_writes in the contract")
    path = args[0] if isinstance(args[0], VStr) else I.to_str(args[0])
    mode = args[1] if len(args) > 1 else kw.get("mode", VStr("r"))
    _may_raise_oserror("open")(I, [], {})
    B.seq_method(I, opens, "append", [VTuple([path, mode])], {})
    I.ver.note_assumption("open()/write(): only the sequence of calls (path, mode, data) is modelled (ghost trace); "
                          "one write() on an O_APPEND handle lands as one contiguous chunk (POSIX, assumed)")

    def write(I2, a, k):
        data = a[0]
        if not isinstance(data, VStr):
            raise Unsupported("file.write of %s" % type(data).__name__)
        _may_raise_oserror("write")(I2, [], {})
        B.seq_method(I2, writes, "append", [VTuple([path, mode, data])], {})
        return VInt(z3.Length(data.e))

    def noop(I2, a, k):
        return VNone()

    return VHook("file", {"write": write, "close": noop, "flush": noop})


# ---- tiny private file-name model for scripts/rotate_logs.py (C16 rotation).  NOT the general file-system model
# (pyvc/fsmodel.py is being built for C08); it only knows which names exist and what they hold:
# ghost `rfs: Dict[str, Un[Blob]]` declared by the contract.

def _rfs(I, what):
    m = I.ghost_env.lookup("rfs")
    if m is None:
        raise Unsupported("%s: declare ghost rfs (Dict[str, Un[Blob]]) in the contract" % what)
    return m


def _as_path_str(I, v):
    return v if isinstance(v, VStr) else I.to_str(v)


def _path_exists(I, args, kw):
    """os.path.exists(p) == p names a file in the ghost name space `rfs`"""
    m = _rfs(I, "os.path.exists")
    return VBool(z3.Select(m.dom, _as_path_str(I, args[0]).e))


def _os_remove(I, args, kw):
    """os.remove(p): FileNotFoundError when p is absent; otherwise removes exactly p, or fails with some other
    OSError (permissions ...) leaving everything as it was"""
    m = _rfs(I, "os.remove")
    p = _as_path_str(I, args[0])
    if not I.path.branch(z3.Select(m.dom, p.e)):
        raise PyRaise(VExc("FileNotFoundError", [VStr("remove")]))
    if I.path.branch(I.path.fresh("oserr_remove", z3.BoolSort())):
        # PermissionError stands for every OSError that is not a FileNotFoundError
        raise PyRaise(VExc("PermissionError", [VStr("remove")], any_subclass=True))
    B.map_remove(I, m, p.e)
    return VNone()


def _pathlib_path(I, args, kw):
    """pathlib.Path(s): a path object is identified with its string"""
    if len(args) != 1:
        raise Unsupported("Path() arity")
    return _as_path_str(I, args[0])


SPEC_FUNCS = {"env_get": _environ_get, "os_basename": _basename, "os_dirname": _dirname, "os_join": _path_join, "json_dumps": _json_dumps,
              "open": _open}

# ---------------------------------------------------------------- concurrent.futures (trusted model)

def _callable_contract(I, fn):
    fn = I.force(fn)
    g = B.callable_un_func(I, fn) if isinstance(fn, VUn) else fn
    if isinstance(g, VFunc) and g.kind == "param" and g.contract is not None:
        return g
    raise Unsupported("executor.submit of a callable without a declared function contract")


def _tpe_submit(I, args, kw):
    """ThreadPoolExecutor.submit(fn, *a) -> Future.   ASSUMED CONTRACT (not verified here):
      * the pool invokes fn(*a) exactly once, some time between this submit and the delivery of the
        future's result; Future.result() blocks until that invocation has finished and then returns its
        value or re-raises the exception it raised -- whatever the order in which invocations complete;
      * the invocation obeys fn's declared function contract, and its outcome does not depend on how the
        pool interleaves it with the other submitted invocations (task independence / thread safety is a
        precondition on the tasks, not something decided here).  Ghost `effects_before` of the contract are
        executed at submission, i.e. they record *submission* order; contracts with post-call ghost effects
        (whose relative order would be schedule dependent) are rejected.
    The Future is a value {raised, value, exc_type, exc_msg} describing that outcome; nothing else about
    timing (done(), as_completed order, ...) is modelled, so code whose result depends on completion order
    cannot be verified with this model."""
    if not args:
        I.raise_exc("TypeError", "submit() missing fn")
    g = _callable_contract(I, args[0])
    c = g.contract
    if c.effects or c.effects_exc:
        raise Unsupported("executor.submit of a callable whose contract has post-call ghost effects")
    if c.returns is None:
        raise Unsupported("executor.submit of a callable without declared return type")
    env = Env(getattr(I, "ghost_env", None), None)
    rest = list(args[1:])
    for i, pn in enumerate(c.params):
        if i < len(rest):
            env.set(pn, rest[i])
        elif pn in kw:
            env.set(pn, kw[pn])
    if g.selfv is not None:
        env.set("self_fn", g.selfv)
    caller = I.cur_obl_prefix()
    for nm, src in c.requires:
        I.path.prove(I.eval_spec(src, env), "%s/submit:%s/pre:%s" % (caller, c.short, nm), "call-pre", where=src)
    for st in c.effects_before:
        I.exec_ghost(st, env)
    rt = I.ver.types.parse(c.returns)
    ft = future_type(rt)
    raised = I.path.fresh("fut_raised", z3.BoolSort())
    conds = [I.eval_spec(cond, env) for _, cond in c.raises_list() if cond is not None]
    if not c.raises_list():
        I.path.assume(z3.Not(raised))
    elif len(conds) == len(c.raises_list()):
        I.path.assume(z3.Implies(raised, z3.Or(conds)))
    res = I.fresh_value(rt, "fut_value")
    for nm, src in c.ensures:
        I.path.assume(z3.Implies(z3.Not(raised), I.eval_spec(src, env, extra={"result": res})))
    if c.exc_info is not None:
        tn, msg = I.eval_spec_value(c.exc_info[0], env), I.eval_spec_value(c.exc_info[1], env)
    else:
        tn, msg = VStr(I.path.fresh("fut_exc_type", z3.StringSort())), VStr(I.path.fresh("fut_exc_msg", z3.StringSort()))
    I.ver.note_assumption("ThreadPoolExecutor.submit/Future.result(): each submitted callable is invoked exactly once, "
                          "result() returns its value or re-raises its exception independent of completion order; "
                          "task outcomes do not depend on the interleaving (task independence assumed)")
    return VRec({"raised": VBool(raised), "value": res, "exc_type": tn, "exc_msg": msg}, ft)


def _future_result(I, fut, args, kw):
    """Future.result(): value of the submitted invocation, or its exception re-raised (see _tpe_submit)"""
    if I.path.branch(fut.fields["raised"].e):
        ex = VExc("Exception", [], any_subclass=True)
        ex.tname = fut.fields["exc_type"]
        ex.msg = fut.fields["exc_msg"]
        raise PyRaise(ex)
    return fut.fields["value"]


B.REC_METHODS[("Future_", "result")] = _future_result


def _thread_pool_executor(I, args, kw):
    """ThreadPoolExecutor(...): context manager with submit(); __exit__ waits for all submitted work
    (no observable effect in this model).  max_workers only bounds concurrency and is not modelled."""
    noop = VFunc("builtin", "shutdown", impl=lambda I2, a, k: VNone())
    return B.VExt("ThreadPoolExecutor", {"submit": VFunc("builtin", "submit", impl=_tpe_submit), "shutdown": noop})


def _hashlib_new(algo):
    """Trusted model of hashlib.<algo>([data]): a hash object whose `hexdigest()` / `digest()` is an *uninterpreted
    deterministic function* (`uf_<algo>_hex`, spec name `<algo>_hex`) of the concatenation of everything passed to the constructor and to
    `update()` so far (bytes are modelled as the text they encode, see str.encode).  Nothing else is assumed (no
    collision freedom, no length): equal inputs give equal digests, and the digest depends on nothing but the bytes fed
    in.  `update` accepts bytes only (a str argument raises TypeError as in CPython is not modelled: every caller in
    /repo passes `.encode(...)` results or bytes literals)."""
    def f(I, args, kw):
        state = {"buf": z3.StringVal("")}
        # same symbol as the spec-level `R.uf("<algo>_hex", ["str"], "str")` (verifier.spec_name prefixes "uf_")
        hexfn = z3.Function("uf_%s_hex" % algo, z3.StringSort(), z3.StringSort())
        rawfn = z3.Function("uf_%s_raw" % algo, z3.StringSort(), z3.StringSort())

        def feed(v):
            v = I.force(v) if not I.spec else v
            if not isinstance(v, VStr):
                raise Unsupported("hashlib update with a non-bytes value (%s)" % type(v).__name__)
            state["buf"] = z3.simplify(z3.Concat(state["buf"], v.e))

        def update(I2, a, k):
            feed(a[0])
            return VNone()

        def hexdigest(I2, a, k):
            return VStr(hexfn(state["buf"]))

        def digest(I2, a, k):
            return VStr(rawfn(state["buf"]))
        if args:
            feed(args[0])
        I.ver.note_assumption("hashlib.%s is an uninterpreted deterministic function of the bytes fed to it" % algo)
        return VObj("hashlib.%s" % algo, {"update": VFunc("builtin", "update", impl=update),
                                           "hexdigest": VFunc("builtin", "hexdigest", impl=hexdigest),
                                           "digest": VFunc("builtin", "digest", impl=digest)}, None)
    return f


def _deepcopy(I, args, kw):
    """copy.deepcopy(x): assumed contract = a structurally equal value sharing no mutable part with x.
    Only modelled for the python-side JSON model (JObj trees), literal dicts and encodable containers."""
    from . import jsontree
    I.ver.note_assumption("copy.deepcopy returns a structurally equal value with fresh identities (trusted stdlib contract)")
    return jsontree.deepcopy(I, I.force(args[0]))


TABLE = {
    ("numpy", "asarray"): _np_asarray,
    ("collections", "defaultdict"): _defaultdict,
    ("heapq", "heappush"): _heappush,
    ("heapq", "heappop"): _heappop,
    ("heapq", "nsmallest"): _nsmallest,
    ("heapq", "nlargest"): _nlargest,
    ("heapq", "heapify"): _heapify,
    ("numpy", "stack"): _np_stack,
    ("numpy", "mean"): _np_mean,
    ("datetime", "timedelta"): _timedelta,
    ("datetime", "now"): _nondet_real("datetime.now"),
    ("copy", "deepcopy"): _deepcopy,
    ("hashlib", "sha256"): _hashlib_new("sha256"),
    ("concurrent", "ThreadPoolExecutor"): _thread_pool_executor,
    ("logging", "warning"): _log_noop, ("logging", "info"): _log_noop, ("logging", "error"): _log_noop,
    ("logging", "debug"): _log_noop,
    ("os", "makedirs"): _may_raise_oserror("makedirs"),
    ("os.path", "basename"): _basename,
    ("os.path", "dirname"): _dirname,
    ("os.path", "join"): _path_join,
    ("os.path", "exists"): _path_exists,
    ("os", "remove"): _os_remove,
    ("pathlib", "Path"): _pathlib_path,
    ("json", "dumps"): _json_dumps,
    ("contextvars", "ContextVar"): _ctxvar,
    ("json", "loads"): _json_loads,
    ("math", "sqrt"): _sqrt,
    ("math", "isfinite"): _isfinite,
    ("math", "isnan"): _isnan,
    ("math", "isinf"): _isinf,
    ("time", "time"): _nondet_real("time.time"),
    ("time", "perf_counter"): _nondet_real("time.perf_counter"),
    ("time", "monotonic"): _nondet_real("time.monotonic"),
    ("collections", "deque"): B.bi_deque,
}

from . import ext_listing   # abstract directory listing (snapshot discovery, C06): used only by contracts whose ghost
                            # state declares `fs_listing` (see external_member)

TYPING = {"Any", "Dict", "List", "Tuple", "Optional", "Callable", "Iterable", "Iterator", "Generic", "TypeVar",
          "Deque", "Hashable", "Protocol", "Literal", "TypedDict", "Union", "Set", "Sequence", "Mapping",
          "MutableMapping", "TYPE_CHECKING"}


def _uses_fsmodel(ver):
    c = getattr(ver, "cur", None)
    if c is None:
        return False
    return bool(getattr(c, "fs_inv", None) or getattr(c, "fs_policy", None) or getattr(c, "fs_opts", None) or "fs" in getattr(c, "ghost", {}))


def external_member(ver, modname, attr):
    cur = getattr(ver, "cur", None)
    if cur is not None and "fs_listing" in getattr(cur, "ghost", {}) and (modname or "", attr) in ext_listing.TABLE:
        return VFunc("builtin", "%s.%s" % (modname, attr), impl=ext_listing.TABLE[(modname or "", attr)])
    key0 = (modname.split(".")[0] if modname else "", attr)
    from . import fsmodel
    if _uses_fsmodel(ver):
        if key0 in fsmodel.TABLE:
            return VFunc("builtin", "%s.%s" % key0, impl=fsmodel.TABLE[key0])
        if key0 in fsmodel.CONSTS:
            return mk_const(fsmodel.CONSTS[key0])
    if modname == "os" and attr == "environ":
        return VHook("os.environ", {"get": _environ_get})
    if modname == "os" and attr == "path":
        return VModule("os.path", None)
    if modname == "os.path" and ("os.path", attr) in TABLE:
        return VFunc("builtin", "os.path.%s" % attr, impl=TABLE[("os.path", attr)])
    full = (modname or "", attr)
    if full in TABLE:
        return VFunc("builtin", "%s.%s" % full, impl=TABLE[full])
    key = (modname.split(".")[0] if modname else "", attr)
    if key in TABLE and not (modname or "").startswith("os."):
        return VFunc("builtin", "%s.%s" % key, impl=TABLE[key])
    if key in (("datetime", "datetime"), ("datetime", "timezone")):
        # class used as a namespace only: datetime.datetime.now(tz) / datetime.timezone.utc
        return VModule("datetime." + attr, None)
    if key in fsmodel.TABLE:
        return VFunc("builtin", "%s.%s" % key, impl=fsmodel.TABLE[key])
    if key in fsmodel.CONSTS:
        return mk_const(fsmodel.CONSTS[key])
    if key[0] == "collections" and attr == "OrderedDict":
        return VClass("OrderedDict")
    if key[0] in ("typing", "typing_extensions", "__future__", "dataclasses", "abc"):
        return VOpaque("%s.%s" % key)
    if attr in EXC_PARENT:
        return VClass(attr, exc_base=EXC_PARENT[attr] or "BaseException")
    return VOpaque("%s.%s" % (modname, attr))
