"""Trusted contracts of names imported from outside the repository (stdlib)."""
from __future__ import annotations
import z3
from .values import *  # noqa
from .core import *  # noqa
from . import builtins as B


def _sqrt(I, args, kw):
    x = to_real(args[0])
    I.require_defined(x >= 0, "ValueError", "math domain error")
    r = I.path.fresh("sqrt", z3.RealSort())
    I.path.assume(z3.And(r >= 0, I.ver.mul_real(r, r) == x))
    return VReal(r)


def _nondet_real(tag):
    def f(I, args, kw):
        I.ver.note_assumption("%s() is an arbitrary real (nondeterministic clock)" % tag)
        return VReal(I.path.fresh(tag.replace(".", "_"), z3.RealSort()))
    return f


def _isfinite(I, args, kw):
    # reals are always finite under A-REAL
    return VBool(True)


def _isnan(I, args, kw):
    return VBool(False)


def _json_loads(I, args, kw):
    """json.loads(s) for a str argument: either raises (json.JSONDecodeError, a ValueError; or RecursionError for
    deeply nested input) or returns an *arbitrary* JSON-like value (Dyn): nothing is assumed about how the value
    relates to the text.  Floats are reals (the NaN/Infinity literals accepted by the stdlib parser are outside
    the model, A-REAL); keyword arguments (cls, object_hook, ...) are not supported."""
    from .dyn import TDyn
    if kw:
        raise Unsupported("json.loads with keyword arguments")
    v = I.force(args[0])
    if not isinstance(v, VStr):
        I.raise_exc("TypeError", "the JSON object must be str, bytes or bytearray")
    I.ver.note_assumption("json.loads(str) returns an arbitrary JSON-like value (Dyn) or raises ValueError/RecursionError; "
                          "no relation between text and value is assumed")
    if I.path.branch(I.path.fresh("json_decode_error", z3.BoolSort())):
        raise PyRaise(VExc("JSONDecodeError", [VStr(I.path.fresh("json_err_msg", z3.StringSort()))]))
    if I.path.branch(I.path.fresh("json_recursion_error", z3.BoolSort())):
        raise PyRaise(VExc("RecursionError", [VStr("maximum recursion depth exceeded")]))
    return I.fresh_value(TDyn, "json_value")


TABLE = {
    ("json", "loads"): _json_loads,
    ("math", "sqrt"): _sqrt,
    ("math", "isfinite"): _isfinite,
    ("math", "isnan"): _isnan,
    ("math", "isinf"): _isnan,
    ("time", "time"): _nondet_real("time.time"),
    ("time", "perf_counter"): _nondet_real("time.perf_counter"),
    ("time", "monotonic"): _nondet_real("time.monotonic"),
    ("collections", "deque"): B.bi_deque,
}

TYPING = {"Any", "Dict", "List", "Tuple", "Optional", "Callable", "Iterable", "Iterator", "Generic", "TypeVar",
          "Deque", "Hashable", "Protocol", "Literal", "TypedDict", "Union", "Set", "Sequence", "Mapping",
          "MutableMapping", "TYPE_CHECKING"}


def external_member(ver, modname, attr):
    key = (modname.split(".")[0] if modname else "", attr)
    if key in TABLE:
        return VFunc("builtin", "%s.%s" % key, impl=TABLE[key])
    if key[0] == "collections" and attr == "OrderedDict":
        return VClass("OrderedDict")
    if key[0] in ("typing", "typing_extensions", "__future__", "dataclasses", "abc"):
        return VOpaque("%s.%s" % key)
    if attr in EXC_PARENT:
        return VClass(attr, exc_base=EXC_PARENT[attr] or "BaseException")
    return VOpaque("%s.%s" % (modname, attr))
