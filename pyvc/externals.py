"""Trusted contracts of names imported from outside the repository (stdlib)."""
from __future__ import annotations
import z3
from .values import *  # noqa
from .core import *  # noqa
from . import builtins as B


def _sqrt(I, args, kw):
    x = to_real(args[0])
    I.require_defined(x >= 0, "ValueError", "math domain error")
    r = I.path.fresh("sqrt", z3.RealSort())
    I.path.assume(z3.And(r >= 0, I.ver.mul_real(r, r) == x))
    return VReal(r)


def _nondet_real(tag):
    def f(I, args, kw):
        I.ver.note_assumption("%s() is an arbitrary real (nondeterministic clock)" % tag)
        return VReal(I.path.fresh(tag.replace(".", "_"), z3.RealSort()))
    return f


def _isfinite(I, args, kw):
    # reals are always finite under A-REAL
    return VBool(True)


def _isnan(I, args, kw):
    return VBool(False)


def _np_asarray(I, args, kw):
    """numpy.asarray(v, dtype=...) on an opaque vector value: the same abstract vector (the float32 cast is part of
    the numeric layer that the contracts treat as uninterpreted)."""
    I.ver.note_assumption("numpy.asarray(v, dtype) returns the same abstract vector value (numerics are uninterpreted)")
    return I.force(args[0])


def _timedelta(I, args, kw):
    """datetime.timedelta(days=, seconds=): a duration in seconds on the real line.  Datetimes are modelled as
    real numbers (UTC seconds); datetime - timedelta and datetime comparisons are then ordinary arithmetic."""
    I.ver.note_assumption("datetimes are points on the real time line (UTC seconds); timedelta(days=n) == 86400*n")
    days = kw.get("days", args[0] if args else VInt(0))
    secs = kw.get("seconds", args[1] if len(args) > 1 else VInt(0))
    return VReal(to_real(I.force(days)) * 86400 + to_real(I.force(secs)))


TABLE = {
    ("numpy", "asarray"): _np_asarray,
    ("datetime", "timedelta"): _timedelta,
    ("datetime", "now"): _nondet_real("datetime.now"),
    ("math", "sqrt"): _sqrt,
    ("math", "isfinite"): _isfinite,
    ("math", "isnan"): _isnan,
    ("math", "isinf"): _isnan,
    ("time", "time"): _nondet_real("time.time"),
    ("time", "perf_counter"): _nondet_real("time.perf_counter"),
    ("time", "monotonic"): _nondet_real("time.monotonic"),
    ("collections", "deque"): B.bi_deque,
}

TYPING = {"Any", "Dict", "List", "Tuple", "Optional", "Callable", "Iterable", "Iterator", "Generic", "TypeVar",
          "Deque", "Hashable", "Protocol", "Literal", "TypedDict", "Union", "Set", "Sequence", "Mapping",
          "MutableMapping", "TYPE_CHECKING"}


def external_member(ver, modname, attr):
    key = (modname.split(".")[0] if modname else "", attr)
    if key in TABLE:
        return VFunc("builtin", "%s.%s" % key, impl=TABLE[key])
    if key in (("datetime", "datetime"), ("datetime", "timezone")):
        # class used as a namespace only: datetime.datetime.now(tz) / datetime.timezone.utc
        return VModule("datetime." + attr, None)
    if key[0] == "collections" and attr == "OrderedDict":
        return VClass("OrderedDict")
    if key[0] in ("typing", "typing_extensions", "__future__", "dataclasses", "abc"):
        return VOpaque("%s.%s" % key)
    if attr in EXC_PARENT:
        return VClass(attr, exc_base=EXC_PARENT[attr] or "BaseException")
    return VOpaque("%s.%s" % (modname, attr))
