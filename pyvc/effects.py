"""Engine F: frame / effect / gate-dominance / exception-escape clauses over the real AST.

A clause is a verification condition about the *structure* of a function of /repo as it is on disk now:
e.g. "every call of apply_changes in Orchestrator.run_turn is dominated by t4_enabled", "the call of
rerank_with_gel in apply_quality lies in the body of a try whose handler catches Exception".  Dominance is
decided by z3 on the boolean abstraction of the guards on the syntactic path to the site (enclosing if/while
tests, negated tests of preceding early-exit ifs); atoms are maximal non-boolean sub-expressions identified by
their source text.  Soundness conditions are checked, not assumed: every name inside a guard atom must be
assigned at most once in the function (otherwise the clause is *undecided*, never a violation).
Dynamic features are outside this engine (A-DYN in DESIGN.md): getattr by constant name and monkeypatch
indirections are taken at face value.
"""
from __future__ import annotations
import ast
import z3

from . import frontend


# ----------------------------------------------------------------------------- sites

def call_name(c):
    f = c.func
    if isinstance(f, ast.Name):
        return f.id
    if isinstance(f, ast.Attribute):
        return f.attr
    return None


def match_site(node, pat):
    if not isinstance(node, ast.Call):
        return False
    if call_name(node) != pat["call"]:
        return False
    if "arg0" in pat:
        if not node.args or not isinstance(node.args[0], ast.Constant) or node.args[0].value != pat["arg0"]:
            return False
    if "recv" in pat:
        f = node.func
        if not (isinstance(f, ast.Attribute) and ast.unparse(f.value) == pat["recv"]):
            return False
    return True


class PathInfo:
    def __init__(self):
        self.guards = []     # (expr ast, polarity)
        self.tries = []      # (Try node, part) part in body/handler/orelse/final
        self.loops = []      # enclosing For/While nodes
        self.funcs = []      # enclosing nested function defs


def always_exits(body):
    """does this block always leave the enclosing statement list (return / raise / continue / break)?"""
    if not body:
        return False
    last = body[-1]
    if isinstance(last, (ast.Return, ast.Raise, ast.Continue, ast.Break)):
        return True
    if isinstance(last, ast.If):
        return always_exits(last.body) and always_exits(last.orelse)
    if isinstance(last, ast.Try):
        ok = always_exits(last.body) if not last.orelse else always_exits(last.orelse)
        return ok and all(always_exits(h.body) for h in last.handlers)
    return False


def find_sites(func, pred):
    """-> list of (node, PathInfo) for every AST node below func satisfying pred"""
    out = []

    def visit_block(stmts, info):
        extra = []
        for st in stmts:
            cur = PathInfo()
            cur.guards = info.guards + extra
            cur.tries, cur.loops, cur.funcs = info.tries, info.loops, info.funcs
            visit_stmt(st, cur)
            if isinstance(st, ast.If):
                if always_exits(st.body) and not always_exits(st.orelse):
                    extra = extra + [(st.test, False)]
                elif st.orelse and always_exits(st.orelse) and not always_exits(st.body):
                    extra = extra + [(st.test, True)]

    def sub(info, guard=None, tr=None, loop=None, fn=None):
        n = PathInfo()
        n.guards = info.guards + ([guard] if guard else [])
        n.tries = info.tries + ([tr] if tr else [])
        n.loops = info.loops + ([loop] if loop else [])
        n.funcs = info.funcs + ([fn] if fn else [])
        return n

    def visit_expr(e, info):
        if e is None:
            return
        for node in walk_expr(e, info):
            pass

    def walk_expr(e, info):
        # expression level guards: IfExp and short-circuit boolean operators
        if isinstance(e, ast.IfExp):
            yield from walk_expr(e.test, info)
            yield from walk_expr(e.body, sub(info, (e.test, True)))
            yield from walk_expr(e.orelse, sub(info, (e.test, False)))
            return
        if isinstance(e, ast.BoolOp):
            cur = info
            for i, v in enumerate(e.values):
                yield from walk_expr(v, cur)
                cur = sub(cur, (v, isinstance(e.op, ast.And)))
            return
        if isinstance(e, (ast.Lambda,)):
            return
        if pred(e):
            out.append((e, info))
        for ch in ast.iter_child_nodes(e):
            if isinstance(ch, ast.expr):
                yield from walk_expr(ch, info)
            elif isinstance(ch, ast.comprehension):
                yield from walk_expr(ch.iter, info)
                for c in ch.ifs:
                    yield from walk_expr(c, info)
            elif isinstance(ch, ast.keyword):
                yield from walk_expr(ch.value, info)
        return
        yield

    def exprs_of(st):
        for fname, val in ast.iter_fields(st):
            if fname in ("body", "orelse", "finalbody", "handlers"):
                continue
            if isinstance(val, ast.expr):
                yield val
            elif isinstance(val, list):
                for x in val:
                    if isinstance(x, ast.expr):
                        yield x
                    elif isinstance(x, ast.withitem):
                        yield x.context_expr
                    elif isinstance(x, ast.keyword):
                        yield x.value

    def visit_stmt(st, info):
        if pred(st):
            out.append((st, info))
        if isinstance(st, (ast.FunctionDef, ast.AsyncFunctionDef)):
            visit_block(st.body, sub(PathInfo(), fn=st) if False else sub(info, fn=st))
            return
        if isinstance(st, ast.ClassDef):
            return
        for e in exprs_of(st):
            visit_expr(e, info)
        if isinstance(st, ast.If):
            visit_block(st.body, sub(info, (st.test, True)))
            visit_block(st.orelse, sub(info, (st.test, False)))
        elif isinstance(st, ast.While):
            visit_block(st.body, sub(info, (st.test, True), loop=st))
            visit_block(st.orelse, info)
        elif isinstance(st, ast.For):
            visit_block(st.body, sub(info, loop=st))
            visit_block(st.orelse, info)
        elif isinstance(st, ast.With):
            visit_block(st.body, info)
        elif isinstance(st, ast.Try):
            visit_block(st.body, sub(info, tr=(st, "body")))
            for h in st.handlers:
                visit_block(h.body, sub(info, tr=(st, "handler")))
            visit_block(st.orelse, sub(info, tr=(st, "orelse")))
            visit_block(st.finalbody, sub(info, tr=(st, "final")))

    visit_block(func.body, PathInfo())
    return out


# ----------------------------------------------------------------------------- boolean abstraction

class Abstraction:
    def __init__(self):
        self.atoms = {}

    def atom(self, e):
        key = ast.unparse(e)
        if key not in self.atoms:
            self.atoms[key] = z3.Bool("atom_%d" % len(self.atoms))
        return self.atoms[key]

    def enc(self, e):
        if isinstance(e, ast.BoolOp):
            vs = [self.enc(v) for v in e.values]
            return z3.And(vs) if isinstance(e.op, ast.And) else z3.Or(vs)
        if isinstance(e, ast.UnaryOp) and isinstance(e.op, ast.Not):
            return z3.Not(self.enc(e.operand))
        if isinstance(e, ast.Constant) and isinstance(e.value, bool):
            return z3.BoolVal(e.value)
        if isinstance(e, ast.Call) and isinstance(e.func, ast.Name) and e.func.id == "bool" and len(e.args) == 1:
            return self.enc(e.args[0])
        if isinstance(e, ast.Compare) and len(e.ops) == 1 and isinstance(e.ops[0], (ast.IsNot, ast.NotEq)):
            # x is not None  ==  not (x is None)
            pos = ast.Compare(left=e.left, ops=[ast.Is() if isinstance(e.ops[0], ast.IsNot) else ast.Eq()],
                              comparators=e.comparators)
            return z3.Not(self.atom(pos))
        return self.atom(e)


def names_in(e):
    return {n.id for n in ast.walk(e) if isinstance(n, ast.Name)}


def assignment_lines(func):
    """name -> line numbers where it is (re)bound in func (including nested statements, excluding nested defs)"""
    from .modset import _target_names
    out = {}

    def add(nm, ln):
        out.setdefault(nm, []).append(ln)

    def walk(n):
        for ch in ast.iter_child_nodes(n):
            if isinstance(ch, (ast.FunctionDef, ast.AsyncFunctionDef, ast.Lambda, ast.ClassDef)):
                continue
            tg = []
            if isinstance(ch, ast.Assign):
                tg = ch.targets
            elif isinstance(ch, (ast.AugAssign, ast.AnnAssign, ast.For)):
                tg = [ch.target]
            elif isinstance(ch, ast.NamedExpr):
                tg = [ch.target]
            elif isinstance(ch, ast.With):
                tg = [it.optional_vars for it in ch.items if it.optional_vars is not None]
            elif isinstance(ch, ast.ExceptHandler) and ch.name:
                add(ch.name, ch.lineno)
            elif isinstance(ch, ast.Delete):
                tg = ch.targets
            for t in tg:
                s2 = set()
                _target_names(t, s2)
                for x in s2:
                    add(x, ch.lineno)
            walk(ch)

    walk(func)
    return out


def assignment_counts(func):
    """how often each local name is (re)bound in func (not descending into nested defs)"""
    from .modset import _target_names
    cnt = {}

    def bump(nm):
        cnt[nm] = cnt.get(nm, 0) + 1

    def walk(n):
        for ch in ast.iter_child_nodes(n):
            if isinstance(ch, (ast.FunctionDef, ast.AsyncFunctionDef, ast.Lambda, ast.ClassDef)):
                if isinstance(ch, (ast.FunctionDef, ast.ClassDef)):
                    bump(ch.name)
                continue
            if isinstance(ch, ast.Assign):
                for t in ch.targets:
                    s = set()
                    _target_names(t, s)
                    for x in s:
                        bump(x)
            elif isinstance(ch, (ast.AugAssign, ast.AnnAssign)):
                s = set()
                _target_names(ch.target, s)
                for x in s:
                    bump(x)
                    if isinstance(ch, ast.AugAssign):
                        bump(x)
            elif isinstance(ch, (ast.For,)):
                s = set()
                _target_names(ch.target, s)
                for x in s:
                    bump(x)
                    bump(x)
            elif isinstance(ch, ast.NamedExpr):
                bump(ch.target.id)
            elif isinstance(ch, ast.ExceptHandler) and ch.name:
                bump(ch.name)
            elif isinstance(ch, ast.With):
                for it in ch.items:
                    if it.optional_vars is not None:
                        s = set()
                        _target_names(it.optional_vars, s)
                        for x in s:
                            bump(x)
            elif isinstance(ch, (ast.Import, ast.ImportFrom)):
                for a in ch.names:
                    bump((a.asname or a.name).split(".")[0])
            walk(ch)

    walk(func)
    return cnt


# ----------------------------------------------------------------------------- clause checking

def result(name, status, detail="", where=""):
    return {"name": name, "status": status, "detail": detail, "where": where, "seconds": 0.0, "backend": "engine-F"}


def check_gate(cl, mod, func, sites):
    """every site is dominated by the gate expression"""
    out = []
    gate = ast.parse(cl["gate"], mode="eval").body
    alines = assignment_lines(func)
    for k, (node, info) in enumerate(sites):
        name = "%s#%d@L%d" % (cl["name"], k, node.lineno)
        ab = Abstraction()
        conds = []
        dropped = []
        for (e, pol) in info.guards:
            # a guard may be used only if none of its names is rebound between the test and the site
            lo, hi = getattr(e, "end_lineno", e.lineno), node.lineno
            unstable = [nm for nm in names_in(e) if any(lo < ln <= hi for ln in alines.get(nm, []))]
            if unstable:
                dropped.append((ast.unparse(e)[:60], unstable))
                continue
            conds.append(ab.enc(e) if pol else z3.Not(ab.enc(e)))
        g = ab.enc(gate)
        s = z3.Solver()
        s.add(z3.And(conds + [z3.BoolVal(True)]))
        s.add(z3.Not(g))
        r = s.check()
        if r == z3.unsat:
            out.append(result(name, "proved", where="site line %d dominated by %s" % (node.lineno, cl["gate"])))
        else:
            gs = " and ".join(("" if p else "not ") + "(" + ast.unparse(e) + ")" for e, p in info.guards) or "<none>"
            out.append(result(name, "failed",
                              "site %s at %s:%d is reachable with the gate closed; guards on the path: %s" % (
                                  ast.unparse(node)[:80], mod.relpath, node.lineno, gs), cl["gate"]))
    return out


CATCH_ALL = {"Exception", "BaseException"}


def handler_catches_all(h):
    if h.type is None:
        return True
    if isinstance(h.type, ast.Name):
        return h.type.id in CATCH_ALL
    if isinstance(h.type, ast.Tuple):
        return any(isinstance(x, ast.Name) and x.id in CATCH_ALL for x in h.type.elts)
    return False


def handler_is_quiet(h):
    """the handler itself cannot re-raise: no raise statement, and every call in it is inside its own catch-all try"""
    for n in ast.walk(h):
        if isinstance(n, ast.Raise):
            return False
    return True


def check_noescape(cl, mod, func, sites):
    out = []
    for k, (node, info) in enumerate(sites):
        name = "%s#%d@L%d" % (cl["name"], k, node.lineno)
        ok = False
        for (tr, part) in info.tries:
            if part != "body":
                continue
            if any(handler_catches_all(h) and handler_is_quiet(h) for h in tr.handlers):
                ok = True
        if ok:
            out.append(result(name, "proved", where="site line %d inside try/except Exception" % node.lineno))
        else:
            out.append(result(name, "failed", "an exception raised by %s at %s:%d escapes %s (no enclosing catch-all handler)" % (
                ast.unparse(node)[:80], mod.relpath, node.lineno, func.name), "no-escape"))
    return out


def run_clause(cl, repo=None):
    """-> list of result dicts"""
    try:
        mod, cls, func = frontend.find_function(cl["key"], repo)
    except KeyError as ex:
        return [result(cl["name"], "error", "anchor lost: %s" % ex)]
    kind = cl["kind"]
    pats = cl.get("sites")
    sites = []
    if pats is not None:
        if isinstance(pats, dict):
            pats = [pats]
        sites = find_sites(func, lambda n: any(match_site(n, p) for p in pats))
        if cl.get("skip_nested"):
            sites = [s for s in sites if not s[1].funcs]
        mn = cl.get("min_sites", 1)
        if len(sites) < mn:
            return [result(cl["name"], "error", "anchor lost: expected >= %d sites %s in %s, found %d" % (mn, pats, cl["key"], len(sites)))]
    if kind == "gate":
        return check_gate(cl, mod, func, sites)
    if kind == "noescape":
        return check_noescape(cl, mod, func, sites)
    if kind == "count":
        out = []
        n = cl["n"]
        if len(sites) != n:
            out.append(result(cl["name"] + "/count", "failed", "expected exactly %d call sites of %s in %s, found %d at lines %s" % (
                n, pats, cl["key"], len(sites), [s[0].lineno for s in sites]), "count"))
        else:
            out.append(result(cl["name"] + "/count", "proved", where="%d site(s)" % n))
        if cl.get("no_loop", True):
            for k, (node, info) in enumerate(sites):
                nm = "%s/not-in-loop#%d@L%d" % (cl["name"], k, node.lineno)
                if info.loops:
                    out.append(result(nm, "failed", "site at line %d is inside a loop (line %d)" % (node.lineno, info.loops[-1].lineno)))
                else:
                    out.append(result(nm, "proved"))
        return out
    if kind == "custom":
        return cl["fn"](cl, mod, cls, func)
    return [result(cl["name"], "error", "unknown clause kind %s" % kind)]


# ----------------------------------------------------------------------------- cache-key coverage (C05)

def _names(e):
    return {n.id for n in ast.walk(e) if isinstance(n, ast.Name)}


def _cfg_reads(e, cfg_vars):
    """config reads inside an expression: X.get("k", ...) / X["k"] with X a declared config variable, and
    _cfg_get(root, ["a","b"], d)  ->  set of (X, "k") / (root, "a.b")"""
    out = set()
    for n in ast.walk(e):
        if isinstance(n, ast.Call) and isinstance(n.func, ast.Attribute) and n.func.attr == "get" and n.args \
                and isinstance(n.args[0], ast.Constant) and isinstance(n.args[0].value, str) \
                and isinstance(n.func.value, ast.Name) and n.func.value.id in cfg_vars:
            out.add((n.func.value.id, n.args[0].value))
        if isinstance(n, ast.Subscript) and isinstance(n.value, ast.Name) and n.value.id in cfg_vars \
                and isinstance(n.slice, ast.Constant) and isinstance(n.slice.value, str) and isinstance(n.ctx, ast.Load):
            out.add((n.value.id, n.slice.value))
        if isinstance(n, ast.Call) and isinstance(n.func, ast.Name) and n.func.id == "_cfg_get" and len(n.args) >= 2 \
                and isinstance(n.args[1], ast.List) and all(isinstance(x, ast.Constant) for x in n.args[1].elts):
            out.add((ast.unparse(n.args[0]), ".".join(str(x.value) for x in n.args[1].elts)))
    return out


def check_keycover(cl, mod, cls, func):
    """C05 key determinacy, stated over the function's own variables:
       (1) every declared input variable of the fresh computation that is read after the cache lookup feeds the key;
       (2) every configuration key read after the lookup is also read by an expression that feeds the key (or exempt);
       (3) completeness: no configuration read in the region is left unclassified.
    'feeds the key' = is in the name-level dependency closure of the key variable through the bindings that precede
    the lookup (so equal keys imply equal values only under the trusted injectivity of stable_key/tuple/str)."""
    key_var = cl["key_var"]
    cfg_vars = set(cl.get("cfg_vars", []))
    look = None
    for n in ast.walk(func):
        if isinstance(n, ast.Call) and isinstance(n.func, ast.Attribute) and n.func.attr == "get" \
                and any(isinstance(a, ast.Name) and a.id == key_var for a in n.args) \
                and ast.unparse(n.func.value) == cl["cache_expr"]:
            look = n
            break
    if look is None:
        return [result(cl["name"], "error", "anchor lost: no %s.get(..%s..) lookup" % (cl["cache_expr"], key_var))]
    L = look.lineno
    # bindings before the lookup
    defs = {}
    for n in ast.walk(func):
        if getattr(n, "lineno", 10 ** 9) >= L:
            continue
        if isinstance(n, ast.Assign):
            tg, val = n.targets, n.value
        elif isinstance(n, (ast.AnnAssign, ast.AugAssign)) and n.value is not None:
            tg, val = [n.target], n.value
        elif isinstance(n, ast.Expr) and isinstance(n.value, ast.Call) and isinstance(n.value.func, ast.Attribute) \
                and n.value.func.attr in ("update", "append", "extend", "add", "setdefault") and isinstance(n.value.func.value, ast.Name):
            for a in list(n.value.args) + [k.value for k in n.value.keywords]:
                defs.setdefault(n.value.func.value.id, []).append(a)
            continue
        else:
            continue
        for t in tg:
            r = t
            while isinstance(r, (ast.Subscript, ast.Attribute)):
                r = r.value
            if isinstance(r, ast.Name):
                defs.setdefault(r.id, []).append(val)
            elif isinstance(t, (ast.Tuple, ast.List)):
                for x in t.elts:
                    if isinstance(x, ast.Name):
                        defs.setdefault(x.id, []).append(val)
    if key_var not in defs:
        return [result(cl["name"], "error", "anchor lost: key variable %s is not bound before the lookup" % key_var)]
    closure, work = set(), [key_var]
    key_cfg = set()
    while work:
        v = work.pop()
        if v in closure:
            continue
        closure.add(v)
        for d in defs.get(v, []):
            key_cfg |= _cfg_reads(d, cfg_vars)
            for nm in _names(d):
                if nm not in closure:
                    work.append(nm)
    # region = statements after the lookup (or the arguments of one call, for the turn-level cache)
    region_nodes = []
    if cl.get("region_call"):
        for n in ast.walk(func):
            if isinstance(n, ast.Call) and cl["region_call"] in ast.unparse(n.func) and n.lineno >= L:
                region_nodes.extend(n.args)
        if not region_nodes:
            return [result(cl["name"], "error", "anchor lost: region call %s" % cl["region_call"])]
    else:
        for n in ast.walk(func):
            if isinstance(n, ast.stmt) and getattr(n, "lineno", 0) > look.end_lineno:
                region_nodes.append(n)
    region_names, region_cfg = set(), set()
    for n in region_nodes:
        for x in ast.walk(n):
            if isinstance(x, ast.Name) and isinstance(x.ctx, ast.Load):
                region_names.add(x.id)
        region_cfg |= _cfg_reads(n, cfg_vars)
    out = []
    exempt_cfg = {}
    for x in cl.get("exempt_cfg", []):
        # ((var, key), reason[, (parent var, parent key)]): exempt only while the parent pair feeds the key
        if len(x) > 2 and tuple(x[2]) not in key_cfg and tuple(x[2])[0] not in closure:
            continue
        exempt_cfg[tuple(x[0])] = x[1]
    inj = set(cl.get("injective_wrappers", [])) | {"str", "tuple", "list", "dict", "sorted", "bool", "int", "float", "stable_key", "repr"}
    rep = cl.get("represented_by", {})

    def carries(e, var, seen):
        """does expression e carry the value of `var` without losing information (identity, containers, injective wrappers)?"""
        if isinstance(e, ast.Name):
            if e.id == var:
                return True
            if e.id in seen:
                return False
            return any(carries(d, var, seen | {e.id}) for d in defs.get(e.id, []))
        if isinstance(e, (ast.Tuple, ast.List, ast.Set)):
            return any(carries(x, var, seen) for x in e.elts)
        if isinstance(e, ast.Dict):
            return any(carries(x, var, seen) for x in e.values if x is not None)
        if isinstance(e, ast.Call) and isinstance(e.func, ast.Name) and e.func.id in inj:
            return any(carries(a, var, seen) for a in e.args)
        if isinstance(e, ast.Call) and isinstance(e.func, ast.Attribute) and e.func.attr in ("keys", "items", "copy") and not e.args:
            return carries(e.func.value, var, seen)
        if isinstance(e, ast.IfExp):
            return carries(e.body, var, seen) or carries(e.orelse, var, seen)
        if isinstance(e, ast.BoolOp):
            return any(carries(x, var, seen) for x in e.values)
        return False

    for var, why in cl.get("inputs", []):
        nm = "%s/key-determines:%s" % (cl["name"], var)
        kv = rep.get(var, var)
        if var not in region_names:
            out.append(result(nm, "error", "anchor lost: declared input %s is not read by the fresh computation any more" % var))
        elif var in closure and carries(ast.Name(id=key_var, ctx=ast.Load()), kv, set()):
            out.append(result(nm, "proved", where="%s is carried into %s through containers / injective wrappers%s" % (
                kv, key_var, "" if kv == var else " (trusted to represent %s)" % var)))
        elif var in closure:
            out.append(result(nm, "failed", "`%s` (%s) reaches `%s` only through a lossy operation (slice, arithmetic, method call): "
                                            "different values of %s can produce the same cache key" % (kv, why, key_var, var), "key-determines"))
        else:
            out.append(result(nm, "failed", "the fresh computation reads `%s` (%s) but `%s` is not built from it: two calls that differ "
                                            "only in %s get the same cache key" % (var, why, key_var, var), "key-determines"))
    for var, why in cl.get("must_feed", []):
        nm = "%s/key-determines:%s" % (cl["name"], var)
        if var in closure:
            out.append(result(nm, "proved", where="%s feeds %s" % (var, key_var)))
        else:
            out.append(result(nm, "failed", "`%s` (%s) does not feed `%s`" % (var, why, key_var), "key-determines"))
    for (x, k) in sorted(region_cfg):
        nm = "%s/key-determines-cfg:%s.%s" % (cl["name"], x, k)
        if (x, k) in key_cfg:
            out.append(result(nm, "proved", where="config %s[%r] feeds the key" % (x, k)))
        elif (x, k) in exempt_cfg:
            out.append(result(nm, "proved", where="exempt: " + exempt_cfg[(x, k)]))
        else:
            out.append(result(nm, "failed", "config value %s[%r] is read by the fresh computation but does not feed `%s`" % (x, k, key_var),
                              "key-determines"))
    out.append(result(cl["name"] + "/analysed", "proved", where="%d inputs, %d config reads in the region; key closure = %s" % (
        len(cl.get("inputs", [])), len(region_cfg), sorted(closure)[:40])))
    return out
