"""Abstract file system: trusted contracts of the OS / stdlib I/O primitives (property C08 and friends).

Ghost state (declared by the contract as ghost variables, see `GHOST`; the model reads / mutates them in place):

    fs            Dict[str, str]   regular files: key = file identity (normalised path string), value = content
                                   (bytes modelled as str); `k in fs` = the file exists.  Directories, permissions,
                                   durability (what survives power loss) and symlinks are NOT modelled.
    fs_tmps       Set[str]         keys created by tempfile.NamedTemporaryFile during this activation
    fs_stuck      Set[str]         keys for which a clean-up primitive (unlink / exists) failed
    fs_ntfclose   Set[str]         keys whose NamedTemporaryFile handle failed in close()
    fs_called     Set[str]         names of the primitives that were called (attempted) so far

Paths.  A `pathlib.Path` is the value `VPath(e)`, e = str(p).  Trusted facts (assumed as instances, never quantified):
  * `fs_norm : str -> str` is path normalisation, `Path(s)` has string fs_norm(s); str(p) is a fixpoint of it;
    two path strings denote the same file iff their normal forms are equal (no symlinks / hard links / "..").
  * `p.parent`, `p.name` are the uninterpreted fs_parent / fs_name of str(p); a name never contains "/".
  * tempfile.NamedTemporaryFile(prefix=P, dir=D, delete=False), P without "/", either raises OSError (nothing
    created) or atomically creates a *new* empty file (O_EXCL: it did not exist) whose path string is
    fs_join(D, P + r), r = 8 characters of [a-z0-9_]; its name is P + r and its parent is Path(D).

Faults.  **Every primitive forks into a "raises OSError" outcome that leaves `fs` unchanged** (so every effect boundary
is a failure point, and the state after each effect is a possible crash state).  Where POSIX forces the outcome the
model forces it too (FileNotFoundError for a missing source of replace/unlink/stat/chmod/open-for-read).  Options in the
contract's `fs_opts`:
    interrupt=True     additionally a KeyboardInterrupt may be delivered before and after every primitive
    short_write=True   a *raw* write() (handle opened with buffering=0) may write only a prefix of the buffer and
                       return the short count (default False = assumption A-FULLWRITE: a raw write either raises or
                       writes everything).  *Buffered* handles (open(p, 'wb') with default buffering) are never short:
                       BufferedWriter.write/flush/close retry partial raw writes until every byte handed over so far is
                       in the file, or raise; between those calls the file holds an arbitrary (monotone) prefix of the
                       bytes handed over -- each such state is checked as a crash state.
    close_fails=False  close() never raises (default True: close may raise; the descriptor is released anyway)
`os.replace` is atomic and all-or-nothing; open(..., 'wb') atomically creates/truncates; unlink atomically removes;
a raw write that is killed half way leaves an arbitrary prefix appended (checked as an extra crash state).

Obligations generated here (names are prefixed by the contract under verification):
    <fn>/crash-inv:<clause>@<op>       the contract's `fs_inv` clauses, proved at entry and after every state change
    <fn>/effect-policy:<clause>@<op>   the contract's `fs_policy` clauses (spec over `fs_op`, `fs_target`), proved at
                                       every state-changing effect *before* it happens
    <fn>/fs:<primitive>/pre:<name>     preconditions of the trusted contracts
At a modular call the callee's havoc'd file system stands for every intermediate state of the callee: it is assumed to
satisfy the callee's fs_inv / fs_policy, and the caller's clauses are proved from that (`@call:<callee>`).
"""
from __future__ import annotations
import z3

from .values import *  # noqa
from .core import *  # noqa
from .core import _NOCONST

GHOST_NAMES = ("fs", "fs_tmps", "fs_stuck", "fs_ntfclose", "fs_called")
GHOST = {
    "fs": ("Dict[str, str]", "any"),
    "fs_tmps": ("Set[str]", "empty"),
    "fs_stuck": ("Set[str]", "empty"),
    "fs_ntfclose": ("Set[str]", "empty"),
    "fs_called": ("Set[str]", "empty"),
}

_S = z3.StringSort()
fs_norm = z3.Function("fs_norm", _S, _S)
fs_parent = z3.Function("fs_parent", _S, _S)
fs_name = z3.Function("fs_name", _S, _S)
fs_join = z3.Function("fs_join", _S, _S, _S)

TMP_CHARS = z3.Union(z3.Range("a", "z"), z3.Range("0", "9"), z3.Re("_"))


class TOptExc(T):
    """type of a local that holds None or an exception instance (e.g. `last_err: Optional[BaseException]`)"""

    def __init__(self, cls):
        self.cls = cls
        self.name = "OptExc[%s]" % cls

    def fresh(self, I, hint):
        e = VExc(self.cls, [], any_subclass=True)
        return VOptObj(I.path.fresh(hint + "_present", z3.BoolSort()), e)


STAT_T = None


def declare(reg):
    """types the contracts can name: Path (built in), OptOSError, StatResult"""
    global STAT_T
    reg.types.declare("OptOSError", TOptExc("OSError"))
    reg.types.declare("OptException", TOptExc("Exception"))
    if STAT_T is None:
        STAT_T = TRec("StatResult", {"st_mode": TInt, "st_size": TInt})
    reg.types.declare("StatResult", STAT_T)


# ----------------------------------------------------------------------------- small services

def _ghost(I, name, required=True):
    ge = getattr(I, "ghost_env", None)
    v = ge.vars.get(name) if ge is not None else None
    if v is None and required:
        raise Unsupported("file-system primitive used, but the contract declares no ghost '%s' (see pyvc.fsmodel.GHOST)" % name)
    return v


def _opts(I):
    c = getattr(I, "cur_contract", None)
    return getattr(c, "fs_opts", None) or {}


def _note(I):
    I.ver.note_assumption("abstract file system (pyvc/fsmodel.py): files = map path-key -> content; os.replace atomic and "
                          "all-or-nothing; open('wb') creates/truncates; NamedTemporaryFile creates a new file dir/prefix+8 "
                          "chars of [a-z0-9_]; every primitive may raise OSError leaving the files unchanged; directories, "
                          "permissions, links and durability are not modelled")


def key_of(I, v):
    """file identity of a path-like argument"""
    if isinstance(v, VPath):
        return v.e
    if isinstance(v, VStr):
        return fs_norm(v.e)
    if I.spec:
        raise Unsupported("fs key of %s" % type(v).__name__)
    I.raise_exc("TypeError", "expected str, bytes or os.PathLike object")


def sp_fs_key(I, args, kw):
    """spec function fs_key(p): the key of a Path / str in the ghost `fs`"""
    return VStr(key_of(I, args[0]))


def path_str(I, p):
    # str(Path) is a fixpoint of normalisation (instance of the trusted fact)
    I.path.assume(fs_norm(p.e) == p.e)
    return VStr(p.e)


PATH_METHODS = {"mkdir", "exists", "unlink", "stat", "is_file"}


def path_attr(I, p, name):
    if name == "parent":
        return VPath(fs_parent(p.e))
    if name == "name":
        n = fs_name(p.e)
        I.path.assume(z3.Not(z3.Contains(n, z3.StringVal("/"))))
        return VStr(n)
    if name == "suffix":
        # final component's extension: an uninterpreted function of the path (the model knows nothing else about it)
        f = z3.Function("fs_suffix", _S, _S)
        return VStr(f(p.e))
    if name in PATH_METHODS:
        return VFunc("bmethod", name, selfv=p)
    if I.spec:
        raise Unsupported("Path.%s" % name)
    return None


def fs_Path(I, args, kw):
    """pathlib.Path(x)"""
    if len(args) != 1:
        raise Unsupported("Path() with %d arguments" % len(args))
    v = I.force(args[0]) if not I.spec else args[0]
    if isinstance(v, VPath):
        return v
    if isinstance(v, VStr):
        return VPath(fs_norm(v.e))
    if I.spec:
        raise Unsupported("Path of %s" % type(v).__name__)
    I.raise_exc("TypeError", "expected str, bytes or os.PathLike object")


def _called(I, op):
    _note(I)
    s = _ghost(I, "fs_called", required=False)
    if s is not None:
        from . import builtins as B
        B.set_add(I, s, z3.StringVal(op))


def _set_add(I, gname, key):
    s = _ghost(I, gname, required=False)
    if s is not None:
        from . import builtins as B
        B.set_add(I, s, key)


def os_error(I, cls="OSError", errno=None):
    e = VExc(cls, [], any_subclass=(errno is None))
    e.attrs = {"errno": VInt(errno) if errno is not None else VInt(I.path.fresh("errno", z3.IntSort()))}
    return e


def _interrupt(I, op, when):
    if _opts(I).get("interrupt"):
        if I.path.choice():
            _set_add(I, "fs_called", z3.StringVal("KeyboardInterrupt"))     # ghost marker: an interrupt was delivered
            raise PyRaise(VExc("KeyboardInterrupt", []))


def may_fail(I, op, on_fail=None):
    """the primitive `op` is attempted: it may be interrupted (option) or fail with OSError, nothing changed"""
    _interrupt(I, op, "before")
    if I.path.choice():
        if on_fail is not None:
            on_fail()
        raise PyRaise(os_error(I))


def must_exist(I, key, op):
    m = _ghost(I, "fs")
    if not I.path.branch(z3.Select(m.dom, key)):
        raise PyRaise(os_error(I, "FileNotFoundError", CONSTS[("errno", "ENOENT")]))


def _policy(I, op, target):
    c = getattr(I, "cur_contract", None)
    if c is None or not getattr(c, "fs_policy", None):
        return
    extra = {"fs_op": VStr(op), "fs_target": VStr(target)}
    for nm, src in c.fs_policy:
        I.path.prove(I.eval_spec(src, I.top_env, extra=extra), "%s/effect-policy:%s@%s" % (c.short, nm, op), "assert", where=src)


def check_inv(I, op):
    c = getattr(I, "cur_contract", None)
    if c is None or not getattr(c, "fs_inv", None):
        return
    for nm, src in c.fs_inv:
        I.path.prove(I.eval_spec(src, I.top_env), "%s/crash-inv:%s@%s" % (c.short, nm, op), "invariant", where=src)


def effect(I, op, target, mutate):
    """a state-changing effect on file `target`: policy before, crash invariant after"""
    _policy(I, op, target)
    mutate()
    check_inv(I, op)


def _put(I, key, content):
    from . import builtins as B
    B.map_store(I, _ghost(I, "fs"), key, VStr(content))


def _remove(I, key):
    from . import builtins as B
    B.map_remove(I, _ghost(I, "fs"), key)


def _open_writers(I):
    if not hasattr(I, "fs_writers"):
        I.fs_writers = []
    return I.fs_writers


def _no_open_writer(I, op):
    if _open_writers(I):
        raise Unsupported("%s while a write handle is open (not modelled: writes through a replaced/unlinked name)" % op)


def at_modular_call(I, c, env, snap, caller_old):
    """call of a function under contract that modifies the file system; I.old_env is the callee's pre-state `snap`
    and the ghost state has just been havoc'd"""
    cur = getattr(I, "cur_contract", None)
    if cur is None:
        return
    if getattr(cur, "fs_inv", None):
        if not getattr(c, "fs_inv", None):
            raise Unsupported("callee %s modifies the file system but declares no crash invariant (fs_inv)" % c.short)
        for nm, src in c.fs_inv:
            I.path.assume(I.eval_spec(src, env, assume=True))
        I.old_env = caller_old
        try:
            for nm, src in cur.fs_inv:
                I.path.prove(I.eval_spec(src, I.top_env), "%s/crash-inv:%s@call:%s" % (cur.short, nm, c.short), "invariant", where=src)
        finally:
            I.old_env = snap
        # an interrupt delivered inside the callee leaves one of its intermediate states behind
        _interrupt(I, "call", "inside")
    if getattr(cur, "fs_policy", None):
        if not getattr(c, "fs_policy", None):
            raise Unsupported("callee %s modifies the file system but declares no effect policy (fs_policy)" % c.short)
        extra = {"fs_op": VStr(I.path.fresh("fs_op", _S)), "fs_target": VStr(I.path.fresh("fs_target", _S))}
        for nm, src in c.fs_policy:
            I.path.assume(I.eval_spec(src, env, extra=extra, assume=True))
        I.old_env = caller_old
        try:
            for nm, src in cur.fs_policy:
                I.path.prove(I.eval_spec(src, I.top_env, extra=extra), "%s/effect-policy:%s@call:%s" % (cur.short, nm, c.short), "assert", where=src)
        finally:
            I.old_env = snap


# ----------------------------------------------------------------------------- primitives

def _const_kw(v, what):
    c = const_of(v)
    if c is _NOCONST:
        raise Unsupported("%s must be a constant" % what)
    return c


def fs_ntf(I, args, kw):
    """tempfile.NamedTemporaryFile(prefix=P, dir=D, delete=False)  [binary mode w+b]"""
    if args or set(kw) - {"prefix", "dir", "delete", "mode", "suffix"} or "prefix" not in kw or "dir" not in kw:
        raise Unsupported("NamedTemporaryFile: only (prefix=, dir=, delete=False[, suffix=]) is modelled")
    if _const_kw(kw.get("delete", VBool(True)), "delete") is not False:
        raise Unsupported("NamedTemporaryFile(delete=True)")
    prefix, d = kw["prefix"], kw["dir"]
    if not isinstance(prefix, VStr) or not isinstance(d, VStr):
        raise Unsupported("NamedTemporaryFile prefix/dir must be str")
    _called(I, "NamedTemporaryFile")
    I.path.prove(z3.Not(z3.Contains(prefix.e, z3.StringVal("/"))),
                 "%s/fs:NamedTemporaryFile/pre:prefix-has-no-separator" % I.cur_obl_prefix(), "call-pre",
                 where="'/' not in prefix")
    may_fail(I, "NamedTemporaryFile")
    r = I.path.fresh("tmp_rand", _S)
    I.path.assume(z3.Length(r) == 8)
    I.path.assume(z3.InRe(r, z3.Loop(TMP_CHARS, 8, 8)))
    n = z3.Concat(prefix.e, r)
    sfx = kw.get("suffix")
    has_suffix = isinstance(sfx, VStr)
    if has_suffix:
        # name = prefix + 8 random chars + suffix: no longer of the temp-name shape unless the suffix is empty
        n = z3.Concat(n, sfx.e)
    raw = fs_join(d.e, n)
    key = fs_norm(raw)
    m = _ghost(I, "fs")
    I.path.assume(z3.Not(z3.Select(m.dom, key)))          # O_CREAT|O_EXCL: the name was free
    I.path.assume(fs_name(key) == n)
    if has_suffix:
        I.path.assume(z3.Implies(z3.Length(sfx.e) == 0, fs_is_temp(fs_name(key), prefix.e)))
    else:
        I.path.assume(fs_is_temp(fs_name(key), prefix.e))
    I.path.assume(fs_parent(key) == fs_norm(d.e))
    I.path.assume(fs_norm(key) == key)

    def mut():
        _put(I, key, z3.StringVal(""))
        _set_add(I, "fs_tmps", key)
    effect(I, "NamedTemporaryFile", key, mut)
    from . import builtins as B
    f = B.VFile(key, "w+b", None)
    f.attrs = {"name": VStr(raw)}
    f.raw = False
    f.ntf = True
    f.dirty = False
    _interrupt(I, "NamedTemporaryFile", "after")
    return f


def fs_open(I, args, kw):
    """open(path, mode, buffering=0): 'wb' creates/truncates atomically; 'rb' needs the file; may raise OSError"""
    args = [I.force(a) for a in args]
    if not args:
        I.raise_exc("TypeError", "open() missing file argument")
    mode = args[1] if len(args) > 1 else kw.get("mode", VStr("r"))
    buffering = args[2] if len(args) > 2 else kw.get("buffering", VInt(-1))
    mode = _const_kw(mode, "open mode")
    buffering = _const_kw(buffering, "buffering")
    key = key_of(I, args[0])
    from . import builtins as B
    _called(I, "open")
    if mode in ("wb", "w"):
        may_fail(I, "open")
        effect(I, "open(w)", key, lambda: _put(I, key, z3.StringVal("")))
        f = B.VFile(key, mode, None)
        f.attrs = {}
        f.raw = (buffering == 0 and mode == "wb")
        f.ntf = False
        f.total = z3.StringVal("")          # buffered handles: all bytes handed to write() so far
        f.flushed = z3.IntVal(0)            #                   how many of them have reached the file
        f.clean = True
        _open_writers(I).append(f)
        _interrupt(I, "open", "after")
        return f
    if mode in ("rb", "r"):
        must_exist(I, key, "open")
        may_fail(I, "open")
        f = B.VFile(key, mode, None)
        f.attrs = {}
        f.raw = (buffering == 0)
        f.ntf = False
        _interrupt(I, "open", "after")
        return f
    raise Unsupported("open mode %r" % (mode,))


def file_method(I, f, name, args, kw):
    if name in ("close", "__exit__"):
        if f.closed:
            return VNone()
        f.closed = True                     # the descriptor is released even when close() reports an error
        ws = _open_writers(I)
        if f in ws:
            ws.remove(f)
        _called(I, "close")
        if f.mode == "wb" and not getattr(f, "raw", False) and not getattr(f, "ntf", False) and not getattr(f, "clean", True):
            _buffered_flush(I, f, "close")  # close() of a BufferedWriter flushes what is pending (or raises)
        if _opts(I).get("close_fails", True):
            def failed():
                if getattr(f, "ntf", False):
                    _set_add(I, "fs_ntfclose", f.path)
            may_fail(I, "close", failed)
        else:
            _interrupt(I, "close", "before")
        _interrupt(I, "close", "after")
        return VNone()
    if name == "__enter__":
        return f
    if f.closed:
        I.raise_exc("ValueError", "I/O operation on closed file")
    if name == "write":
        if f.mode != "wb" or getattr(f, "ntf", False):
            raise Unsupported("write on a %s handle (only binary 'wb' handles are modelled)" % f.mode)
        data = args[0]
        if not isinstance(data, VStr):
            I.raise_exc("TypeError", "a bytes-like object is required")
        _called(I, "write")
        if not getattr(f, "raw", False):
            # BufferedWriter.write: takes the whole buffer; part of what is pending may be written through; an error of
            # the underlying raw write surfaces as OSError (the bytes that did reach the file stay there)
            _interrupt(I, "write", "before")
            f.total = z3.simplify(z3.Concat(f.total, data.e))
            f.clean = False
            _buffered_progress(I, f, "write(buffered)")
            if I.path.choice():
                raise PyRaise(os_error(I))
            _interrupt(I, "write", "after")
            return VInt(z3.Length(data.e))
        may_fail(I, "write")
        m = _ghost(I, "fs")
        cur = z3.Select(m.val, f.path)
        n = z3.Length(data.e)
        k = I.path.fresh("written", z3.IntSort())
        I.path.assume(z3.And(0 <= k, k <= n))
        if _opts(I).get("short_write"):
            # raw write(2): may transfer fewer bytes than requested and report the count
            effect(I, "write", f.path, lambda: _put(I, f.path, z3.Concat(cur, z3.SubString(data.e, 0, k))))
            _interrupt(I, "write", "after")
            return VInt(k)
        I.ver.note_assumption("A-FULLWRITE: a raw write() either raises or writes the whole buffer (no short writes); "
                              "the short-write fault is exercised by the contracts tagged [short-write]")
        # kill point inside the write: an arbitrary prefix has reached the file
        effect(I, "write(killed)", f.path, lambda: _put(I, f.path, z3.Concat(cur, z3.SubString(data.e, 0, k))))
        effect(I, "write", f.path, lambda: _put(I, f.path, z3.Concat(cur, data.e)))
        _interrupt(I, "write", "after")
        return VInt(n)
    if name == "flush":
        _called(I, "flush")
        if f.mode == "wb" and not getattr(f, "raw", False) and not getattr(f, "ntf", False):
            _interrupt(I, "flush", "before")
            _buffered_flush(I, f, "flush")
            _interrupt(I, "flush", "after")
            return VNone()
        may_fail(I, "flush")
        return VNone()
    if name == "fileno":
        fd = I.path.fresh("fd", z3.IntSort())
        I.path.assume(fd >= 0)
        return VInt(fd)
    raise Unsupported("file method %s" % name)


def _buffered_progress(I, f, op):
    """some more (possibly none, possibly all) of the bytes handed to a buffered handle reach the file"""
    k = I.path.fresh("flushed", z3.IntSort())
    I.path.assume(z3.And(f.flushed <= k, k <= z3.Length(f.total)))
    f.flushed = k
    effect(I, op, f.path, lambda: _put(I, f.path, z3.SubString(f.total, 0, k)))


def _buffered_flush(I, f, op):
    """BufferedWriter.flush(): loops over the raw write until everything pending is written, or raises OSError
    (then an arbitrary further prefix has been written).  Never short."""
    if I.path.choice():
        _buffered_progress(I, f, op + "(failed)")
        raise PyRaise(os_error(I))
    f.flushed = z3.Length(f.total)
    f.clean = True
    total = f.total
    effect(I, op, f.path, lambda: _put(I, f.path, total))


def sp_fs_name_of(I, args, kw):
    """spec function fs_name_of(key): the file-name component of the file with that key"""
    return VStr(fs_name(args[0].e))


def temp_name_pred(n, prefix):
    """n = prefix + 8 characters of [a-z0-9_]  (the shape of a NamedTemporaryFile(prefix=prefix) name)"""
    return z3.And(z3.PrefixOf(prefix, n), z3.Length(n) == z3.Length(prefix) + 8,
                  z3.InRe(z3.SubString(n, z3.Length(prefix), 8), z3.Loop(TMP_CHARS, 8, 8)))


fs_is_temp = z3.Function("fs_is_temp", _S, _S, z3.BoolSort())


def sp_fs_temp_name(I, args, kw):
    """spec function fs_temp_name(name, prefix).  Inside the contracts the predicate is kept *opaque* (uninterpreted
    symbol fs_is_temp: no string reasoning under quantifiers); by definition fs_is_temp(n, p) :<=> temp_name_pred(n, p).
    The only place that introduces it is the NamedTemporaryFile contract (justified by lemma goal
    temp_name_invisible/ntf-name-has-temp-shape); its consequences are proved from temp_name_pred in that lemma."""
    return VBool(fs_is_temp(args[0].e, args[1].e))


def os_replace(I, args, kw):
    """os.replace(src, dst): atomic, all-or-nothing; FileNotFoundError when src is missing; may raise
    OSError / PermissionError (any errno) leaving everything unchanged"""
    ks, kd = key_of(I, I.force(args[0])), key_of(I, I.force(args[1]))
    _called(I, "os.replace")
    _no_open_writer(I, "os.replace")
    must_exist(I, ks, "os.replace")
    may_fail(I, "os.replace")
    m = _ghost(I, "fs")
    if I.path.branch(ks == kd):
        _interrupt(I, "os.replace", "after")
        return VNone()                                  # rename of a file onto itself: no effect
    content = z3.Select(m.val, ks)
    _policy(I, "os.replace(source)", ks)

    def mut():
        _put(I, kd, content)
        _remove(I, ks)
    effect(I, "os.replace", kd, mut)
    _interrupt(I, "os.replace", "after")
    return VNone()


def shutil_copyfile(I, args, kw):
    """shutil.copyfile / copy / copy2 (src, dst): a *non-atomic* write of dst -- dst is opened for writing (truncated or
    created: first effect, a crash point with dst empty), then filled with the content of src (second effect); either
    step may fail with OSError leaving the state reached so far"""
    ks, kd = key_of(I, I.force(args[0])), key_of(I, I.force(args[1]))
    _called(I, "shutil.copyfile")
    _no_open_writer(I, "shutil.copyfile")
    must_exist(I, ks, "shutil.copyfile")
    may_fail(I, "shutil.copyfile(open)")
    m = _ghost(I, "fs")
    content = z3.Select(m.val, ks)
    effect(I, "shutil.copyfile(truncate)", kd, lambda: _put(I, kd, z3.StringVal("")))
    may_fail(I, "shutil.copyfile(write)")
    effect(I, "shutil.copyfile(write)", kd, lambda: _put(I, kd, content))
    _interrupt(I, "shutil.copyfile", "after")
    return args[1]


def shutil_move(I, args, kw):
    """shutil.move(src, dst): os.rename when possible, else copy + unlink -- modelled as the weaker, non-atomic variant"""
    r = shutil_copyfile(I, args, kw)
    _unlink(I, key_of(I, I.force(args[0])))
    return r


def _unlink(I, key):
    _called(I, "unlink")
    _no_open_writer(I, "unlink")
    must_exist(I, key, "unlink")
    may_fail(I, "unlink", lambda: _set_add(I, "fs_stuck", key))
    effect(I, "unlink", key, lambda: _remove(I, key))
    _interrupt(I, "unlink", "after")
    return VNone()


def os_unlink(I, args, kw):
    return _unlink(I, key_of(I, I.force(args[0])))


def _exists(I, key):
    _called(I, "exists")
    may_fail(I, "exists", lambda: _set_add(I, "fs_stuck", key))
    m = _ghost(I, "fs")
    return VBool(z3.Select(m.dom, key))


def _stat(I, key):
    _called(I, "stat")
    must_exist(I, key, "stat")
    may_fail(I, "stat")
    if STAT_T is None:
        raise Unsupported("fsmodel.declare(R) was not called")
    return I.fresh_value(STAT_T, "stat")


def os_stat(I, args, kw):
    return _stat(I, key_of(I, I.force(args[0])))


def os_chmod(I, args, kw):
    key = key_of(I, I.force(args[0]))
    _called(I, "chmod")
    must_exist(I, key, "chmod")
    may_fail(I, "chmod")
    return VNone()


def os_fsync(I, args, kw):
    _called(I, "fsync")
    may_fail(I, "fsync")
    return VNone()


def os_open(I, args, kw):
    key_of(I, I.force(args[0]))
    if len(args) < 2 or const_of(args[1]) != CONSTS[("os", "O_RDONLY")]:
        raise Unsupported("os.open with flags other than O_RDONLY")
    _called(I, "os.open")
    may_fail(I, "os.open")
    fd = I.path.fresh("fd", z3.IntSort())
    I.path.assume(fd >= 0)
    return VInt(fd)


def os_close(I, args, kw):
    _called(I, "os.close")
    may_fail(I, "os.close")
    return VNone()


def path_method(I, p, name, args, kw):
    if name == "exists":
        return _exists(I, p.e)
    if name == "is_file":
        # every entry of the model is a regular file; Path.is_file() swallows OSError and answers False then:
        # the answer is an arbitrary boolean that implies existence (sound over-approximation)
        _called(I, "is_file")
        m = _ghost(I, "fs")
        b = z3.FreshConst(z3.BoolSort(), "is_file")
        I.path.assume(z3.Implies(b, z3.Select(m.dom, p.e)))
        return VBool(b)
    if name == "unlink":
        if args or kw:
            raise Unsupported("Path.unlink(missing_ok=...)")
        return _unlink(I, p.e)
    if name == "stat":
        return _stat(I, p.e)
    if name == "mkdir":
        # directories are not modelled: mkdir either raises or has no effect on the files
        _called(I, "mkdir")
        may_fail(I, "mkdir")
        return VNone()
    raise Unsupported("Path.%s" % name)


def time_sleep(I, args, kw):
    x = to_real(args[0])
    I.require_defined(x >= 0, "ValueError", "sleep length must be non-negative")
    _interrupt(I, "sleep", "before")
    return VNone()


def random_uniform(I, args, kw):
    a, b = to_real(args[0]), to_real(args[1])
    r = I.path.fresh("uniform", z3.RealSort())
    I.path.assume(z3.Or(z3.And(a <= r, r <= b), z3.And(b <= r, r <= a)))
    I.ver.note_assumption("random.uniform(a, b) is an arbitrary real between a and b")
    return VReal(r)


def json_dumps(I, args, kw):
    """json.dumps(obj, sort_keys=, separators=, ensure_ascii=): a deterministic (opaque) string function of its
    arguments; raises TypeError / ValueError for unserialisable or circular input"""
    if len(args) != 1 or set(kw) - {"sort_keys", "separators", "ensure_ascii"}:
        raise Unsupported("json.dumps signature")
    sep = kw.get("separators", VNone())
    packed = VTuple([args[0], kw.get("sort_keys", VBool(False)), sep if not isinstance(sep, VNone) else VTuple([VStr(", "), VStr(": ")]),
                     kw.get("ensure_ascii", VBool(True))])
    if not I.spec:
        if I.path.choice():
            I.raise_exc("TypeError", "Object is not JSON serializable")
        if I.path.choice():
            I.raise_exc("ValueError", "Circular reference detected")
    I.ver.note_assumption("json.dumps is an opaque deterministic function of (obj, sort_keys, separators, ensure_ascii) "
                          "that may raise TypeError / ValueError")
    return I.ver.opaque_str("json_dumps", packed, I)


TABLE = {
    ("pathlib", "Path"): fs_Path,
    ("tempfile", "NamedTemporaryFile"): fs_ntf,
    ("os", "replace"): os_replace,
    ("shutil", "copyfile"): shutil_copyfile, ("shutil", "copy"): shutil_copyfile, ("shutil", "copy2"): shutil_copyfile,
    ("shutil", "move"): shutil_move,
    ("os", "unlink"): os_unlink,
    ("os", "remove"): os_unlink,
    ("os", "stat"): os_stat,
    ("os", "chmod"): os_chmod,
    ("os", "fsync"): os_fsync,
    ("os", "open"): os_open,
    ("os", "close"): os_close,
    ("time", "sleep"): time_sleep,
    ("random", "uniform"): random_uniform,
    ("json", "dumps"): json_dumps,
}

# Linux values (only compared with each other / with the symbolic errno of a failed call)
CONSTS = {
    ("os", "O_RDONLY"): 0,
    ("errno", "EPERM"): 1, ("errno", "ENOENT"): 2, ("errno", "EIO"): 5, ("errno", "EACCES"): 13,
    ("errno", "EBUSY"): 16, ("errno", "ENOSPC"): 28,
}
