"""Lemmas over contracts: plain SMT validity goals that mention spec functions only (never code)."""
from __future__ import annotations
import time
import z3


def run_lemmas(REG, prop, timeout_ms):
    out = []
    for name, p, builder in REG.lemmas:
        if p != prop:
            continue
        t0 = time.time()
        try:
            goals = builder()
        except Exception as ex:
            out.append({"name": name, "status": "unknown", "seconds": 0.0, "detail": "builder error %r" % ex})
            continue
        for g in goals:
            # (goalname, hyps, goal[, opts]); opts["z3_timeout_ms"] bounds the first (z3 API) attempt so that goals known
            # to need the cvc5 fallback (string theory) do not sit out the whole budget first
            gname, hyps, goal = g[0], g[1], g[2]
            opts = g[3] if len(g) > 3 else {}
            t0 = time.time()
            s = z3.Solver()
            s.set("timeout", min(timeout_ms, opts.get("z3_timeout_ms", timeout_ms)))
            for h in hyps:
                s.add(h)
            s.add(z3.Not(goal))
            r = s.check()
            st = "proved" if r == z3.unsat else ("failed" if r == z3.sat else "unknown")
            backend = "z3"
            if st == "unknown":
                from .smt import fallback_prove
                ok, be = fallback_prove(hyps, goal, timeout_ms)
                if ok:
                    st, backend = "proved", be
            d = {"name": "%s/%s" % (name, gname), "status": st, "seconds": round(time.time() - t0, 3),
                 "backend": backend, "where": str(goal)[:300]}
            if st == "failed":
                d["model"] = str(s.model())[:3000]
            out.append(d)
    return out
