"""Counter-model -> concrete python inputs (for replay against the real code)."""
from __future__ import annotations
import z3
from .values import *  # noqa
from .core import *  # noqa

MAXN = 12


def _ev(model, e):
    return model.eval(e, model_completion=True)


def cz(v, model, universe=None):
    if isinstance(v, VInt):
        r = _ev(model, v.e)
        return r.as_long() if z3.is_int_value(r) else str(r)
    if isinstance(v, VReal):
        r = _ev(model, v.e)
        if z3.is_rational_value(r):
            return {"$real": [str(r.numerator_as_long()), str(r.denominator_as_long())]}
        try:
            return {"$real_approx": r.approx(12).as_decimal(12)}
        except Exception:
            return {"$real_str": str(r)}
    if isinstance(v, VBool):
        return z3.is_true(_ev(model, v.e))
    if isinstance(v, VStr):
        r = _ev(model, v.e)
        return r.as_string() if z3.is_string_value(r) else str(r)
    if isinstance(v, VPath):
        r = _ev(model, v.e)
        return {"$path": r.as_string() if z3.is_string_value(r) else str(r)}
    if isinstance(v, VNone):
        return None
    if type(v).__name__ == "VDyn":
        from .dyn import concretize
        return concretize(v, model)
    if isinstance(v, VNaN):
        return {"$float": "nan"}
    if isinstance(v, VUn):
        return {"$un": str(_ev(model, v.e))}
    if isinstance(v, VOpt):
        if z3.is_true(_ev(model, v.is_none())):
            return None
        return cz(v.val(), model)
    if isinstance(v, VTuple):
        return {"$tuple": [cz(x, model) for x in v.items]}
    if isinstance(v, VRec):
        return {"$rec": v.t.nm, "fields": {k: cz(x, model) for k, x in v.fields.items()}}
    if isinstance(v, VSeq):
        n = _ev(model, v.n)
        n = n.as_long() if z3.is_int_value(n) else 0
        out = [cz(v.get(z3.IntVal(i)), model) for i in range(min(n, MAXN))]
        return {"$seq": out, "len": n, "kind": v.kind}
    if isinstance(v, (VMap, VSet)):
        keys = candidate_keys(v, model)
        items = []
        for kk in keys:
            if z3.is_true(_ev(model, z3.Select(v.dom, kk))):
                kc = cz(v.kt.wrap(kk), model)
                if isinstance(v, VMap):
                    items.append([kc, cz(v.get(kk), model)])
                else:
                    items.append(kc)
        card = _ev(model, v.card)
        d = {"$map" if isinstance(v, VMap) else "$set": items, "card": card.as_long() if z3.is_int_value(card) else None}
        if isinstance(v, VMap) and v.order is not None:
            d["order"] = cz(v.order, model)
        return d
    if isinstance(v, VObj):
        return {"$obj": getattr(v.cls, "name", str(v.cls)), "fields": {k: cz(x, model) for k, x in v.fields.items()}}
    if isinstance(v, VDRec):
        return {"$dict": {fn: cz(v.field(fn), model) for fn in v.t.fields if z3.is_true(_ev(model, v.has(fn)))}}
    if isinstance(v, VDictRec):
        return {"$dict": {k: cz(x, model) for k, x in v.fields.items()}}
    if type(v).__name__ in ("VJDict", "VJSet", "VJList", "VWStr"):
        from . import jsontree
        return jsontree.concretize(v, model, cz)
    if isinstance(v, VOptObj):
        return {"$present": z3.is_true(_ev(model, v.present))}
    if isinstance(v, VFunc):
        return {"$func": v.name}
    return {"$opaque": type(v).__name__}


def candidate_keys(v, model):
    """keys worth testing for membership: constants of the key sort that occur in the model"""
    sort = v.kt.sort()
    cands = []
    seen = set()

    def add(e):
        s = str(e)
        if s not in seen:
            seen.add(s)
            cands.append(e)
    try:
        if sort.kind() == z3.Z3_UNINTERPRETED_SORT:
            for u in model.get_universe(sort) or []:
                add(u)
    except Exception:
        pass
    for d in model.decls():
        try:
            val = model[d]
            if d.arity() == 0 and val is not None and val.sort() == sort:
                add(val)
            if d.arity() == 0 and z3.is_array_sort(val.sort()) if val is not None and hasattr(val, "sort") else False:
                walk_array(val, sort, add)
        except Exception:
            continue
    try:
        walk_array(_ev(model, v.dom), sort, add)
    except Exception:
        pass
    return cands[:40]


def walk_array(a, sort, add, depth=0):
    if depth > 60:
        return
    try:
        if z3.is_store(a):
            idx = a.arg(1)
            if idx.sort() == sort:
                add(idx)
            val = a.arg(2)
            if val.sort() == sort:
                add(val)
            walk_array(a.arg(0), sort, add, depth + 1)
    except Exception:
        pass


def concretize_env(ver, env, model):
    out = {}
    e = env
    while e is not None:
        for k, v in e.vars.items():
            if k not in out:
                try:
                    out[k] = cz(v, model)
                except Exception as ex:
                    out[k] = {"$error": repr(ex)}
        e = e.parent
    return out
