"""Semantics of operators, builtin functions and builtin-type methods (the trusted environment)."""
from __future__ import annotations
import ast
import z3

from .values import *  # noqa
from .core import *  # noqa
from .core import _NOCONST
from .interp import VEmptyList, VEmptySet, TOptObj, TDictRec, Interp, SpecUndef, _has_nan
from . import frontend
from . import dyn as D
from .dyn import VDyn, TDyn
from . import jsonmodel as JM
from . import jsontree
from .jsontree import VJDict, VJSet, VJList, VWStr


# =============================================================== operators

def binop(I, op, a, b):
    if isinstance(a, VUndef) or isinstance(b, VUndef):
        return VUndef()
    if not I.spec:
        a, b = I.force(a), I.force(b)
    else:
        if isinstance(a, VOpt):
            a = a.val()
        if isinstance(b, VOpt):
            b = b.val()
    if is_num(a) and is_num(b):
        real = isinstance(a, VReal) or isinstance(b, VReal)
        if isinstance(op, ast.Add):
            return VReal(to_real(a) + to_real(b)) if real else VInt(to_int(a) + to_int(b))
        if isinstance(op, ast.Sub):
            return VReal(to_real(a) - to_real(b)) if real else VInt(to_int(a) - to_int(b))
        if isinstance(op, ast.Mult):
            return VReal(I.ver.mul_real(to_real(a), to_real(b))) if real else VInt(to_int(a) * to_int(b))
        if isinstance(op, ast.Div):
            d = to_real(b)
            I.require_defined(d != 0, "ZeroDivisionError", "division by zero")
            return VReal(I.ver.div_real(to_real(a), d))
        if isinstance(op, ast.FloorDiv):
            if real:
                raise Unsupported("float floor division")
            d = to_int(b)
            I.require_defined(d != 0, "ZeroDivisionError", "integer division by zero")
            if isinstance(const_of(VInt(d)), int):
                return VInt(py_floordiv(to_int(a), d))
            return VInt(I.ver.floordiv_term(I, to_int(a), d))
        if isinstance(op, ast.Mod):
            if real:
                raise Unsupported("float modulo")
            d = to_int(b)
            I.require_defined(d != 0, "ZeroDivisionError", "modulo by zero")
            if isinstance(const_of(VInt(d)), int):
                return VInt(py_mod(to_int(a), d))
            return VInt(I.ver.mod_term(I, to_int(a), d))
        if isinstance(op, ast.Pow):
            cb = const_of(b)
            ca = const_of(a)
            if isinstance(ca, int) and isinstance(cb, int) and not isinstance(ca, bool) and 0 <= cb <= 64:
                return VInt(z3.IntVal(ca ** cb))
            if isinstance(cb, int) and not isinstance(cb, bool) and 0 <= cb <= 4:
                if real:
                    r = z3.RealVal(1)
                    for _ in range(cb):
                        r = r * to_real(a)
                    return VReal(r)
                r = z3.IntVal(1)
                for _ in range(cb):
                    r = r * to_int(a)
                return VInt(r)
            return VReal(I.ver.pow_term(I, to_real(a), to_real(b)))
    if isinstance(a, VStr) and isinstance(b, VStr) and isinstance(op, ast.Add):
        return VStr(z3.Concat(a.e, b.e))
    if isinstance(a, VTuple) and isinstance(b, VTuple) and isinstance(op, ast.Add):
        return VTuple(a.items + b.items)
    if isinstance(op, ast.Add) and isinstance(a, (VSeq, VEmptyList)) and isinstance(b, (VSeq, VEmptyList)):
        if isinstance(a, VEmptyList):
            return seq_copy(b) if isinstance(b, VSeq) else VEmptyList()
        if isinstance(b, VEmptyList):
            return seq_copy(a)
        if a.et != b.et:
            raise Unsupported("list concat of different element types")
        i = z3.Int("cc_i")
        if getattr(I.cur_contract, "named_seqs", False) and not I.spec:
            return named_concat(I, a, b)
        arr = z3.Lambda([i], z3.If(i < a.n, z3.Select(a.arr, i), z3.Select(b.arr, i - a.n)))
        return VSeq(arr, a.n + b.n, a.et, "list")
    if isinstance(op, ast.Mod) and isinstance(a, VStr):
        return I.ver.opaque_str("pct", VTuple([a, b]), I)
    if isinstance(op, ast.BitOr) and isinstance(a, VSet) and isinstance(b, VSet):
        raise Unsupported("set union")
    if (isinstance(a, VJSet) and isinstance(b, (VJSet, VEmptySet))) or (isinstance(b, VJSet) and isinstance(a, VEmptySet)):
        return jsontree.set_binop(I, op, a, b)
    if isinstance(a, VEmptySet) and isinstance(b, VEmptySet) and isinstance(op, (ast.Sub, ast.BitAnd, ast.BitOr)):
        return VEmptySet()
    if isinstance(op, ast.Add) and (isinstance(a, VJList) or isinstance(b, VJList)):
        xs, ys = jsontree.list_items_of(I, a), jsontree.list_items_of(I, b)
        if xs is not None and ys is not None and not isinstance(a, VTuple) and not isinstance(b, VTuple):
            return VJList(xs + ys)
    if I.spec:
        raise Unsupported("binop %s on %s,%s" % (type(op).__name__, type(a).__name__, type(b).__name__))
    I.raise_exc("TypeError", "unsupported operand types")


def named_concat(I, a, b):
    """contract option named_seqs: a + b as a *named* array constrained pointwise with explicit triggers (same meaning
    as the lambda encoding, but quantifier instantiation can chain through it)"""
    i = z3.Int("cc_i")
    res = I.fresh_value(TList(a.et), "cat")
    p = I.path
    p.assume(res.n == a.n + b.n)
    plain = lambda arr: not z3.is_quantifier(arr)
    pa = [z3.Select(res.arr, i)] + ([z3.Select(a.arr, i)] if plain(a.arr) else [])
    p.assume(z3.ForAll([i], z3.Implies(z3.And(0 <= i, i < a.n), z3.Select(res.arr, i) == z3.Select(a.arr, i)), patterns=pa))
    p.assume(z3.ForAll([i], z3.Implies(z3.And(a.n <= i, i < a.n + b.n), z3.Select(res.arr, i) == z3.Select(b.arr, i - a.n)),
                       patterns=[z3.Select(res.arr, i)]))
    if plain(b.arr):
        p.assume(z3.ForAll([i], z3.Implies(z3.And(0 <= i, i < b.n), z3.Select(res.arr, a.n + i) == z3.Select(b.arr, i)),
                           patterns=[z3.Select(b.arr, i)]))
    return res


def seq_copy(s):
    return VSeq(s.arr, s.n, s.et, "list")


def contains(I, cont, x):
    if not I.spec:
        cont = I.force(cont)
        if isinstance(x, VDyn):
            x = I.force(x)
    if isinstance(cont, VDyn):
        raise Unsupported("'in' on a Dyn value in a specification (use as_dict/as_list/as_str)")
    if isinstance(cont, VEmptySet):
        return z3.BoolVal(False)
    if getattr(cont, "pyconstset", False):
        # membership in a set hashes x first: lists / dicts / sets are unhashable -> TypeError
        if isinstance(x, VDyn):
            if not I.spec:
                I.require_defined(z3.Not(z3.Or(D.is_list(x.e), D.is_dict(x.e))), "TypeError", "unhashable type")
        elif isinstance(x, (VSeq, VMap, VSet, VDictRec, VEmptyList, VEmptySet)):
            if I.spec:
                return z3.BoolVal(False)
            I.raise_exc("TypeError", "unhashable type")
        return z3.Or([I.eq(x, c) for c in cont.items] + [z3.BoolVal(False)])
    if isinstance(cont, VDRec):
        c = const_of(x) if isinstance(x, VStr) else _NOCONST
        if isinstance(c, str):
            return cont.has(c)
        if isinstance(x, VStr):
            return z3.Or([z3.And(x.e == z3.StringVal(fn), cont.has(fn)) for fn in cont.t.fields] + [z3.BoolVal(False)])
        return z3.BoolVal(False)
    if isinstance(cont, VJDict):
        return jsontree.contains(I, cont, x)
    if isinstance(cont, (VJSet, VJList)):
        return jsontree.set_contains(I, cont, x)
    if isinstance(cont, VMap) or isinstance(cont, VSet):
        if isinstance(x, VDyn):
            if cont.kt is TStr or cont.kt is D.TDKey:
                return z3.And(D.is_str(x.e), z3.Select(cont.dom, unwrap(VStr(D.js(x.e)), cont.kt)))
            raise Unsupported("Dyn key tested against a non-string keyed container in a specification")
        if not I.spec and isinstance(x, (VSeq, VMap, VSet, VDictRec, VEmptyList)):
            I.raise_exc("TypeError", "unhashable type")
        if isinstance(cont, VMap) and isinstance(x, VStr) and getattr(cont, "from_dyn", False):
            D.key_fact(I, cont, unwrap(x, cont.kt))
        if isinstance(x, VOpt) and not isinstance(cont.kt, TOpt) and x.t.inner == cont.kt:
            return z3.And(z3.Not(x.is_none()), z3.Select(cont.dom, x.t.dt.val(x.e)))
        try:
            k = unwrap(x, cont.kt)
        except TypeError:
            return z3.BoolVal(False)
        return z3.Select(cont.dom, k)
    if isinstance(cont, VMapView):
        if cont.kind == "keys":
            return contains(I, cont.m, x)
        raise Unsupported("in on dict view")
    if isinstance(cont, VLocals):
        c = const_of(x) if isinstance(x, VStr) else _NOCONST
        if not isinstance(c, str):
            raise Unsupported("symbolic name looked up in locals()")
        if cont.env.lookup(c) is not None:
            return z3.BoolVal(True)
        if cont.assigned_somewhere(c):
            I.ver.note_assumption("'name' in locals() for a name first bound inside a cut loop is nondeterministic")
            return I.path.fresh("locals_has_" + c, z3.BoolSort())
        return z3.BoolVal(False)
    if isinstance(cont, VDictRec):
        c = const_of(x) if isinstance(x, VStr) else _NOCONST
        if isinstance(c, str):
            return z3.BoolVal(c in cont.fields)
        if isinstance(x, VStr):
            return z3.Or([x.e == z3.StringVal(k) for k in cont.fields] + [z3.BoolVal(False)])
        return z3.BoolVal(False)
    if isinstance(cont, VRec) and getattr(cont.t, "dictshape", False):
        c = const_of(x) if isinstance(x, VStr) else _NOCONST
        if isinstance(c, str):
            if c not in cont.fields:
                return z3.BoolVal(False)
            return z3.Not(cont.fields[c].is_none()) if c in cont.t.optkeys else z3.BoolVal(True)
        raise Unsupported("symbolic key membership in a dict-shaped record")
    if isinstance(cont, VSeq):
        i = z3.Int(I.path.fresh_name("in_i"))
        el = cont.et.wrap(z3.Select(cont.arr, i))
        return z3.Exists([i], z3.And(0 <= i, i < cont.n, I.eq(el, x)))
    if isinstance(cont, VEmptyList):
        return z3.BoolVal(False)
    if isinstance(cont, VTuple):
        return z3.Or([I.eq(y, x) for y in cont.items] + [z3.BoolVal(False)])
    if isinstance(cont, VStr) and isinstance(x, VStr):
        return z3.Contains(cont.e, x.e)
    if isinstance(cont, VObj):
        ci = I.class_of(cont)
        if ci is not None and ci.find_method("__contains__"):
            return I.truth(I.call_method_ast(cont, "__contains__", [x], {}))
        # protocol object declared with R.objtype(...) without a class: `x in obj` goes through its function-typed
        # field `__contains__` (contract declared with R.funtype)
        fld = cont.fields.get("__contains__")
        if isinstance(fld, VFunc) and not I.spec:
            return I.truth(I.call(fld, [x], {}))
    if I.spec:
        raise Unsupported("'in' on %s" % type(cont).__name__)
    I.raise_exc("TypeError", "argument is not iterable")


def norm_index(I, seq, k):
    idx = to_int(k)
    c = const_of(k)
    if isinstance(c, int) and c >= 0:
        return idx
    if I.spec and not isinstance(c, int):
        # spec expressions index with non-negative terms by convention (keeps quantifier triggers simple)
        return idx
    return z3.If(idx < 0, idx + seq.n, idx)


def subscript(I, o, k):
    if isinstance(o, VUndef) or isinstance(k, VUndef):
        return VUndef()
    if not I.spec:
        if isinstance(o, VDyn) and isinstance(k, VStr):
            o = D.exec_tag_view(I, o, "dict")
            if o is None:
                I.raise_exc("TypeError", "indices must be integers / object is not subscriptable")
        o = I.force(o)
        k = I.force(k)
    elif isinstance(o, VOpt):
        o = o.val()
    if isinstance(o, VDyn):     # spec mode only (exec mode forced above): choose the view by the key's type
        o = D.spec_view(I, o, "dict" if isinstance(k, VStr) else "list")
    if isinstance(k, VDyn):
        k = D.spec_view(I, k, "str" if isinstance(o, (VMap, VDictRec)) else "int")
    if isinstance(o, VSeq):
        if not is_num(k) or isinstance(k, VReal):
            I.raise_exc("TypeError", "list indices must be integers")
        idx = norm_index(I, o, k)
        I.require_defined(z3.And(0 <= idx, idx < o.n), "IndexError", "list index out of range")
        return o.get(idx)
    if isinstance(o, VEmptyList):
        I.raise_exc("IndexError", "list index out of range")
    if isinstance(o, VMap):
        try:
            kk = unwrap(k, o.kt)
        except TypeError:
            I.raise_exc("KeyError", "key of wrong type")
        if getattr(o, "default_e", None) is not None and not I.spec:
            # collections.defaultdict: reading a missing key inserts the default and yields it (no KeyError)
            present = z3.Select(o.dom, kk)
            val = z3.If(present, z3.Select(o.val, kk), o.default_e)
            o.val = z3.Store(o.val, kk, val)
            o.dom = z3.Store(o.dom, kk, z3.BoolVal(True))
            o.card = z3.simplify(o.card + z3.If(present, 0, 1))
            I.path.assume(o.card >= 1)
            o.writeback()
            return o.vt.wrap(val)
        I.require_defined(z3.Select(o.dom, kk), "KeyError", "missing key")
        I.ver.on_map_read(I, o, kk)
        D.key_fact(I, o, kk)
        return o.get(kk)
    if isinstance(o, VTuple):
        c = const_of(k)
        if isinstance(c, int):
            if -len(o.items) <= c < len(o.items):
                return o.items[c]
            I.raise_exc("IndexError", "tuple index out of range")
        # symbolic index into a homogeneous tuple
        idx = to_int(k)
        I.require_defined(z3.And(0 <= idx, idx < len(o.items)), "IndexError", "tuple index")
        cur = o.items[-1]
        for j in range(len(o.items) - 2, -1, -1):
            cur = I.ite(idx == j, o.items[j], cur)
        return cur
    if isinstance(o, VLocals):
        c = const_of(k) if isinstance(k, VStr) else _NOCONST
        if not isinstance(c, str):
            raise Unsupported("symbolic name looked up in locals()")
        v = o.env.lookup(c)
        if v is not None:
            return v
        lt = I.ver.local_type(I, c)
        if lt is None or not o.assigned_somewhere(c):
            raise Unsupported("locals()[%r]: unbound name without a declared local type" % c)
        return I.fresh_value(lt, "locals_" + c)
    if isinstance(o, VDRec):
        c = const_of(k) if isinstance(k, VStr) else _NOCONST
        if not isinstance(c, str):
            raise Unsupported("symbolic key into a dict-shaped record")
        if c not in o.t.fields:
            I.raise_exc("KeyError", c)
        I.require_defined(o.has(c), "KeyError", c)
        return o.field(c)
    if isinstance(o, VJDict):
        return jsontree.subscript(I, o, k)
    if isinstance(o, VJList):
        return jsontree.list_subscript(I, o, k)
    if isinstance(o, VDictRec):
        c = const_of(k) if isinstance(k, VStr) else _NOCONST
        if isinstance(c, str):
            if c in o.fields:
                return o.fields[c]
            I.raise_exc("KeyError", c)
        if not o.fields:
            I.raise_exc("KeyError", "empty dict")
        raise Unsupported("symbolic key into literal dict")
    if isinstance(o, VRec) and getattr(o.t, "dictshape", False):
        c = const_of(k) if isinstance(k, VStr) else _NOCONST
        if not isinstance(c, str):
            raise Unsupported("symbolic key into a dict-shaped record")
        if c not in o.fields:
            I.raise_exc("KeyError", c)
        if c in o.t.optkeys:
            f = o.fields[c]
            I.require_defined(z3.Not(f.is_none()), "KeyError", c)
            return f.val()
        return o.fields[c]
    if isinstance(o, VStr):
        if not is_num(k) or isinstance(k, VReal):
            I.raise_exc("TypeError", "string indices must be integers")
        idx = to_int(k)
        n = z3.Length(o.e)
        idx2 = z3.If(idx < 0, idx + n, idx)
        I.require_defined(z3.And(0 <= idx2, idx2 < n), "IndexError", "string index")
        return VStr(z3.SubString(o.e, idx2, 1))
    if isinstance(o, VObj):
        ci = I.class_of(o)
        if ci is not None and ci.find_method("__getitem__"):
            return I.call_method_ast(o, "__getitem__", [k], {})
    if isinstance(o, VRec) and getattr(o.t, "dictlike", False):
        val, has = _rec_dict_key(o, k)
        if has is not None:
            I.require_defined(has, "KeyError", "missing key")
        return val
    if isinstance(o, VNone):
        I.raise_exc("TypeError", "'NoneType' object is not subscriptable")
    if I.spec:
        raise Unsupported("subscript on %s" % type(o).__name__)
    I.raise_exc("TypeError", "object is not subscriptable")


def slice_(I, o, lo, hi):
    o = I.force(o) if not I.spec else o
    if isinstance(o, VEmptyList):
        return VEmptyList()
    if isinstance(o, VJList):
        return jsontree.list_slice(I, o, lo, hi)
    if isinstance(o, VSeq):
        n = o.n

        def clampi(v, dflt):
            if v is None or isinstance(v, VNone):
                return dflt
            x = to_int(I.force(v) if not I.spec else v)
            if not I.path.known(x >= 0):
                x = z3.If(x < 0, x + n, x)
                x = z3.If(x < 0, 0, x)
            if I.path.known(x <= n):
                return x
            return z3.If(x > n, n, x)
        a = clampi(lo, z3.IntVal(0))
        b = clampi(hi, n)
        ln = (b - a) if I.path.known(b >= a) else z3.If(b > a, b - a, 0)
        if z3.is_int_value(z3.simplify(a)) and z3.simplify(a).as_long() == 0:
            return VSeq(o.arr, z3.simplify(ln), o.et, "list")
        i = z3.Int("sl_i")
        arr = z3.Lambda([i], z3.Select(o.arr, i + a))
        return VSeq(arr, z3.simplify(ln), o.et, "list")
    if isinstance(o, VTuple):
        cl = None if lo is None else const_of(lo)
        ch = None if hi is None else const_of(hi)
        if cl is _NOCONST or ch is _NOCONST:
            raise Unsupported("symbolic tuple slice")
        return VTuple(o.items[cl:ch])
    if isinstance(o, VStr):
        n = z3.Length(o.e)

        def cl2(v, dflt):
            if v is None or isinstance(v, VNone):
                return dflt
            x = to_int(v)
            x = z3.If(x < 0, x + n, x)
            return z3.If(x < 0, 0, z3.If(x > n, n, x))
        a = cl2(lo, z3.IntVal(0))
        b = cl2(hi, n)
        return VStr(z3.SubString(o.e, a, z3.If(b > a, b - a, 0)))
    raise Unsupported("slice of %s" % type(o).__name__)


# --------------------------------------------------------------- map mutation primitives

def check_literal_shape(I, v, t):
    """a dict literal stored where a dict-shaped record is expected: its key set is an obligation"""
    if isinstance(t, TDRec) and isinstance(v, VDictRec):
        ok = drec_shape_ok(v, t)
        I.path.prove(z3.BoolVal(ok), "%s/dict-shape:%s" % (I.cur_obl_prefix(), t.nm), "shape",
                     where="keys %s == documented keys of %s" % (sorted(v.fields), t.nm))
        if not ok:
            raise PathEnd("dict literal of the wrong shape")


def map_store(I, m, kk, v):
    """m[kk] = v  (kk z3 key expr)"""
    check_literal_shape(I, v, m.vt)
    was = z3.Select(m.dom, kk)
    ve = unwrap(v, m.vt)
    I.ver.on_map_store(I, m, kk, ve, was)
    m.val = z3.Store(m.val, kk, ve)
    m.dom = z3.Store(m.dom, kk, z3.BoolVal(True))
    m.card = z3.simplify(m.card + z3.If(was, 0, 1))
    if m.order is not None:
        o = m.order
        o.arr = z3.If(was, o.arr, z3.Store(o.arr, o.n, kk))
        o.n = m.card
        refresh_order(I, m)
    I.path.assume(m.card >= 1)
    m.writeback()


def map_remove(I, m, kk):
    """remove a key that is present"""
    I.ver.on_map_remove(I, m, kk)
    if m.order is not None:
        o = m.order
        p = m.pos(kk)
        i = z3.Int("rm_i")
        o.arr = z3.Lambda([i], z3.If(i < p, z3.Select(o.arr, i), z3.Select(o.arr, i + 1)))
    m.dom = z3.Store(m.dom, kk, z3.BoolVal(False))
    m.card = z3.simplify(m.card - 1)
    if m.order is not None:
        m.order.n = m.card
        refresh_order(I, m)
    I.path.assume(m.card >= 0)
    k = z3.Const("wf_k", m.kt.sort())
    I.path.assume((m.card == 0) == z3.ForAll([k], z3.Not(z3.Select(m.dom, k))))
    m.writeback()


def refresh_order(I, m):
    """re-establish the (trusted) listing facts of an ordered map after a mutation"""
    I.assume_wf_order(m)


def set_add(I, s, kk):
    was = z3.Select(s.dom, kk)
    s.dom = z3.Store(s.dom, kk, z3.BoolVal(True))
    s.card = z3.simplify(s.card + z3.If(was, 0, 1))
    I.path.assume(s.card >= 1)
    s.writeback()


def store_subscript(I, o, k, v):
    o = I.force(o)
    k = I.force(k)
    if isinstance(o, VRec) and getattr(o.t, "dictshape", False):
        raise Unsupported("mutation of a dict-shaped record (%s)" % o.t.nm)
    if isinstance(o, VMap):
        kk = unwrap(k, o.kt)
        map_store(I, o, kk, v)
        if isinstance(v, VDictRec) and isinstance(o.vt, TMutRec):
            v.origin = (o, kk)
            v.adopt(o.vt)
        return
    if isinstance(o, VSeq):
        idx = norm_index(I, o, k)
        I.require_defined(z3.And(0 <= idx, idx < o.n), "IndexError", "list assignment index out of range")
        o.arr = z3.Store(o.arr, idx, unwrap(v, o.et))
        o.writeback()
        return
    if isinstance(o, VJDict):
        jsontree.store(I, o, k, v)
        return
    if isinstance(o, VDictRec):
        c = const_of(k) if isinstance(k, VStr) else _NOCONST
        if isinstance(c, str):
            if o.mt is not None:
                # by-value record: fixed keys, typed fields, mutation written back to the owning container
                if c not in o.mt.fields:
                    raise Unsupported("new key %r stored into a %s record" % (c, o.mt.nm))
                ft = o.mt.fields[c]
                if isinstance(v, VDictRec) and isinstance(ft, TMutRec):
                    v.origin = (o, c)
                    v.adopt(ft)
                elif isinstance(v, (VSeq, VMap, VSet)):
                    v.origin = (o, c)
                elif not isinstance(v, VDictRec):
                    v = ft.wrap(unwrap(v, ft))
                o.fields[c] = v
                o.writeback()
                return
            o.fields[c] = v
            return
        raise Unsupported("symbolic key store into literal dict")
    if isinstance(o, VObj):
        ci = I.class_of(o)
        if ci is not None and ci.find_method("__setitem__"):
            I.call_method_ast(o, "__setitem__", [k, v], {})
            return
    I.raise_exc("TypeError", "object does not support item assignment")


def del_subscript(I, o, k):
    o = I.force(o)
    if isinstance(o, VMap):
        kk = unwrap(k, o.kt)
        I.require_defined(z3.Select(o.dom, kk), "KeyError", "del missing key")
        map_remove(I, o, kk)
        return
    if isinstance(o, VJDict):
        jsontree.delete(I, o, k)
        return
    if isinstance(o, VDictRec):
        c = const_of(k)
        if isinstance(c, str):
            if c not in o.fields:
                I.raise_exc("KeyError", c)
            del o.fields[c]
            return
    raise Unsupported("del subscript on %s" % type(o).__name__)


class VMapView(V):
    t = None

    def __init__(self, m, kind):
        self.m = m
        self.kind = kind


class VLocals(V):
    """the result of locals() used as a read-only mapping: `'x' in locals()` / `locals()['x']`.  A name bound in the
    current activation is present with its value.  A name that is unbound *in the engine's environment* but assigned
    somewhere in the function (e.g. first bound inside a loop that was cut by an invariant) may or may not be bound
    in a real execution: membership is then a nondeterministic boolean and its value an arbitrary value of the
    declared local type.  Any other name is absent."""
    t = None

    def __init__(self, env, fnode):
        self.env = env
        self.fnode = fnode

    def assigned_somewhere(self, name):
        if self.fnode is None:
            return True
        for n in ast.walk(self.fnode):
            if isinstance(n, ast.Name) and n.id == name and isinstance(n.ctx, ast.Store):
                return True
        return False


class VRange(V):
    t = None

    def __init__(self, lo, hi, step=1):
        self.lo, self.hi, self.step = lo, hi, step


class VEnum(V):
    t = None

    def __init__(self, inner, start=0):
        self.inner = inner
        self.start = start


class VExt(V):
    """an object of an external (stdlib) class modelled by a table of builtin methods"""
    t = None

    def __init__(self, tag, attrs=None):
        self.tag = tag
        self.attrs = dict(attrs or {})


REC_METHODS = {}   # (record-name prefix, method name) -> impl(I, rec, args, kw)


def _rec_dict_key(o, k):
    """dict-like record (R.record(..., dictlike=True)): an immutable dict *value* with a fixed universe of string
    keys; field `k` holds the value of key k, the optional bool field `has_k` its presence (absent = always present).
    Reading a key outside the declared universe is not modelled (Unsupported), so nothing is assumed about it."""
    c = const_of(k) if isinstance(k, VStr) else _NOCONST
    if not isinstance(c, str) or c not in o.fields or c.startswith("has_"):
        raise Unsupported("key %r outside the declared universe of dict-like record %s" % (c, o.t.nm))
    has = o.fields.get("has_" + c)
    return o.fields[c], (None if has is None else z3.simplify(has.e))


def rec_dict_get(I, o, args, kw):
    val, has = _rec_dict_key(o, args[0])
    default = args[1] if len(args) > 1 else VNone()
    if has is None or z3.is_true(has):
        return val
    if z3.is_false(has):
        return default
    try:
        if isinstance(default, VNone):
            t = typeof(val)
            t = t if isinstance(t, TOpt) else TOpt(t)
            return t.wrap(z3.If(has, unwrap(val, t), t.none()))
        return I.ite(has, val, default)
    except (Unsupported, TypeError):
        if I.spec:
            raise Unsupported("dict-like record .get with a default of another type in a specification")
    return val if I.path.branch(has) else default


class VFile(V):
    t = None

    def __init__(self, path, mode, fs):
        self.path, self.mode, self.fs = path, mode, fs
        self.closed = False


# =============================================================== attributes

SEQ_METHODS = {"append", "appendleft", "pop", "popleft", "remove", "clear", "extend", "insert", "index",
               "copy", "sort", "count", "reverse"}
MAP_METHODS = {"get", "pop", "setdefault", "keys", "values", "items", "update", "clear", "copy",
               "move_to_end", "popitem"}
SET_METHODS = {"add", "discard", "remove", "clear", "copy", "update", "isdisjoint"}
STR_METHODS = {"lower", "upper", "strip", "split", "join", "startswith", "endswith", "format", "replace",
               "encode", "lstrip", "rstrip", "isdigit", "isascii", "splitlines", "find", "count"}


def get_attribute(I, o, name, default=_NOCONST):
    if isinstance(o, VUndef):
        return VUndef()
    if not I.spec and isinstance(o, VDyn):
        o = D.exec_attr_view(I, o, name)
        if o is None:
            if default is not _NOCONST:
                return default
            I.raise_exc("AttributeError", name)
    if not I.spec:
        o = I.force(o)
    elif isinstance(o, VOpt):
        o = o.val()
    elif isinstance(o, VOptObj):
        o = o.obj
    elif isinstance(o, VDyn):
        o = D.spec_view_for_attr(I, o, name, STR_METHODS, MAP_METHODS, SEQ_METHODS)
    if isinstance(o, VObj):
        I.ver.on_field_read(I, o, name)
        if name in o.fields:
            return o.fields[name]
        ci = I.class_of(o)
        if ci is not None:
            r = ci.find_method(name)
            if r is not None:
                node, owner = r
                decos = [ast.unparse(d) for d in node.decorator_list]
                f = VFunc("ast", "%s.%s" % (owner.name, name), node=node, module=owner.module, selfv=o)
                f.qual = "%s:%s.%s" % (owner.module.relpath, owner.name, name)
                if "staticmethod" in decos:
                    f.selfv = None
                if "property" in decos:
                    return I.call(f, [], {})
                return f
            if name in ci.attrs:
                return I.ev(ci.attrs[name], Env(None, ci.module))
        if name == "__dict__":
            return VDictRec(o.fields)
    elif isinstance(o, VRec) and getattr(o.t, "dictshape", False):
        if name == "get":
            return VFunc("bmethod", name, selfv=o)
        if name in MAP_METHODS:
            raise Unsupported("dict method %s on a dict-shaped record" % name)
    elif isinstance(o, VRec):
        vs = getattr(o.t, "variants", None)
        if vs is not None and name in o.fields:
            # tagged union of dataclasses: the field exists only on the classes that declare it
            if name == "_cls":
                if I.spec:
                    return o.fields[name]      # the tag is visible to specifications only
            else:
                owners = [c for c, fs in vs.items() if name in fs]
                if I.spec or len(owners) == len(vs):
                    return o.fields[name]
                if owners and I.path.branch(z3.Or([o.fields["_cls"].e == z3.StringVal(c) for c in owners])):
                    return o.fields[name]
        elif name in o.fields:
            return o.fields[name]
        for (prefix, mname), impl in REC_METHODS.items():
            if mname == name and o.t.nm.startswith(prefix):
                return VFunc("builtin", name, impl=lambda I2, a, k, impl=impl, o=o: impl(I2, o, a, k))
        if getattr(o.t, "dictlike", False) and name == "get":
            return VFunc("builtin", "get", impl=lambda I2, a, k, o=o: rec_dict_get(I2, o, a, k))
    elif isinstance(o, VExt):
        if name in o.attrs:
            return o.attrs[name]
    elif isinstance(o, (VSeq, VEmptyList)):
        if name in SEQ_METHODS:
            return VFunc("bmethod", name, selfv=o)
    elif isinstance(o, VMap):
        if name in MAP_METHODS:
            return VFunc("bmethod", name, selfv=o)
    elif isinstance(o, (VDictRec, VJDict, VDRec)):
        if name in MAP_METHODS:
            return VFunc("bmethod", name, selfv=o)
    elif isinstance(o, VJList):
        if name in SEQ_METHODS:
            return VFunc("bmethod", name, selfv=o)
    elif isinstance(o, VWStr):
        if name in STR_METHODS:
            return VFunc("bmethod", name, selfv=o)
    elif isinstance(o, (VSet, VEmptySet)):
        if name in SET_METHODS:
            return VFunc("bmethod", name, selfv=o)
    elif isinstance(o, VStr):
        if name in STR_METHODS:
            return VFunc("bmethod", name, selfv=o)
    elif isinstance(o, VModule):
        v = I.ver.module_attr(o, name, I)
        if v is not None:
            return v
    elif isinstance(o, VClass):
        if name == "__name__":
            dn = getattr(o, "dyn_name", None)
            return dn if dn is not None else VStr(o.name)
        if o.node is not None:
            ci = o.module.classes.get(o.name)
            r = ci.find_method(name) if ci else None
            if r is not None:
                f = VFunc("ast", "%s.%s" % (o.name, name), node=r[0], module=r[1].module)
                f.qual = "%s:%s.%s" % (r[1].module.relpath, r[1].name, name)
                return f
            if ci and name in ci.attrs:
                return I.ev(ci.attrs[name], Env(None, ci.module))
    elif isinstance(o, VExc):
        if name == "args":
            return VTuple(o.args)
        if name in getattr(o, "attrs", {}):
            return o.attrs[name]
        if name == "errno" and exc_is_sub(o.cls, "OSError") and not (o.args and isinstance(o.args[0], VObj)):
            # OSError.errno of an exception raised by a trusted I/O model / a callee contract: an arbitrary int
            # (errno None behaves like an int outside every errno set for the membership tests it is used in)
            if not hasattr(o, "attrs"):
                o.attrs = {}
            o.attrs["errno"] = VInt(I.path.fresh("errno", z3.IntSort()))
            return o.attrs["errno"]
        if o.args and isinstance(o.args[0], VObj):
            return get_attribute(I, o.args[0], name, default)
    elif isinstance(o, VFile):
        if name in getattr(o, "attrs", {}):
            return o.attrs[name]
        return VFunc("bmethod", name, selfv=o)
    elif isinstance(o, VPath):
        from . import fsmodel
        r = fsmodel.path_attr(I, o, name)
        if r is not None:
            return r
    elif isinstance(o, JM.VJson):
        if name in MAP_METHODS:
            # dict methods on a dynamically typed value: its dict content (the caller has checked isinstance(v, dict))
            return VFunc("bmethod", name, selfv=o.as_map(I))
    elif hasattr(o, "get_attr"):
        r = o.get_attr(I, name)
        if r is not None:
            return r
    elif isinstance(o, VFunc):
        if name == "__name__":
            return VStr(o.name)
    if isinstance(o, VTuple) and getattr(o, "pylist", False):
        raise Unsupported("method/attribute %s of a concrete python list of unencodable values" % name)
    if isinstance(o, VClass) and name == "__name__":
        return getattr(o, "unknown_name", None) or VStr(o.name)
    if default is not _NOCONST:
        return default
    if I.spec:
        if isinstance(o, (VStr, VInt, VReal, VBool, VNone, VSeq, VMap)):
            # a builtin value without that attribute: the operation is undefined (unconstrained), not a spec typo
            raise SpecUndef("attribute %s of %s" % (name, type(o).__name__))
        raise Unsupported("attribute %s of %s" % (name, type(o).__name__))
    I.raise_exc("AttributeError", name)


# =============================================================== calls

def callable_un_func(I, f):
    """values of an uninterpreted sort declared `callable=<funtype>`: a VFunc obeying that contract"""
    if isinstance(f, VUn) and f.t.nm in I.ver.reg.callable_uns:
        g = VFunc("param", f.t.nm, contract=I.ver.fun_contract(I.ver.reg.callable_uns[f.t.nm]))
        g.selfv = f
        return g
    return None


def call(I, f, args, kwargs, node=None):
    if not I.spec:
        f = I.force(f)
    elif isinstance(f, VUndef):
        return VUndef()
    elif isinstance(f, VOptObj):
        # a possibly-absent callable used inside a specification / sort key: only when it is known to be present
        if not I.path.known(f.present):
            raise Unsupported("call of an optional callable not known to be present, in a specification")
        f = f.obj
    if isinstance(f, VUn):
        g = callable_un_func(I, f)
        if g is not None:
            f = g
    if isinstance(f, VFunc):
        if f.kind == "ast" and getattr(f, "qual", None) in I.ver.reg.opaques and \
                not (I.ver.cur is not None and I.ver.cur.key == f.qual and not I.fn_stack[1:]):
            uf = I.ver.spec_name(I.ver.reg.opaques[f.qual])
            a = ([f.selfv] if f.selfv is not None else []) + list(args)
            if kwargs or len(a) < len(f.node.args.posonlyargs + f.node.args.args + f.node.args.kwonlyargs):
                # keyword / defaulted arguments: bind by the real signature so that the uninterpreted function always
                # receives one value per declared parameter, in declaration order (positional, then keyword-only)
                e0 = Env(None, f.module)
                I.bind_params(f.node, a, dict(kwargs), e0, Env(None, f.module))
                a = [e0.vars[p.arg] for p in f.node.args.posonlyargs + f.node.args.args + f.node.args.kwonlyargs]
                kwargs = {}
            if uf.kind == "builtin":
                return uf.impl(I, a, kwargs)
            saved = I.spec
            I.spec = True
            try:
                return I.call_ast(uf, a, kwargs)
            finally:
                I.spec = saved
        if f.kind in ("ast", "lambda"):
            c = I.ver.contract_for_call(f, I)
            if c is not None and any(_has_nan(a) for a in list(args) + list(kwargs.values())):
                c = None      # contracts are stated over real-valued floats: a nan argument is outside their types -> inline
            if c is not None:
                return call_contract(I, c, f, args, kwargs)
            if I.spec and f.kind == "ast":
                return I.call_ast(f, args, kwargs)
            if f.kind == "ast":
                I.fn_stack.append(f)
                try:
                    return I.call_ast(f, args, kwargs)
                finally:
                    I.fn_stack.pop()
            return I.call_ast(f, args, kwargs)
        if f.kind == "builtin":
            if I.spec and any(isinstance(a, VUndef) for a in args):
                return VUndef()
            return f.impl(I, args, kwargs)
        if f.kind == "bmethod":
            return call_bmethod(I, f.selfv, f.name, args, kwargs)
        if f.kind == "param":
            return call_param(I, f, args, kwargs)
    if isinstance(f, VClass):
        return instantiate(I, f, args, kwargs)
    if isinstance(f, VObj):
        ci = I.class_of(f)
        if ci is not None and ci.find_method("__call__"):
            return I.call_method_ast(f, "__call__", args, kwargs)
    if I.spec:
        raise Unsupported("call of %s in spec" % type(f).__name__)
    if isinstance(f, (VModule, VOpaque, VUndef)) or type(f).__name__ in ("VModule", "VOpaque", "VUndef"):
        # an unmodelled external name: an engine limitation, not a python TypeError
        raise Unsupported("call of an unmodelled external object (%s) at line %s" % (type(f).__name__, getattr(node, "lineno", "?")))
    I.raise_exc("TypeError", "object is not callable (%s)" % type(f).__name__)


def _havoc_path(I, src, env):
    node = I.ver.parse_spec(src)
    saved = I.spec
    I.spec = True
    try:
        if isinstance(node, ast.Attribute):
            base = I.ev(node.value, env)
            if isinstance(base, VObj):
                cur = base.fields.get(node.attr)
                if isinstance(cur, (VSeq, VMap, VSet, VObj, VDictRec)):
                    I.havoc_inplace(cur, "cm_" + node.attr)
                elif cur is not None:
                    base.fields[node.attr] = I.havoc_like(cur, "cm_" + node.attr)
                return
        v = I.ev(node, env)
    finally:
        I.spec = saved
    if isinstance(v, (VSeq, VMap, VSet, VObj, VDictRec)):
        I.havoc_inplace(v, "cm")


def call_contract(I, c, f, args, kwargs):
    """modular call: assert pre, havoc frame, assume post (callee body is not looked at)."""
    env = Env(getattr(I, "ghost_env", None), f.module)
    a = list(args)
    if f.selfv is not None:
        a = [f.selfv] + a
    I.bind_params(f.node, a, dict(kwargs), env, Env(None, f.module))
    for pn, ts in c.types.items():
        if pn in env.vars and isinstance(ts, str) and not ts.startswith("="):
            try:
                pt = I.ver.types.parse(ts)
                if isinstance(env.vars[pn], VOpt) and not isinstance(pt, TOpt) and not I.spec:
                    # an Optional actual for a non-Optional formal: resolve None-ness here (fork / path condition)
                    env.vars[pn] = I.force(env.vars[pn])
                env.vars[pn] = I.coerce_value(env.vars[pn], pt)
            except KeyError:
                pass
    if I.spec:
        # a pure callee used inside a specification / comprehension: its result expression
        return I.eval_spec_value(c.pure_result, env)
    I.ver.apply_param_types(I, c, env)
    if not getattr(c, "modifies_declared", True):
        I.ver.note_assumption("modular call of %s whose contract declares no `modifies`: assumed to change nothing "
                              "(declare modifies=[...] to have the frame verified)" % c.short)
    caller = I.cur_obl_prefix()
    for nm, src in c.requires:
        I.path.prove(I.eval_spec(src, env), "%s/call:%s/pre:%s" % (caller, c.short, nm), "call-pre", where=src)
    cur = I.cur_contract
    if cur is not None and getattr(cur, "call_pre", None) and c.key in cur.call_pre and len(I.fn_stack) == 1:
        # caller-side cut point: clauses over the calling function's own locals / ghost state, proved before the call
        for nm, src in cur.call_pre[c.key]:
            I.path.prove(I.eval_spec(src, I.top_env), "%s/before-call:%s/%s" % (caller, c.short, nm), "assert", where=src)
    snap = I.snapshot_env(env)
    saved_old = I.old_env
    try:
        for p in c.modifies:
            _havoc_path(I, p, env)
        I.old_env = snap
        if "fs" in c.modifies:
            # the havoc'd ghost file system stands for *every* intermediate (crash) state of the callee: it is only
            # known to satisfy the callee's crash invariant, from which the caller's must follow
            from . import fsmodel
            fsmodel.at_modular_call(I, c, env, snap, saved_old)
        for cls, cond in c.raises_list():
            b = I.path.fresh("raised_%s_%s" % (c.short.replace(".", "_"), cls), z3.BoolSort())
            if cond is not None:
                # the raise condition speaks about the state at the call (before `modifies` was havoc'd)
                I.path.assume(z3.Implies(b, I.eval_spec(cond, snap)))
            if I.path.branch(b):
                for nm, src in c.ensures_exc:
                    I.path.assume(I.eval_spec(src, env))
                I.old_env = saved_old
                raise PyRaise(VExc(cls, [], any_subclass=True))
        res = VNone()
        if c.returns is not None:
            res = I.fresh_value(I.ver.types.parse(c.returns) if isinstance(c.returns, str) else c.returns,
                                "ret_" + c.short.replace(".", "_"))
        from .verifier import NOEXPORT
        for nm, src in c.ensures:
            if (c.short, nm) in NOEXPORT:
                continue
            I.path.assume(I.eval_spec(src, env, extra={"result": res}, assume=True))
        for st in c.effects:
            I.exec_ghost(st, env, extra={"result": res})
    finally:
        I.old_env = saved_old
    return res


def call_param(I, f, args, kwargs):
    """call through a function-valued parameter: uses the contract declared for it."""
    c = f.contract
    if c is None:
        raise Unsupported("call of function parameter %s without contract" % f.name)
    env = Env(getattr(I, "ghost_env", None), None)
    for i, pn in enumerate(c.params):
        if i < len(args):
            env.set(pn, args[i])
        elif pn in kwargs:
            env.set(pn, kwargs[pn])
    if f.selfv is not None:
        env.set("self_fn", f.selfv)
    if I.spec:
        if c.pure_result is None:
            raise Unsupported("call of function parameter %s in a specification (no pure_result declared)" % f.name)
        return I.eval_spec_value(c.pure_result, env)
    caller = I.cur_obl_prefix()
    for nm, src in c.requires:
        I.path.prove(I.eval_spec(src, env), "%s/call:%s/pre:%s" % (caller, c.short, nm), "call-pre", where=src)
    for st in c.effects_before:
        I.exec_ghost(st, env)
    for cls, cond in c.raises_list():
        b = I.path.fresh("raised_%s_%s" % (c.short, cls), z3.BoolSort())
        if cond is not None:
            I.path.assume(z3.Implies(b, I.eval_spec(cond, env)))
        if I.path.branch(b):
            for st in c.effects_exc:
                I.exec_ghost(st, env)
            ex = VExc(cls, [], any_subclass=True)
            if c.exc_info is not None:
                ex.tname = I.eval_spec_value(c.exc_info[0], env)
                ex.msg = I.eval_spec_value(c.exc_info[1], env)
            raise PyRaise(ex)
    res = VNone()
    if c.returns is not None:
        res = I.fresh_value(I.ver.types.parse(c.returns), "ret_" + c.short)
    for nm, src in c.ensures:
        I.path.assume(I.eval_spec(src, env, extra={"result": res}))
    for st in c.effects:
        I.exec_ghost(st, env, extra={"result": res})
    return res


def instantiate(I, cls, args, kwargs):
    # exceptions
    if cls.exc_base is not None and cls.node is None:
        return VExc(cls.name, args)
    if cls.rec is not None:
        t = cls.rec
        ci = cls.module.classes.get(cls.name) if cls.module else None
        variants = getattr(t, "variants", None)
        own = None
        if variants is not None and cls.name in variants:
            own = variants[cls.name]
            names = [fn for fn, _ in ci.fields] if ci is not None else list(own)
        else:
            names = list(t.fields)
        vals = {}
        for i, a in enumerate(args):
            if i >= len(names):
                I.raise_exc("TypeError", "too many positional arguments")
            vals[names[i]] = a
        vals.update(kwargs)
        if own is not None:
            for k2 in vals:
                if k2 not in own:
                    I.raise_exc("TypeError", "unexpected keyword argument %s" % k2)
            vals["_cls"] = VStr(cls.name)
        for fn in list(t.fields):
            if fn not in vals:
                if own is not None and fn not in own:
                    # a field of another class of the union: unspecified filler (never readable through this value)
                    vals[fn] = t.fields[fn].wrap(I.default_of(t.fields[fn]))
                    continue
                dflt = None
                if ci is not None:
                    for (n2, d) in ci.fields:
                        if n2 == fn:
                            dflt = d
                dv = _dataclass_default(I, dflt, cls.module) if dflt is not None else None
                if dv is None:
                    I.raise_exc("TypeError", "missing field %s" % fn)
                vals[fn] = dv
        out = {}
        for fn, ft in t.fields.items():
            out[fn] = ft.wrap(unwrap(vals[fn], ft))
        return VRec(out, t)
    if cls.node is not None:
        ci = cls.module.classes[cls.name]
        if cls.exc_base is not None:
            o = VObj(ci, {})
            if ci.find_method("__init__"):
                I.call_method_ast(o, "__init__", args, kwargs)
            else:
                o.fields["args"] = VTuple(args)
            return VExc(cls.name, [o])
        tobj = I.ver.objtype_for_class(ci)
        o = VObj(ci, {}, tobj)
        if ci.find_method("__init__"):
            I.call_method_ast(o, "__init__", args, kwargs)
        elif any("dataclass" in d for d in ci.decorators):
            names = [fn for fn, _ in ci.fields]
            vals = {}
            for i, a in enumerate(args):
                vals[names[i]] = a
            vals.update(kwargs)
            for fn, d in ci.fields:
                if fn in vals:
                    o.fields[fn] = vals[fn]
                else:
                    dv = _dataclass_default(I, d, cls.module) if d is not None else None
                    if dv is None:
                        I.raise_exc("TypeError", "missing field %s" % fn)
                    o.fields[fn] = dv
                ft = tobj.fields.get(fn) if tobj is not None else None
                if ft is not None:
                    o.fields[fn] = I.coerce_to(o.fields[fn], I.ver.types.parse(ft) if isinstance(ft, str) else ft)
        return o
    bt = BUILTIN_TYPES.get(cls.name)
    if bt is not None:
        return bt(I, args, kwargs)
    raise Unsupported("instantiate %s" % cls.name)


def _dataclass_default(I, d, module):
    """default of a dataclass field: a plain expression, or dataclasses.field(default=..., default_factory=...)"""
    if isinstance(d, ast.Call) and ((isinstance(d.func, ast.Name) and d.func.id == "field") or
                                    (isinstance(d.func, ast.Attribute) and d.func.attr == "field")):
        for kw in d.keywords:
            if kw.arg == "default":
                return I.ev(kw.value, Env(None, module))
            if kw.arg == "default_factory":
                return I.call(I.ev(kw.value, Env(None, module)), [], {})
        return None
    return I.ev(d, Env(None, module))


# =============================================================== builtin functions

def bi_len(I, args, kw):
    v = args[0]
    if isinstance(v, VDyn):
        if not I.spec and not I.path.branch(D.has_len(v)):
            I.raise_exc("TypeError", "object has no len()")
        return VInt(D.length(I, v))
    v = I.force(args[0]) if not I.spec else args[0]
    if isinstance(v, VSeq):
        return VInt(v.n)
    if isinstance(v, VEmptyList):
        return VInt(0)
    if isinstance(v, (VMap, VSet)):
        return VInt(v.card)
    if isinstance(v, VTuple):
        return VInt(len(v.items))
    if isinstance(v, VDictRec):
        return VInt(len(v.fields))
    if isinstance(v, VDRec):
        return VInt(z3.Sum([z3.If(v.has(fn), 1, 0) for fn in v.t.fields] + [z3.IntVal(0)]))
    if isinstance(v, VJDict):
        return VInt(len(v.slots))
    if isinstance(v, (VJSet, VJList)):
        return VInt(len(v.items))
    if isinstance(v, VStr):
        return VInt(z3.Length(v.e))
    if isinstance(v, VMapView):
        if isinstance(v.m, VJDict):
            return VInt(len(v.m.slots))
        if isinstance(v.m, VDictRec):
            return VInt(len(v.m.fields))
        return VInt(v.m.card)
    if isinstance(v, VObj):
        ci = I.class_of(v)
        if ci is not None and ci.find_method("__len__"):
            return I.call_method_ast(v, "__len__", [], {})
    if I.spec:
        raise Unsupported("len of %s" % type(v).__name__)
    I.raise_exc("TypeError", "object has no len()")


def real_to_int_trunc(r):
    fl = z3.ToInt(r)
    return z3.If(r >= 0, fl, z3.If(z3.ToReal(fl) == r, fl, fl + 1))


def bi_int(I, args, kw):
    if not args:
        return VInt(0)
    if isinstance(args[0], VDyn):
        return D.to_int(I, args[0])
    v = I.force(args[0]) if not I.spec else args[0]
    if isinstance(v, VInt):
        return v
    if isinstance(v, JM.VJson):
        return JM.json_int(I, v)
    if isinstance(v, VBool):
        return VInt(to_int(v))
    if isinstance(v, VReal):
        return VInt(real_to_int_trunc(v.e))
    if isinstance(v, VStr) and isinstance(const_of(v), str) and not I.spec:
        # a concrete string: decided by the host python (same CPython int() semantics), no solver involved
        try:
            return VInt(int(const_of(v)))
        except ValueError:
            I.raise_exc("ValueError", "invalid literal for int()")
    if isinstance(v, VStr):
        # int(str): uninterpreted predicate/function pair (int_parses, int_value) that agrees with the decimal
        # reading on plain digit strings; other accepted spellings (sign, blanks, underscores) stay abstract
        ok, val = int_parse_terms(I, v.e)
        if I.spec:
            return VInt(val)
        if I.path.branch(ok):
            return VInt(val)
        I.raise_exc("ValueError", "invalid literal for int()")
    if isinstance(v, VNone):
        I.raise_exc("TypeError", "int() argument must be a string or a number, not 'NoneType'")
    if I.spec:
        raise Unsupported("int of %s" % type(v).__name__)
    I.raise_exc("TypeError", "int() argument")


def int_parse_terms(I, e):
    ip = z3.Function("int_parses", z3.StringSort(), z3.BoolSort())
    iv = z3.Function("int_value", z3.StringSort(), z3.IntSort())
    if not getattr(I.path, "_ip_axiom", False):
        I.path._ip_axiom = True
        x = z3.String("ip_x")
        I.path.assume(z3.ForAll([x], z3.Implies(z3.StrToInt(x) >= 0, z3.And(ip(x), iv(x) == z3.StrToInt(x))),
                                patterns=[ip(x), iv(x)]))
        I.path.assume(z3.ForAll([x], z3.Implies(z3.Length(x) == 0, z3.Not(ip(x))), patterns=[ip(x)]))
        I.ver.note_assumption("int(str): int_parses/int_value are uninterpreted except on plain ASCII digit strings "
                              "(where they are the decimal value) and the empty string (does not parse)")
    return ip(e), iv(e)


def isdigit_term(I, e):
    """str.isdigit(): uninterpreted predicate with the trusted facts
         isdigit(s) => s != ""                                    (python: empty string is not a digit string)
         s in [0-9]+ => isdigit(s)                                (and int(s) parses: int_parse_terms)
         isdigit((U+00B2))  and  not int_parses((U+00B2))          (SUPERSCRIPT TWO is a digit but not a decimal:
                                                                   isdigit does NOT imply that int() accepts s)"""
    f = z3.Function("str_isdigit", z3.StringSort(), z3.BoolSort())
    if not getattr(I.path, "_isdigit_axiom", False):
        I.path._isdigit_axiom = True
        x = z3.String("idg_x")
        ip, _ = int_parse_terms(I, z3.StringVal("0"))
        ipf = ip.decl()
        I.path.assume(z3.ForAll([x], z3.Implies(f(x), z3.Length(x) > 0), patterns=[f(x)]))
        I.path.assume(z3.ForAll([x], z3.Implies(z3.InRe(x, z3.Plus(z3.Range("0", "9"))), f(x)), patterns=[f(x)]))
        sup2 = z3.StringVal(chr(0xb2))
        I.path.assume(z3.And(f(sup2), z3.Not(ipf(sup2))))
        I.ver.note_assumption("str.isdigit(): uninterpreted except: false on '', true on [0-9]+, true on U+00B2 which int() rejects")
    return f(e)


def sp_nan(I, args, kw):
    return VNaN()


def sp_is_nan(I, args, kw):
    return VBool(isinstance(args[0], VNaN))


def sp_int_parses(I, args, kw):
    return VBool(int_parse_terms(I, args[0].e)[0])


def sp_int_value(I, args, kw):
    return VInt(int_parse_terms(I, args[0].e)[1])


def bi_float(I, args, kw):
    if not args:
        return VReal(0)
    if isinstance(args[0], VDyn):
        return D.to_float(I, args[0])
    v = I.force(args[0]) if not I.spec else args[0]
    if is_num(v):
        return VReal(to_real(v))
    if isinstance(v, VNaN):
        return v
    if isinstance(v, VStr):
        if I.spec:
            raise Unsupported("float(str) in spec")
        b = I.path.fresh("float_parse_ok", z3.BoolSort())
        if I.path.branch(b):
            return VReal(I.path.fresh("float_parsed", z3.RealSort()))
        I.raise_exc("ValueError", "could not convert string to float")
    if I.spec:
        raise Unsupported("float of %s" % type(v).__name__)
    I.raise_exc("TypeError", "float() argument")


def bi_bool(I, args, kw):
    if not args:
        return VBool(False)
    return VBool(I.truth(args[0]))


def bi_str(I, args, kw):
    if not args:
        return VStr("")
    if isinstance(args[0], VDyn):
        return VStr(D.to_str_term(I, args[0]))
    v = I.force(args[0]) if not I.spec else args[0]
    if isinstance(v, VStr):
        return v
    if isinstance(v, VInt):
        e = v.e
        return VStr(z3.If(e >= 0, z3.IntToStr(e), z3.Concat(z3.StringVal("-"), z3.IntToStr(-e))))
    if isinstance(v, VNone):
        return VStr("None")
    if isinstance(v, VBool):
        return VStr(z3.If(v.e, z3.StringVal("True"), z3.StringVal("False")))
    if isinstance(v, VUn) and v.t.nm in STRLIKE:
        return v
    if isinstance(v, VPath):
        from . import fsmodel
        return fsmodel.path_str(I, v)
    if isinstance(v, VOpt) and I.spec:
        inner = bi_str(I, [v.val()], {})
        return VStr(z3.If(v.is_none(), z3.StringVal("None"), inner.e))
    if isinstance(v, VExc):
        m = getattr(v, "msg", None)
        if m is None:
            # str(exc) of an exception we know nothing about: an arbitrary string, fixed per exception object
            m = v.msg = VStr(I.path.fresh("exc_str", z3.StringSort()))
        return m
    return I.ver.opaque_str("str", v, I)


def bi_open(I, args, kw):
    """builtin open(): trusted contract in pyvc/fsmodel.py (abstract file system)"""
    from . import fsmodel
    return fsmodel.fs_open(I, args, kw)


def sp_fs_key(I, args, kw):
    """spec function fs_key(p): key of a Path / str in the ghost file system (pyvc/fsmodel.py)"""
    from . import fsmodel
    return fsmodel.sp_fs_key(I, args, kw)


def bi_abs(I, args, kw):
    v = I.force(args[0]) if not I.spec else args[0]
    if isinstance(v, VNaN):
        return v
    if isinstance(v, VReal):
        return VReal(z3.If(v.e >= 0, v.e, -v.e))
    if isinstance(v, (VInt, VBool)):
        e = to_int(v)
        return VInt(z3.If(e >= 0, e, -e))
    if I.spec:
        raise Unsupported("abs")
    I.raise_exc("TypeError", "bad operand type for abs()")


def _minmax(I, args, kw, is_max):
    if len(args) == 1:
        xs = I.force(args[0]) if not I.spec else args[0]
        if isinstance(xs, VTuple):
            args = xs.items
        elif isinstance(xs, VEmptyList) and "default" in kw:
            return kw["default"]
        elif isinstance(xs, VSeq):
            if "key" in kw:
                raise Unsupported("min/max with key over list")
            if "default" in kw:
                if not I.path.branch(xs.n > 0):
                    return kw["default"]
            I.require_defined(xs.n > 0, "ValueError", "min()/max() arg is an empty sequence")
            r = I.fresh_value(xs.et, "mx")
            i = z3.Int(I.path.fresh_name("mm_i"))
            j = I.path.fresh("mm_j", z3.IntSort())
            I.path.assume(z3.And(0 <= j, j < xs.n, I.eq(xs.get(j), r)))
            el = xs.et.wrap(z3.Select(xs.arr, i))
            saved_spec = I.spec
            I.spec = True      # `el` mentions the bound index
            try:
                le = I.lt(el, r, False) if is_max else I.lt(r, el, False)
            finally:
                I.spec = saved_spec
            I.path.assume(z3.ForAll([i], z3.Implies(z3.And(0 <= i, i < xs.n), le)))
            return r
        else:
            raise Unsupported("min/max over %s" % type(xs).__name__)
    if "key" in kw:
        raise Unsupported("min/max key")
    cur = args[0]
    for x in args[1:]:
        if not I.spec:
            x = I.force(x)
            cur = I.force(cur)
        c = I.lt(cur, x, True) if is_max else I.lt(x, cur, True)
        # python keeps the first on ties
        cur = I.ite(c, x, cur)
    return cur


def bi_min(I, args, kw):
    return _minmax(I, args, kw, False)


def bi_max(I, args, kw):
    return _minmax(I, args, kw, True)


def bi_isinstance(I, args, kw):
    tv = args[1]
    names = [x.name for x in tv.items] if isinstance(tv, VTuple) else [tv.name]
    if isinstance(args[0], VDyn):
        # symbolic answer (no 7-way fork on the runtime tag)
        return VBool(D.isinstance_cond(args[0], names))
    v = I.force(args[0])
    if isinstance(v, VRec) and getattr(v.t, "variants", None) is not None:
        if "object" in names or v.t.nm in names:
            return VBool(True)
        return VBool(z3.Or([v.fields["_cls"].e == z3.StringVal(nm) for nm in names if nm in v.t.variants] + [z3.BoolVal(False)]))
    if isinstance(v, JM.VJson):
        return VBool(JM.json_isinstance(I, v, names))
    return VBool(any(_isinst(I, v, nm) for nm in names))


def _isinst(I, v, nm):
    if nm == "object":
        return True
    if isinstance(v, VBool):
        return nm in ("bool", "int")
    if isinstance(v, VInt):
        return nm == "int"
    if isinstance(v, (VReal, VNaN)):
        return nm == "float"
    if isinstance(v, VStr):
        return nm in ("str",)
    if isinstance(v, VNone):
        return nm == "NoneType"
    if isinstance(v, VUn) and v.t.nm in STRLIKE:
        return nm == "str"
    if isinstance(v, (VJDict, VDRec)):
        return nm in ("dict", "Mapping", "MutableMapping")
    if isinstance(v, VJSet):
        return nm == "set"
    if isinstance(v, VJList):
        return nm in ("list", "Sequence")
    if isinstance(v, VWStr):
        return nm == "str"
    if isinstance(v, (VMap, VDictRec)):
        return nm in ("dict", "Mapping", "MutableMapping", "OrderedDict") if not (nm == "OrderedDict" and getattr(v, "order", None) is None) else False
    if isinstance(v, (VSeq, VEmptyList)):
        if v.kind == "deque":
            return nm == "deque"
        return nm in ("list", "Sequence")
    if isinstance(v, VTuple):
        if getattr(v, "pylist", False):
            return nm in ("list", "Sequence")
        return nm in ("tuple", "Sequence")
    if isinstance(v, (VSet, VEmptySet)):
        return nm in ("set",)
    if isinstance(v, VRec):
        if getattr(v.t, "dictlike", False) or getattr(v.t, "dictshape", False):
            return nm in ("dict", "Mapping", "MutableMapping")
        return nm == v.t.nm
    if isinstance(v, VObj):
        ci = I.class_of(v)
        seen = set()
        stack = [ci] if ci else []
        while stack:
            c = stack.pop()
            if c is None or c.name in seen:
                continue
            seen.add(c.name)
            if c.name == nm:
                return True
            for b in c.bases:
                stack.append(c.module.classes.get(b))
        if ci is None and isinstance(v.cls, str):
            return v.cls == nm
        return False
    if isinstance(v, VExc):
        return exc_is_sub(v.cls, nm)
    if isinstance(v, VFunc):
        return False
    return False


def bi_hasattr(I, args, kw):
    name = const_of(args[1])
    sentinel = VOpaque("hasattr_sentinel")
    v = get_attribute(I, args[0], name, sentinel)
    return VBool(v is not sentinel)


def bi_getattr(I, args, kw):
    name = const_of(args[1])
    if not isinstance(name, str):
        raise Unsupported("getattr with symbolic name")
    if len(args) >= 3:
        return get_attribute(I, args[0], name, args[2])
    return get_attribute(I, args[0], name)


def bi_setattr(I, args, kw):
    name = const_of(args[1])
    I.setattr(args[0], name, args[2])
    return VNone()


def bi_callable(I, args, kw):
    v = I.force(args[0])
    if isinstance(v, (VFunc, VClass)):
        return VBool(True)
    if isinstance(v, VObj):
        ci = I.class_of(v)
        return VBool(bool(ci and ci.find_method("__call__")))
    if callable_un_func(I, v) is not None:
        return VBool(True)
    return VBool(False)


def bi_list(I, args, kw):
    if not args:
        return VEmptyList()
    v = I.force(args[0])
    return to_seq(I, v)


def to_seq(I, v):
    if isinstance(v, VJList):
        return VJList(v.items)
    if isinstance(v, VMapView) and isinstance(v.m, VJDict):
        return VJList(jsontree.view_items(I, v))
    if isinstance(v, VJDict):
        return VJList([k for k, _ in v.slots])
    if isinstance(v, VSeq):
        return VSeq(v.arr, v.n, v.et, "list")
    if isinstance(v, VEmptyList):
        return VEmptyList()
    if isinstance(v, VTuple):
        return I.mk_list(v.items)
    if isinstance(v, VMapView):
        return view_to_seq(I, v)
    if isinstance(v, VMap):
        return view_to_seq(I, VMapView(v, "keys"))
    if isinstance(v, VDictRec):
        return I.mk_list([VStr(k) for k in v.fields])
    if isinstance(v, VStr):
        i = z3.Int("ch_i")
        return VSeq(z3.Lambda([i], z3.SubString(v.e, i, 1)), z3.Length(v.e), TStr, "list")
    if isinstance(v, VRange) and v.step == 1:
        lo, hi = to_int(v.lo), to_int(v.hi)
        i = z3.Int("rg_i")
        return VSeq(z3.Lambda([i], lo + i), z3.simplify(z3.If(hi > lo, hi - lo, 0)), TInt, "list")
    if isinstance(v, (VNone, VInt, VReal, VBool)):
        I.raise_exc("TypeError", "object is not iterable")
    raise Unsupported("list() of %s" % type(v).__name__)


def view_to_seq(I, view):
    """list(d.keys()/values()/items()): a listing of the map in an unspecified (or insertion) order"""
    m = view.m
    if isinstance(m, VDictRec):
        if view.kind == "keys":
            return I.mk_list([VStr(k) for k in m.fields])
        if view.kind == "values":
            return I.mk_list(list(m.fields.values()))
        return I.mk_list([VTuple([VStr(k), v]) for k, v in m.fields.items()])
    if m.order is not None:
        keys = VSeq(m.order.arr, m.order.n, m.kt, "list")
    else:
        keys = listing_of_dom(I, m.dom, m.card, m.kt)
    if view.kind == "keys":
        return D.key_seq_to_str(keys) if m.kt is D.TDKey else keys
    i = z3.Int("vw_i")
    ki = z3.Select(keys.arr, i)
    if view.kind == "values":
        return VSeq(z3.Lambda([i], z3.Select(m.val, ki)), keys.n, m.vt, "list")
    tt = TTuple([m.kt, m.vt])
    return VSeq(z3.Lambda([i], tt.dt.mk(ki, z3.Select(m.val, ki))), keys.n, tt, "list")


def listing_of_dom(I, dom, card, kt, sorted_=False):
    """fresh sequence that lists every element of a finite set exactly once"""
    p = I.path
    res = I.fresh_value(TList(kt), "lst")
    i, j = z3.Ints("ls_i ls_j")
    k = z3.Const("ls_k", kt.sort())
    idx = z3.Function(p.fresh_name("lidx"), kt.sort(), z3.IntSort())
    p.assume(res.n == card)
    p.assume(z3.ForAll([i], z3.Implies(z3.And(0 <= i, i < res.n),
                                      z3.And(z3.Select(dom, z3.Select(res.arr, i)), idx(z3.Select(res.arr, i)) == i))))
    p.assume(z3.ForAll([k], z3.Implies(z3.Select(dom, k), z3.And(0 <= idx(k), idx(k) < res.n,
                                                               z3.Select(res.arr, idx(k)) == k))))
    if sorted_:
        a, b = kt.wrap(z3.Select(res.arr, i)), kt.wrap(z3.Select(res.arr, j))
        p.assume(z3.ForAll([i, j], z3.Implies(z3.And(0 <= i, i < j, j < res.n), I.lt(a, b, True))))
    return res


def bi_tuple(I, args, kw):
    if not args:
        return VTuple([])
    v = I.force(args[0])
    if isinstance(v, VTuple):
        return v
    if isinstance(v, VSeq):
        c = const_of(VInt(v.n))
        if isinstance(c, int):
            return VTuple([v.get(z3.IntVal(i)) for i in range(c)])
        return VSeq(v.arr, v.n, v.et, "tuple")
    raise Unsupported("tuple() of %s" % type(v).__name__)


def bi_dict(I, args, kw):
    if not args:
        return VDictRec(dict(kw))
    v = I.force(args[0])
    if isinstance(v, VDRec):
        return VDRec(v.e, v.t)      # a copy (ex_Assign makes the target local its owner)
    if isinstance(v, VJDict):
        return VJDict(v.slots)
    if isinstance(v, VDictRec):
        d = VDictRec(dict(v.fields))
        d.fields.update(kw)
        return d
    if isinstance(v, VMap):
        m = VMap(v.dom, v.val, v.card, v.kt, v.vt)
        if v.order is not None:
            m.order = VSeq(v.order.arr, v.order.n, v.kt, "list")
            m.pos = getattr(v, "pos", None)
        if hasattr(v, "aggs"):
            m.aggs = dict(v.aggs)
        return m
    if isinstance(v, (VInt, VReal, VBool, VNone)):
        I.raise_exc("TypeError", "object is not iterable")
    raise Unsupported("dict() of %s" % type(v).__name__)


def bi_set(I, args, kw):
    if not args:
        return VEmptySet()
    v = I.force(args[0])
    if getattr(v, "pyconstset", False):
        return v
    if isinstance(v, VSet):
        return VSet(v.dom, v.card, v.kt)
    js = jsontree.to_set(I, v)
    if js is not None:
        return js
    if isinstance(v, VSeq):
        p = I.path
        s = I.fresh_value(TSet(v.et), "setof")
        i = z3.Int("so_i")
        k = z3.Const("so_k", v.et.sort())
        idx = z3.Function(p.fresh_name("sidx"), v.et.sort(), z3.IntSort())
        p.assume(z3.ForAll([i], z3.Implies(z3.And(0 <= i, i < v.n), z3.Select(s.dom, z3.Select(v.arr, i)))))
        p.assume(z3.ForAll([k], z3.Implies(z3.Select(s.dom, k), z3.And(0 <= idx(k), idx(k) < v.n,
                                                                     z3.Select(v.arr, idx(k)) == k))))
        p.assume(s.card <= v.n)
        return s
    raise Unsupported("set() of %s" % type(v).__name__)


def bi_deque(I, args, kw):
    if not args:
        return VEmptyList("deque")
    v = to_seq(I, I.force(args[0]))
    if isinstance(v, VSeq):
        v.kind = "deque"
    return v


def bi_ordereddict(I, args, kw):
    """collections.OrderedDict() without arguments: an empty dict literal; it takes its typed insertion-ordered
    shape (empty_map of `OrderedDict[K, V]`) when stored into a field / local declared with that type.  An
    order-dependent method on a value that was never given such a type stays `unsupported` (dictrec_method)."""
    if args or kw:
        raise Unsupported("OrderedDict(<initial content>)")
    return VDictRec({})


def bi_sorted(I, args, kw):
    v = I.force(args[0])
    key = kw.get("key")
    rev = kw.get("reverse")
    rev = False if rev is None else const_of(rev)
    if not isinstance(rev, bool):
        raise Unsupported("sorted(reverse=<symbolic>)")
    if rev:
        # descending stable sort of a sequence: same trusted model as list.sort(reverse=True)
        if isinstance(v, (VEmptySet, VEmptyList)):
            return VEmptyList()
        if isinstance(v, (VMapView, VMap, VSet)):
            raise Unsupported("sorted(<map/set>, reverse=True)")
        return sort_seq(I, to_seq(I, v), key, reverse=True)
    if key is None and not I.spec:
        r = jsontree.sorted_of(I, v)       # python-side JSON model: exact sort by forking on comparisons
        if r is not None:
            return r
    if isinstance(v, (VMapView, VMap)) and key is None:
        view = v if isinstance(v, VMapView) else VMapView(v, "keys")
        if view.kind == "keys" and isinstance(view.m, VMap):
            r = listing_of_dom(I, view.m.dom, view.m.card, view.m.kt, sorted_=True)
            return D.key_seq_to_str(r) if view.m.kt is D.TDKey else r
    if isinstance(v, VSet) and key is None:
        return listing_of_dom(I, v.dom, v.card, v.kt, sorted_=True)
    if isinstance(v, VEmptySet) or isinstance(v, VEmptyList):
        return VEmptyList()
    v = to_seq(I, v)
    return sort_seq(I, v, key)


def sort_seq(I, v, key, reverse=False):
    """trusted contract of sorted()/list.sort(): a stable permutation ordered by key (reverse=True: descending
    keys, elements with equal keys keep their original relative order)"""
    p = I.path
    if isinstance(v, VEmptyList):
        return v
    res = I.fresh_value(TList(v.et), "sorted")
    sg = z3.Function(p.fresh_name("perm"), z3.IntSort(), z3.IntSort())
    sgi = z3.Function(p.fresh_name("permi"), z3.IntSort(), z3.IntSort())
    i, j = z3.Ints("st_i st_j")
    n = v.n
    p.assume(res.n == n)
    p.assume(z3.ForAll([i], z3.Implies(z3.And(0 <= i, i < n),
                                      z3.And(0 <= sg(i), sg(i) < n, sgi(sg(i)) == i,
                                             z3.Select(res.arr, i) == z3.Select(v.arr, sg(i))))))
    p.assume(z3.ForAll([j], z3.Implies(z3.And(0 <= j, j < n),
                                      z3.And(0 <= sgi(j), sgi(j) < n, sg(sgi(j)) == j,
                                             z3.Select(res.arr, sgi(j)) == z3.Select(v.arr, j)))))
    # the same fact again, instantiable at a trig()-marked index (see Interp.spec_trig)
    mk = z3.Function("trig_mark", z3.IntSort(), z3.BoolSort())
    p.assume(z3.ForAll([j], z3.Implies(z3.And(mk(j), 0 <= j, j < n),
                                      z3.And(0 <= sgi(j), sgi(j) < n, sg(sgi(j)) == j,
                                             z3.Select(res.arr, sgi(j)) == z3.Select(v.arr, j))), patterns=[mk(j)]))

    def keyof(e):
        x = v.et.wrap(e)
        if key is None or isinstance(key, VNone):
            return x
        saved = I.spec
        I.spec = True
        try:
            return I.call(key, [x], {})
        finally:
            I.spec = saved
    if (key is None or isinstance(key, VNone)) and isinstance(v.et, TTuple):
        # tuples whose trailing components have no ordering (dicts, records): python compares them only when all
        # earlier components are equal, and raises TypeError then (unless the rest is equal too).  Definedness
        # obligation: no two elements agree on the orderable prefix without being equal; the order is the prefix's.
        def _orderable(t):
            return (isinstance(t, (type(TInt), type(TStr), type(TBool), type(TReal), TUn)) or
                    (isinstance(t, TTuple) and all(_orderable(x) for x in t.elems)))
        nord = 0
        while nord < len(v.et.elems) and _orderable(v.et.elems[nord]):
            nord += 1
        if nord < len(v.et.elems):
            if nord == 0:
                I.raise_exc("TypeError", "'<' not supported between unorderable values")
            ta, tb = v.et.wrap(z3.Select(v.arr, i)), v.et.wrap(z3.Select(v.arr, j))
            pre_eq = z3.And(*[I.eq(x, y) for x, y in zip(ta.items[:nord], tb.items[:nord])])
            all_eq = I.eq(ta, tb)
            I.require_defined(z3.ForAll([i, j], z3.Implies(z3.And(0 <= i, i < j, j < n), z3.Or(z3.Not(pre_eq), all_eq))),
                              "TypeError", "'<' not supported between the unorderable tails of tuples with equal heads")
            _k0 = keyof
            keyof = lambda e: VTuple(_k0(e).items[:nord])
    ki, kj = keyof(z3.Select(res.arr, i)), keyof(z3.Select(res.arr, j))
    if isinstance(ki, VDyn) and not I.spec:
        # python orders JSON-like values only number/number and string/string: anything else is a TypeError
        allstr = z3.ForAll([i], z3.Implies(z3.And(0 <= i, i < n), D.is_str(ki.e)))
        allnum = z3.ForAll([i], z3.Implies(z3.And(0 <= i, i < n), D.is_num(ki.e)))
        if not p.branch(z3.Or(allstr, allnum, n <= 1)):
            I.raise_exc("TypeError", "'<' not supported between these sort keys")
    saved_spec = I.spec
    I.spec = True      # the keys mention the bound indices i, j: compare them as total terms, never fork
    try:
        le = I.lt(kj, ki, False) if reverse else I.lt(ki, kj, False)
        keq = I.eq(ki, kj)
    finally:
        I.spec = saved_spec
    # `sort_facts=False` on a contract: the order produced by sorted()/sort() is irrelevant to its clauses, only the
    # permutation facts are assumed (fewer assumptions: sound; keeps string-ordering atoms out of the goals)
    if getattr(I.cur_contract, "sort_facts", True):
        p.assume(z3.ForAll([i, j], z3.Implies(z3.And(0 <= i, i < j, j < n), le)))
        p.assume(z3.ForAll([i, j], z3.Implies(z3.And(0 <= i, i < j, j < n, keq), sg(i) < sg(j))))
    res.perm = (sg, sgi, v)
    if not hasattr(p, "fn_witnesses"):
        p.fn_witnesses = []
    p.fn_witnesses.append(sg)
    return res


def bi_enumerate(I, args, kw):
    start = args[1] if len(args) > 1 else kw.get("start", VInt(0))
    return VEnum(I.force(args[0]), start)


def bi_range(I, args, kw):
    if len(args) == 1:
        return VRange(VInt(0), args[0], 1)
    if len(args) == 2:
        return VRange(args[0], args[1], 1)
    st = const_of(args[2])
    if isinstance(st, bool) or st == 0:
        raise Unsupported("range step")
    if not isinstance(st, int):
        if not isinstance(args[2], VInt):
            raise Unsupported("range with a non-int step")
        I.require_defined(args[2].e != 0, "ValueError", "range() arg 3 must not be zero")
        if not I.path.known(args[2].e > 0):
            raise Unsupported("range with a symbolic step not known to be positive")
        return VRange(args[0], args[1], args[2])      # symbolic positive step (see _iter_protocol)
    return VRange(args[0], args[1], st)


def bi_iter(I, args, kw):
    return args[0]


def bi_round(I, args, kw):
    v = args[0]
    nd = args[1] if len(args) > 1 else None
    return VReal(I.ver.round_term(I, to_real(v), nd)) if nd is not None else VInt(I.ver.round_int_term(I, to_real(v)))


def bi_sum(I, args, kw):
    """sum(xs) over a list of ints/floats: an uninterpreted deterministic function of the list; the only facts
    assumed are sum([]) == 0 and non-negative summands => non-negative sum"""
    v = args[0]
    if len(args) > 1 or kw:
        raise Unsupported("sum(xs, start)")
    if isinstance(v, VEmptyList):
        return VInt(0)
    if isinstance(v, VTuple):
        cur = VInt(0)
        for x in v.items:
            cur = binop(I, ast.Add(), cur, x)
        return cur
    if isinstance(v, VSeq) and isinstance(const_of(VInt(v.n)), int) and const_of(VInt(v.n)) <= 64:
        acc = VInt(0)
        for j in range(const_of(VInt(v.n))):
            acc = binop(I, ast.Add(), acc, v.get(z3.IntVal(j)))
        return acc
    if isinstance(v, VSeq) and (v.et is TInt or v.et is TReal):
        t = TList(v.et)
        f = z3.Function("seq_sum_" + v.et.name, t.sort(), v.et.sort())
        r = f(unwrap(VSeq(v.arr, v.n, v.et, "list"), t))
        i = z3.Int(I.path.fresh_name("sm_i"))
        I.path.assume(z3.Implies(v.n == 0, r == 0))
        I.path.assume(z3.Implies(z3.ForAll([i], z3.Implies(z3.And(0 <= i, i < v.n), z3.Select(v.arr, i) >= 0)), r >= 0))
        I.ver.note_assumption("sum(list) is an uninterpreted function of the list with sum([])==0 and "
                              "non-negative summands => non-negative sum")
        return v.et.wrap(r)
    raise Unsupported("sum() of %s" % type(v).__name__)


def bi_any_all(is_any):
    def f(I, args, kw):
        v = args[0]
        if isinstance(v, VSeq):
            i = z3.Int(I.path.fresh_name("aa_i"))
            el = I.truth(v.et.wrap(z3.Select(v.arr, i)))
            if is_any:
                return VBool(z3.Exists([i], z3.And(0 <= i, i < v.n, el)))
            return VBool(z3.ForAll([i], z3.Implies(z3.And(0 <= i, i < v.n), el)))
        if isinstance(v, VEmptyList):
            return VBool(not is_any)
        if isinstance(v, VTuple):
            es = [I.truth(x) for x in v.items]
            return VBool(z3.Or(es + [z3.BoolVal(False)]) if is_any else z3.And(es + [z3.BoolVal(True)]))
        raise Unsupported("any/all of %s" % type(v).__name__)
    return f


def bi_id(I, args, kw):
    return VInt(I.path.fresh("id", z3.IntSort()))


def bi_hash(I, args, kw):
    v = I.force(args[0])
    if isinstance(v, (VSeq, VMap, VSet, VDictRec, VEmptyList)):
        I.raise_exc("TypeError", "unhashable type")
    return VInt(I.path.fresh("hash", z3.IntSort()))


def bi_object(I, args, kw):
    return VOpaque("object")


def bi_type(I, args, kw):
    v = I.force(args[0])
    if isinstance(v, VExc):
        c = VClass(v.cls, exc_base=EXC_PARENT.get(v.cls) or "BaseException")
        tn = getattr(v, "tname", None)
        if tn is None and v.any_subclass:
            tn = v.tname = VStr(I.path.fresh("exc_type_name", z3.StringSort()))
        c.dyn_name = tn
        return c
    for nm in ("bool", "int", "float", "str", "NoneType", "dict", "list", "tuple", "set"):
        if _isinst(I, v, nm) and not (nm == "int" and isinstance(v, VBool)):
            return VClass(nm)
    if isinstance(v, VObj):
        ci = I.class_of(v)
        if ci:
            return VClass(ci.name, ci.node, ci.module)
    if isinstance(v, VExc):
        # class of a caught exception; for an exception raised by a contract/trusted model (`any_subclass`) the
        # concrete class is unknown: its __name__ is an arbitrary string
        c = VClass(v.cls, exc_base=EXC_PARENT.get(v.cls) or "BaseException")
        if v.any_subclass:
            c.unknown_name = VStr(I.path.fresh("exc_class_name", z3.StringSort()))
        return c
    raise Unsupported("type()")


def bi_print(I, args, kw):
    return VNone()


def bi_super(I, args, kw):
    """zero-argument super() inside a method of a repository class: attribute lookup continues in the bases.
    Only what the verified code needs is modelled: a method found in a repository base class, or the builtin
    (Base)Exception.__init__ (stores `args`)."""
    if args:
        raise Unsupported("super(cls, obj)")
    f = I.fn_stack[-1] if getattr(I, "fn_stack", None) else None
    selfv = getattr(f, "selfv", None)
    owner = I.ver.class_of_method(f.node) if f is not None else None
    if owner is None or selfv is None:
        raise Unsupported("super() outside a method")
    attrs = {}
    seen = False
    stack = list(owner.bases)
    names = set()
    while stack:
        b = stack.pop(0)
        ci = owner.module.classes.get(b)
        if ci is None:
            v = I.ver.module_name(owner.module, b, I)
            ci = v.module.classes.get(v.name) if isinstance(v, VClass) and v.node is not None else None
        if ci is not None:
            for mn, node in ci.methods.items():
                if mn not in attrs:
                    g = VFunc("ast", "%s.%s" % (ci.name, mn), node=node, module=ci.module, selfv=selfv)
                    g.qual = "%s:%s.%s" % (ci.module.relpath, ci.name, mn)
                    attrs[mn] = g
            stack.extend(ci.bases)
        elif b in EXC_PARENT:
            seen = True
    if seen and "__init__" not in attrs:
        def exc_init(I2, a, k, selfv=selfv):
            if isinstance(selfv, VObj):
                selfv.fields["args"] = VTuple(list(a))
            return VNone()
        attrs["__init__"] = VFunc("builtin", "Exception.__init__", impl=exc_init)
    return VExt("super", attrs)


def bi_zip(I, args, kw):
    xs = [I.force(a) for a in args]
    if all(isinstance(x, VTuple) for x in xs):
        n = min(len(x.items) for x in xs)
        return VTuple([VTuple([x.items[i] for x in xs]) for i in range(n)])
    if all(isinstance(x, VSeq) for x in xs):
        tt = TTuple([x.et for x in xs])
        i = z3.Int("zp_i")
        n = xs[0].n
        for x in xs[1:]:
            n = z3.If(x.n < n, x.n, n)
        return VSeq(z3.Lambda([i], tt.dt.mk(*[z3.Select(x.arr, i) for x in xs])), z3.simplify(n), tt, "list")
    raise Unsupported("zip")


def gh_lemma_pigeonhole(I, args, kw):
    """trusted finite-set lemma (instance): a duplicate-free sequence of elements of a finite set that is
    as long as the set's cardinality lists every element.  lemma_pigeonhole(q, m, k) adds
        distinct(q) & (all i. q[i] in m) & len(q) == card(m) & k in m  ==>  exists i. q[i] == k"""
    q, m, k = args
    p = I.path
    kk = unwrap(k, m.kt)
    i, j = z3.Ints("ph_i ph_j")
    hyp = z3.And(q.n == m.card, z3.Select(m.dom, kk),
                 z3.ForAll([i], z3.Implies(z3.And(0 <= i, i < q.n), z3.Select(m.dom, z3.Select(q.arr, i)))),
                 z3.ForAll([i, j], z3.Implies(z3.And(0 <= i, i < j, j < q.n), z3.Select(q.arr, i) != z3.Select(q.arr, j))))
    w = p.fresh("ph_w", z3.IntSort())
    p.assume(z3.Implies(hyp, z3.And(0 <= w, w < q.n, z3.Select(q.arr, w) == kk)))
    I.ver.note_assumption("pigeonhole lemma for duplicate-free listings of a finite set (instantiated, not proved here)")
    return VNone()


def gh_choose(I, args, kw):
    """ghost only: choose('<type>', lambda x: P(x)) -> a value w of that type with  (exists x. P(x)) ==> P(w)
    (Hilbert choice: a conservative definition, it constrains nothing but the fresh w)."""
    t = I.ver.types.parse(const_of(args[0]))
    pred = args[1]
    w = I.fresh_value(t, "chosen")
    x = t.wrap(z3.Const(I.path.fresh_name("ch_x"), t.sort()))
    saved = I.spec
    I.spec = True
    try:
        pw = I.truth(I.call(pred, [w], {}))
        px = I.truth(I.call(pred, [x], {}))
    finally:
        I.spec = saved
    I.path.assume(z3.ForAll([unwrap(x, t)], z3.Implies(px, pw)))
    return w


def gh_map_set_all(I, args, kw):
    """ghost only: map_set_all(m, keys, v):  for k in keys: m[k] = v   (keys: a set)"""
    m, ks, v = args
    if not isinstance(m, VMap) or m.order is not None:
        raise Unsupported("map_set_all on %s" % type(m).__name__)
    dom2, card2, _ = _as_set_dom(I, ks, m.kt)
    k = z3.Const(I.path.fresh_name("msa_k"), m.kt.sort())
    ve = unwrap(v, m.vt)
    nd = I.path.fresh("msa_dom", z3.ArraySort(m.kt.sort(), z3.BoolSort()))
    nv = I.path.fresh("msa_val", z3.ArraySort(m.kt.sort(), m.vt.sort()))
    I.path.assume(z3.ForAll([k], z3.Select(nd, k) == z3.Or(z3.Select(m.dom, k), z3.Select(dom2, k)),
                            patterns=[z3.Select(nd, k)]))
    I.path.assume(z3.ForAll([k], z3.Select(nv, k) == z3.If(z3.Select(dom2, k), ve, z3.Select(m.val, k)),
                            patterns=[z3.Select(nv, k)]))
    nc = I.path.fresh("msa_card", z3.IntSort())
    I.path.assume(z3.And(nc >= m.card, nc >= card2, nc <= m.card + card2))
    m.dom, m.val, m.card = nd, nv, nc
    m.writeback()
    return VNone()


def sp_map_put(I, args, kw):
    """map_put(m, k, v) (spec): the map m with m[k] = v  -- a new value, m is not changed"""
    m, k, v = args
    if not isinstance(m, VMap) or m.order is not None:
        raise Unsupported("map_put on %s" % type(m).__name__)
    kk = unwrap(k, m.kt)
    was = z3.Select(m.dom, kk)
    return VMap(z3.Store(m.dom, kk, z3.BoolVal(True)), z3.Store(m.val, kk, unwrap(v, m.vt)),
                m.card + z3.If(was, 0, 1), m.kt, m.vt)


def sp_map_del(I, args, kw):
    """map_del(m, k) (spec): the map m without key k (m itself when k is absent)"""
    m, k = args
    if not isinstance(m, VMap) or m.order is not None:
        raise Unsupported("map_del on %s" % type(m).__name__)
    kk = unwrap(k, m.kt)
    was = z3.Select(m.dom, kk)
    return VMap(z3.Store(m.dom, kk, z3.BoolVal(False)), m.val, m.card - z3.If(was, 1, 0), m.kt, m.vt)


def sp_perm_of(I, args, kw):
    """perm_of(a, b) (spec): list a is a permutation of list b, i.e. there is a bijection sg on 0..len-1 with
    a[i] == b[sg(i)].  Proving it needs a witness: the index functions attached by sorted()/list.sort() to their
    result (python-side attribute `perm`); without a witness the clause is an unconstrained boolean (unprovable).
    When assumed, fresh index functions are introduced."""
    a, b = args
    if isinstance(a, VEmptyList) or isinstance(b, VEmptyList):
        o = b if isinstance(a, VEmptyList) else a
        return VBool(z3.BoolVal(True) if isinstance(o, VEmptyList) else o.n == 0)
    if not (isinstance(a, VSeq) and isinstance(b, VSeq) and a.et == b.et):
        raise Unsupported("perm_of arguments")
    p = I.path
    w = getattr(a, "perm", None)
    if w is not None:
        sg, sgi = w[0], w[1]
    elif I.assume_mode:
        sg = z3.Function(p.fresh_name("perm"), z3.IntSort(), z3.IntSort())
        sgi = z3.Function(p.fresh_name("permi"), z3.IntSort(), z3.IntSort())
    else:
        return VBool(I.undef_bool())
    i, j = z3.Ints("pm_i pm_j")
    n = a.n
    ea = lambda x: z3.Select(a.arr, x)      # element equality = equality of the encoded values
    eb = lambda x: z3.Select(b.arr, x)
    return VBool(z3.And(
        a.n == b.n,
        z3.ForAll([i], z3.Implies(z3.And(0 <= i, i < n), z3.And(0 <= sg(i), sg(i) < n, sgi(sg(i)) == i, ea(i) == eb(sg(i)))),
                  patterns=[sg(i)]),
        z3.ForAll([j], z3.Implies(z3.And(0 <= j, j < n), z3.And(0 <= sgi(j), sgi(j) < n, sg(sgi(j)) == j, ea(sgi(j)) == eb(j))),
                  patterns=[sgi(j)])))


def sp_enc_eq(I, args, kw):
    """enc_eq(a, b) (spec): equality of the *encoded* values (one z3 equality; for records/containers this is
    stronger than the extensional `==` / seq_eq and free of nested quantifiers)"""
    a, b = args
    if isinstance(a, VUndef) or isinstance(b, VUndef):
        return VBool(I.undef_bool())
    t = typeof(a)
    return VBool(unwrap(a, t) == unwrap(b, t))


def sp_opos(I, args, kw):
    """opos(d, k) (spec only): position of key k in the insertion order of the ordered map d, i.e. the index i
    with list(d.keys())[i] == k.  Defined for k in d (the map's type invariant `assume_wf_order` gives
    0 <= opos < len(d) and keys[opos] == k then); an unconstrained integer otherwise."""
    m, k = args
    if not isinstance(m, VMap) or m.order is None or getattr(m, "pos", None) is None:
        raise Unsupported("opos of a value that is not an insertion-ordered map")
    return VInt(m.pos(unwrap(k, m.kt)))


BUILTIN_FUNCS = {
    "opos": sp_opos,
    "choose": gh_choose, "map_set_all": gh_map_set_all,
    "map_put": sp_map_put, "map_del": sp_map_del, "perm_of": sp_perm_of, "enc_eq": sp_enc_eq,
    "is_str": (lambda I, args, kw: VBool(D.is_str(args[0].e)) if isinstance(args[0], VDyn) else
               VBool(isinstance(I.force(args[0]) if not I.spec else args[0], VStr))),
    "lemma_pigeonhole": gh_lemma_pigeonhole, "int_parses": sp_int_parses, "int_value": sp_int_value,
    "nan": sp_nan, "is_nan": sp_is_nan,
    "len": bi_len, "int": bi_int, "float": bi_float, "bool": bi_bool, "str": bi_str, "abs": bi_abs,
    "min": bi_min, "max": bi_max, "isinstance": bi_isinstance, "hasattr": bi_hasattr, "getattr": bi_getattr,
    "setattr": bi_setattr, "callable": bi_callable, "list": bi_list, "tuple": bi_tuple, "dict": bi_dict,
    "set": bi_set, "sorted": bi_sorted, "enumerate": bi_enumerate, "range": bi_range, "iter": bi_iter,
    "round": bi_round, "sum": bi_sum, "any": bi_any_all(True), "all": bi_any_all(False), "id": bi_id,
    "hash": bi_hash, "object": bi_object, "type": bi_type, "print": bi_print, "zip": bi_zip, "super": bi_super,
    "deque": bi_deque, "OrderedDict": None, "open": bi_open, "fs_key": sp_fs_key,
    "fs_name_of": lambda I, a, k: __import__("pyvc.fsmodel", fromlist=["x"]).sp_fs_name_of(I, a, k),
    "fs_temp_name": lambda I, a, k: __import__("pyvc.fsmodel", fromlist=["x"]).sp_fs_temp_name(I, a, k),
}
BUILTIN_FUNCS.update(jsontree.SPEC_FUNCS)
from . import ext_listing as _ext_listing
BUILTIN_FUNCS.update(_ext_listing.SPEC_FUNCS)
BUILTIN_TYPES = {"int": bi_int, "float": bi_float, "bool": bi_bool, "str": bi_str, "list": bi_list,
                 "tuple": bi_tuple, "dict": bi_dict, "set": bi_set, "frozenset": bi_set, "object": bi_object, "deque": bi_deque,
                 "OrderedDict": bi_ordereddict}
TYPE_NAMES = {"int", "float", "bool", "str", "list", "tuple", "dict", "set", "object", "NoneType", "bytes",
              "Mapping", "MutableMapping", "Sequence", "deque", "OrderedDict", "frozenset"}


def builtin_name(name, I=None):
    if name in TYPE_NAMES:
        return VClass(name)
    if name == "open" and I is not None:
        from . import externals as X0
        if X0._uses_fsmodel(I.ver):
            return VFunc("builtin", name, impl=BUILTIN_FUNCS[name])
    if name in JM.SPEC_FUNCS:
        return VFunc("builtin", name, impl=JM.SPEC_FUNCS[name])
    from . import externals as X
    if name in X.SPEC_FUNCS:
        return VFunc("builtin", name, impl=X.SPEC_FUNCS[name])
    if name in BUILTIN_FUNCS and BUILTIN_FUNCS[name] is not None:
        return VFunc("builtin", name, impl=BUILTIN_FUNCS[name])
    if name in EXC_PARENT:
        return VClass(name, exc_base=EXC_PARENT[name] or "BaseException")
    if name == "True":
        return VBool(True)
    if name == "False":
        return VBool(False)
    if name == "None":
        return VNone()
    return None


# =============================================================== builtin-type methods

def _ensure_seq(I, o, elem_v):
    """an untyped [] becomes a typed sequence at its first append"""
    raise Unsupported("append to [] of unknown element type; declare the local's type in the contract")


def call_bmethod(I, o, name, args, kw):
    if isinstance(o, VSeq):
        return seq_method(I, o, name, args, kw)
    if isinstance(o, VEmptyList):
        if name in ("append", "extend", "insert", "appendleft"):
            _ensure_seq(I, o, args[0])
        if name in ("pop", "popleft"):
            I.raise_exc("IndexError", "pop from empty list")
        if name == "remove":
            I.raise_exc("ValueError", "x not in list")
        if name in ("clear", "sort", "reverse"):
            return VNone()
        if name == "copy":
            return VEmptyList()
    if isinstance(o, VMap):
        return map_method(I, o, name, args, kw)
    if isinstance(o, VDRec):
        return drec_method(I, o, name, args, kw)
    if isinstance(o, VJDict):
        return jsontree.method(I, o, name, args, kw)
    if isinstance(o, VJList):
        return jsontree.list_method(I, o, name, args, kw)
    if isinstance(o, VWStr):
        return jsontree.w_method(I, o, name, args, kw)
    if isinstance(o, VDictRec):
        return dictrec_method(I, o, name, args, kw)
    if isinstance(o, VRec) and getattr(o.t, "dictshape", False) and name == "get":
        c = const_of(args[0]) if isinstance(args[0], VStr) else _NOCONST
        if not isinstance(c, str):
            raise Unsupported("symbolic key lookup in a dict-shaped record")
        default = args[1] if len(args) > 1 else kw.get("default", VNone())
        if c not in o.fields:
            return default
        if c not in o.t.optkeys:
            return o.fields[c]
        f = o.fields[c]
        if isinstance(default, VNone):
            return f
        if isinstance(default, VEmptyList) and isinstance(f.t.inner, TList):
            default = VSeq(z3.K(z3.IntSort(), I.default_of(f.t.inner.elem)), z3.IntVal(0), f.t.inner.elem, "list")
        try:
            return I.ite(z3.Not(f.is_none()), f.val(), default)
        except (Unsupported, TypeError):
            if I.spec:
                raise Unsupported("dict.get with incompatible default in spec")
            if I.path.branch(z3.Not(f.is_none())):
                return f.val()
            return default
    if isinstance(o, (VSet, VEmptySet)):
        return set_method(I, o, name, args, kw)
    if isinstance(o, VStr):
        return str_method(I, o, name, args, kw)
    if isinstance(o, VFile):
        return I.ver.fs_method(I, o, name, args, kw)
    if isinstance(o, VPath):
        from . import fsmodel
        return fsmodel.path_method(I, o, name, args, kw)
    raise Unsupported("method %s of %s" % (name, type(o).__name__))


def resolve_optionals(I, v, t):
    """an Optional value stored where a non-Optional is expected (its None-ness was tested before, e.g. by isinstance):
    resolve it on this path (fork; the None side is normally infeasible) -- also inside tuples"""
    if I.spec:
        return v
    if isinstance(v, VOpt) and not isinstance(t, TOpt):
        return I.force(v)
    if isinstance(v, VTuple) and isinstance(t, TTuple) and len(v.items) == len(t.elems) and \
            any(isinstance(x, VOpt) and not isinstance(et, TOpt) for x, et in zip(v.items, t.elems)):
        return VTuple([resolve_optionals(I, x, et) for x, et in zip(v.items, t.elems)])
    if isinstance(v, VDictRec) and isinstance(t, TDRec) and getattr(v, "mt", None) is None and any(
            isinstance(x, VOpt) and fn in t.fields and not isinstance(t.fields[fn], TOpt) for fn, x in v.fields.items()):
        # dict literal whose field holds an Optional that was tested before (`if etag_from:`): resolve on this path
        d = VDictRec({fn: (I.force(x) if isinstance(x, VOpt) and fn in t.fields and not isinstance(t.fields[fn], TOpt) else x)
                      for fn, x in v.fields.items()})
        return d
    return v


def seq_method(I, o, name, args, kw):
    p = I.path
    i = z3.Int("sm_i")
    if name == "append":
        check_literal_shape(I, args[0], o.et)
        o.arr = z3.Store(o.arr, o.n, unwrap(resolve_optionals(I, args[0], o.et), o.et))
        o.n = z3.simplify(o.n + 1)
        o.writeback()
        return VNone()
    if name == "appendleft":
        x = unwrap(args[0], o.et)
        old = o.arr
        o.arr = z3.Lambda([i], z3.If(i == 0, x, z3.Select(old, i - 1)))
        o.n = z3.simplify(o.n + 1)
        o.writeback()
        return VNone()
    if name == "popleft" or (name == "pop" and args and const_of(args[0]) == 0):
        I.require_defined(o.n > 0, "IndexError", "pop from an empty deque")
        r = o.get(z3.IntVal(0))
        r.origin = None
        old = o.arr
        o.arr = z3.Lambda([i], z3.Select(old, i + 1))
        o.n = z3.simplify(o.n - 1)
        o.writeback()
        return r
    if name == "pop":
        if args:
            raise Unsupported("list.pop(i)")
        I.require_defined(o.n > 0, "IndexError", "pop from empty list")
        r = o.get(o.n - 1)
        r.origin = None
        o.n = z3.simplify(o.n - 1)
        o.writeback()
        return r
    if name == "clear":
        o.n = z3.IntVal(0)
        o.writeback()
        return VNone()
    if name == "copy":
        return VSeq(o.arr, o.n, o.et, o.kind)
    if name == "remove":
        x = args[0]
        j = z3.Int(p.fresh_name("rm_j"))
        el = o.et.wrap(z3.Select(o.arr, j))
        found = z3.Exists([j], z3.And(0 <= j, j < o.n, I.eq(el, x)))
        if not p.branch(found):
            I.raise_exc("ValueError", "x not in list")
        pos = p.fresh("rm_pos", z3.IntSort())
        p.assume(z3.And(0 <= pos, pos < o.n, I.eq(o.get(pos), x)))
        p.assume(z3.ForAll([j], z3.Implies(z3.And(0 <= j, j < pos), z3.Not(I.eq(el, x)))))
        old = o.arr
        o.arr = z3.Lambda([i], z3.If(i < pos, z3.Select(old, i), z3.Select(old, i + 1)))
        o.n = z3.simplify(o.n - 1)
        o.writeback()
        return VNone()
    if name == "extend":
        other = to_seq(I, I.force(args[0]))
        if isinstance(other, VEmptyList):
            return VNone()
        old, n0 = o.arr, o.n
        if getattr(I.cur_contract, "named_seqs", False) and not I.spec:
            r = named_concat(I, VSeq(old, n0, o.et), other)
            o.arr, o.n = r.arr, r.n
            o.writeback()
            return VNone()
        o.arr = z3.Lambda([i], z3.If(i < n0, z3.Select(old, i), z3.Select(other.arr, i - n0)))
        o.n = z3.simplify(n0 + other.n)
        o.writeback()
        return VNone()
    if name == "sort":
        rev = kw.get("reverse")
        rev = False if rev is None else const_of(rev)
        if not isinstance(rev, bool):
            raise Unsupported("list.sort(reverse=<symbolic>)")
        r = sort_seq(I, VSeq(o.arr, o.n, o.et, "list"), kw.get("key"), reverse=rev)
        o.arr, o.n = r.arr, r.n
        o.writeback()
        return VNone()
    if name == "index":
        x = args[0]
        j = z3.Int(p.fresh_name("ix_j"))
        el = o.et.wrap(z3.Select(o.arr, j))
        found = z3.Exists([j], z3.And(0 <= j, j < o.n, I.eq(el, x)))
        if not p.branch(found):
            I.raise_exc("ValueError", "x not in list")
        pos = p.fresh("ix_pos", z3.IntSort())
        p.assume(z3.And(0 <= pos, pos < o.n, I.eq(o.get(pos), x)))
        p.assume(z3.ForAll([j], z3.Implies(z3.And(0 <= j, j < pos), z3.Not(I.eq(el, x)))))
        return VInt(pos)
    raise Unsupported("list.%s" % name)


def map_get(I, m, k, default):
    try:
        kk = unwrap(k, m.kt)
    except TypeError:
        return default
    present = z3.Select(m.dom, kk)
    I.ver.on_map_read(I, m, kk, guard=present)
    val = m.get(kk)
    D.key_fact(I, m, kk)
    if m.vt is TDyn and not isinstance(default, VDyn):
        try:
            # a JSON-like default ({} / [] / 0 / "") joins the Dyn value without forking the path
            default = VDyn(D.to_dyn(default))
        except TypeError:
            pass
    sp = z3.simplify(present)
    if z3.is_true(sp):
        return val
    if z3.is_false(sp):
        return default
    # try a value level ite first; fork when the default has a different shape
    try:
        if isinstance(m.vt, TMutRec) and not I.spec:
            raise TypeError("record alias: fork")
        if isinstance(default, VNone):
            t = m.vt if isinstance(m.vt, TOpt) else TOpt(m.vt)
            r = t.wrap(z3.If(present, unwrap(val, t), t.none()))
            return r
        if not isinstance(val, (VSeq, VMap, VSet)):
            r = I.ite(present, val, default)
            if isinstance(r, VDyn) and not I.spec:
                # name the result: chains of d.get(k, {}) would otherwise nest if-then-else terms inside selectors,
                # which the solver expands exponentially
                g = VDyn(I.path.fresh("dget", r.e.sort()))
                I.path.assume(g.e == r.e)
                return g
            return r
    except (Unsupported, TypeError):
        pass
    if I.spec:
        raise Unsupported("dict.get with incompatible default in spec")
    if I.path.branch(present):
        return val
    return default


def map_method(I, m, name, args, kw):
    p = I.path
    if name == "get":
        default = args[1] if len(args) > 1 else kw.get("default", VNone())
        return map_get(I, m, I.force(args[0]) if not I.spec else args[0], default)
    if name in ("keys", "values", "items"):
        return VMapView(m, name)
    if name == "pop":
        k = I.force(args[0])
        try:
            kk = unwrap(k, m.kt)
            present = z3.Select(m.dom, kk)
        except TypeError:
            kk, present = None, z3.BoolVal(False)
        if p.branch(present):
            r = m.get(kk)
            r.origin = None
            map_remove(I, m, kk)
            return r
        if len(args) > 1:
            return args[1]
        I.raise_exc("KeyError", "pop missing key")
    if name == "setdefault":
        k = I.force(args[0])
        kk = unwrap(k, m.kt)
        if p.branch(z3.Select(m.dom, kk)):
            return m.get(kk)
        dv = args[1] if len(args) > 1 else VNone()
        map_store(I, m, kk, dv)
        return m.get(kk)
    if name == "clear":
        I.ver.on_map_clear(I, m)
        m.dom = z3.K(m.kt.sort(), z3.BoolVal(False))
        m.card = z3.IntVal(0)
        if m.order is not None:
            m.order.n = z3.IntVal(0)
            refresh_order(I, m)
        m.writeback()
        return VNone()
    if name == "copy":
        return bi_dict(I, [m], {})
    if name == "update":
        other = I.force(args[0]) if args else VDictRec(kw)
        if isinstance(other, VDictRec):
            for k2, v2 in other.fields.items():
                map_store(I, m, unwrap(VStr(k2), m.kt), v2)
            return VNone()
        if isinstance(other, VMap) and other.kt == m.kt and other.vt == m.vt and const_of(VInt(m.card)) == 0 \
                and (m.order is None or other.order is not None) and not I.ver._aggs_for(m):
            # update of an *empty* dict (e.g. right after .clear()): the result is a copy of the argument
            m.dom, m.val, m.card = other.dom, other.val, other.card
            if m.order is not None:
                m.order.arr, m.order.n = other.order.arr, other.order.n
                m.pos = getattr(other, "pos", None)
            m.writeback()
            return VNone()
        raise Unsupported("dict.update with symbolic map")
    if name == "move_to_end":
        if m.order is None:
            raise Unsupported("move_to_end on unordered map model")
        k = I.force(args[0])
        kk = unwrap(k, m.kt)
        last = kw.get("last", args[1] if len(args) > 1 else VBool(True))
        if const_of(last) is not True:
            raise Unsupported("move_to_end(last=False)")
        I.require_defined(z3.Select(m.dom, kk), "KeyError", "move_to_end missing key")
        o = m.order
        pos = m.pos(kk)
        i = z3.Int("mte_i")
        old = o.arr
        o.arr = z3.Lambda([i], z3.If(i < pos, z3.Select(old, i),
                                    z3.If(i < o.n - 1, z3.Select(old, i + 1), kk)))
        refresh_order(I, m)
        m.writeback()
        return VNone()
    if name == "popitem":
        if m.order is None:
            raise Unsupported("popitem on unordered map model")
        last = kw.get("last", args[0] if args else VBool(True))
        cl = const_of(last)
        I.require_defined(m.card > 0, "KeyError", "dictionary is empty")
        o = m.order
        kk = z3.Select(o.arr, 0) if cl is False else z3.Select(o.arr, o.n - 1)
        r = VTuple([m.kt.wrap(kk), m.get(kk)])
        r.items[1].origin = None
        map_remove(I, m, kk)
        return r
    raise Unsupported("dict.%s" % name)


def drec_method(I, d, name, args, kw):
    """methods of a dict-shaped record (read-only dict protocol)"""
    if name == "get":
        k = args[0] if I.spec else I.force(args[0])
        c = const_of(k) if isinstance(k, VStr) else _NOCONST
        default = args[1] if len(args) > 1 else kw.get("default", VNone())
        if not isinstance(c, str):
            if not isinstance(k, VStr):
                return default
            raise Unsupported("symbolic key lookup in a dict-shaped record")
        if c not in d.t.fields:
            return default
        val = d.field(c)
        if c in d.t.required:
            return val
        ft = d.t.fields[c]
        if isinstance(default, VDictRec) and not default.fields and isinstance(ft, TMap):
            default = I.empty_map(ft)
        if isinstance(default, VEmptyList) and isinstance(ft, TList):
            default = VSeq(z3.K(z3.IntSort(), I.default_of(ft.elem)), z3.IntVal(0), ft.elem, ft.kind)
        present = d.has(c)
        try:
            if isinstance(default, VNone):
                t = ft if isinstance(ft, TOpt) else TOpt(ft)
                return t.wrap(z3.If(present, unwrap(val, t), t.none()))
            return I.ite(present, val, default)
        except (Unsupported, TypeError):
            pass
        if I.spec:
            raise Unsupported("dict-shaped record .get with an incompatible default in a specification")
        if I.path.branch(present):
            return val
        return default
    if name == "copy":
        return d
    raise Unsupported("dict-shaped record .%s" % name)


def dictrec_method(I, d, name, args, kw):
    if name == "get":
        k = I.force(args[0])
        c = const_of(k) if isinstance(k, VStr) else _NOCONST
        default = args[1] if len(args) > 1 else VNone()
        if isinstance(c, str):
            return d.fields.get(c, default)
        if not d.fields:
            return default
        if isinstance(k, VWStr):
            raise Unsupported("abstract key lookup in a literal dict")
        if not isinstance(k, VStr):
            return default
        # symbolic key into a literal table of scalars: if-then-else chain over the (distinct) literal keys
        try:
            cur = default
            for k2 in reversed(list(d.fields)):
                cur = I.ite(k.e == z3.StringVal(k2), d.fields[k2], cur)
            return cur
        except (Unsupported, TypeError):
            raise Unsupported("symbolic key lookup in literal dict")
    if name in ("keys", "values", "items"):
        return VMapView(d, name)
    if name == "copy":
        return VDictRec(dict(d.fields))
    if name == "update":
        other = I.force(args[0]) if args else VDictRec(kw)
        if isinstance(other, VDictRec):
            d.fields.update(other.fields)
            return VNone()
        raise Unsupported("literal dict update with symbolic map")
    if name == "pop":
        c = const_of(args[0]) if not jsontree.is_j(args[0]) else _NOCONST
        if isinstance(c, str) or not d.fields:
            if isinstance(c, str) and c in d.fields:
                return d.fields.pop(c)
            if len(args) > 1:
                return args[1]
            I.raise_exc("KeyError", str(c))
    if name == "setdefault":
        c = const_of(args[0])
        if isinstance(c, str):
            if c not in d.fields:
                d.fields[c] = args[1] if len(args) > 1 else VNone()
            return d.fields[c]
    if name == "clear":
        d.fields.clear()
        return VNone()
    raise Unsupported("literal dict .%s" % name)


def _as_set_dom(I, other, kt):
    """membership predicate (z3 array kt -> Bool) and cardinality bound of an iterable used as a set operand"""
    other = I.force(other)
    if isinstance(other, (VEmptySet, VEmptyList)):
        return z3.K(kt.sort(), z3.BoolVal(False)), z3.IntVal(0), True
    if isinstance(other, VSet) and other.kt == kt:
        return other.dom, other.card, True
    if isinstance(other, VSeq) and other.et == kt:
        st = bi_set(I, [other], {})
        return st.dom, st.card, False
    raise Unsupported("set operation with %s operand" % type(other).__name__)


def set_method(I, s, name, args, kw):
    if name == "isdisjoint":
        if isinstance(s, VEmptySet):
            return VBool(True)
        dom2, _, _ = _as_set_dom(I, args[0], s.kt)
        k = z3.Const(I.path.fresh_name("dj_k"), s.kt.sort())
        return VBool(z3.Not(z3.Exists([k], z3.And(z3.Select(s.dom, k), z3.Select(dom2, k)))))
    if isinstance(s, VEmptySet):
        raise Unsupported("mutation of set() of unknown element type; declare the local's type")
    if name == "update":
        # s |= other: union; the cardinality is only bounded (exact when the operands are disjoint)
        dom2, card2, _ = _as_set_dom(I, args[0], s.kt)
        k = z3.Const(I.path.fresh_name("un_k"), s.kt.sort())
        old_dom, old_card = s.dom, s.card
        nd = I.path.fresh("union_dom", z3.ArraySort(s.kt.sort(), z3.BoolSort()))
        I.path.assume(z3.ForAll([k], z3.Select(nd, k) == z3.Or(z3.Select(old_dom, k), z3.Select(dom2, k)),
                                patterns=[z3.Select(nd, k)]))
        s.dom = nd
        s.card = I.path.fresh("union_card", z3.IntSort())
        I.path.assume(z3.And(s.card >= old_card, s.card >= card2, s.card <= old_card + card2))
        I.path.assume((s.card == 0) == z3.And(old_card == 0, card2 == 0))
        s.writeback()
        return VNone()
    if name == "add":
        set_add(I, s, unwrap(I.force(args[0]), s.kt))
        return VNone()
    if name in ("discard", "remove"):
        kk = unwrap(I.force(args[0]), s.kt)
        if I.path.branch(z3.Select(s.dom, kk)):
            s.dom = z3.Store(s.dom, kk, z3.BoolVal(False))
            s.card = z3.simplify(s.card - 1)
            s.writeback()
        elif name == "remove":
            I.raise_exc("KeyError", "set.remove")
        return VNone()
    if name == "clear":
        s.dom = z3.K(s.kt.sort(), z3.BoolVal(False))
        s.card = z3.IntVal(0)
        s.writeback()
        return VNone()
    if name == "copy":
        return VSet(s.dom, s.card, s.kt)
    raise Unsupported("set.%s" % name)


def str_method(I, s, name, args, kw):
    if name == "startswith":
        return VBool(z3.PrefixOf(args[0].e, s.e))
    if name == "endswith":
        a = args[0]
        if isinstance(a, VTuple):
            return VBool(z3.Or([z3.SuffixOf(x.e, s.e) for x in a.items]))
        return VBool(z3.SuffixOf(a.e, s.e))
    if name in ("lower", "upper", "strip", "lstrip", "rstrip"):
        return VStr(I.ver.str_fn(name)(s.e))
    if name == "encode":
        # bytes are modelled as str: a UTF-8 byte string is represented by the text it encodes (identity); any other
        # codec is an opaque deterministic function of (text, codec).  Encoding may fail (lone surrogates /
        # unencodable characters: UnicodeEncodeError; unknown codec name: LookupError) -- exec mode forks.
        enc = args[0] if args else kw.get("encoding")
        cenc = "utf-8" if enc is None else (const_of(enc) if isinstance(enc, VStr) else _NOCONST)
        known = isinstance(cenc, str) and cenc.lower().replace("_", "-") in ("utf-8", "utf8")
        if not known and not isinstance(enc, VStr):
            raise Unsupported("str.encode with a non-string codec")
        utf8 = z3.BoolVal(True) if known else z3.Or(enc.e == z3.StringVal("utf-8"), enc.e == z3.StringVal("utf8"))
        errs = args[1] if len(args) > 1 else kw.get("errors")
        lenient = errs is not None and const_of(errs) in ("backslashreplace", "replace", "ignore", "surrogatepass",
                                                          "xmlcharrefreplace", "namereplace")
        if lenient:
            I.ver.note_assumption("str.encode(..., errors=<lenient handler>) never raises UnicodeEncodeError; the bytes are "
                                  "modelled as the text itself (exact except for unencodable characters)")
        if not I.spec:
            if not lenient and I.path.choice():
                I.raise_exc("UnicodeEncodeError", "codec can't encode character")
            if not known:
                if I.path.choice():
                    I.path.assume(z3.Not(utf8))     # "utf-8" / "utf8" are known codecs
                    I.raise_exc("LookupError", "unknown encoding")
        if known:
            return s
        if isinstance(enc, VStr):
            other = I.ver.opaque_str("encode", VTuple([s, enc]), I)
            return VStr(z3.If(utf8, s.e, other.e))
        raise Unsupported("str.encode with a non-string codec")
    if name == "replace":
        return VStr(z3.Replace(s.e, args[0].e, args[1].e)) if False else I.ver.opaque_str("replace", VTuple([s] + list(args)), I)
    if name == "find":
        return VInt(z3.IndexOf(s.e, args[0].e, 0))
    if name == "count" and len(args) == 1 and isinstance(args[0], VStr):
        # number of non-overlapping occurrences: an uninterpreted function, only 0 <= count <= len(s) is assumed
        f = z3.Function("str_count", z3.StringSort(), z3.StringSort(), z3.IntSort())
        r = f(s.e, args[0].e)
        I.path.assume(z3.And(r >= 0, r <= z3.Length(s.e)))
        I.ver.note_assumption("str.count is uninterpreted (0 <= count <= len)")
        return VInt(r)
    if name == "isascii":
        if isinstance(const_of(s), str):
            return VBool(const_of(s).isascii())
        fa = z3.Function("str_isascii", z3.StringSort(), z3.BoolSort())
        fd = isdigit_term(I, s.e).decl()
        if not getattr(I.path, "_isascii_axiom", False):
            I.path._isascii_axiom = True
            x = z3.String("ias_x")
            ipf = int_parse_terms(I, z3.StringVal("0"))[0].decl()
            # trusted: an ASCII string that isdigit() accepts is in [0-9]+, which int() parses
            I.path.assume(z3.ForAll([x], z3.Implies(z3.And(fa(x), fd(x)), z3.And(ipf(x), z3.InRe(x, z3.Plus(z3.Range("0", "9"))))),
                                    patterns=[z3.MultiPattern(fa(x), fd(x))]))
            I.ver.note_assumption("str.isascii(): uninterpreted except: isascii(s) and isdigit(s) => s in [0-9]+ (so int(s) parses)")
        return VBool(fa(s.e))
    if name == "isdigit":
        if isinstance(const_of(s), str):
            return VBool(const_of(s).isdigit())     # concrete string: host python decides
        return VBool(isdigit_term(I, s.e))
    if name == "join":
        xs = I.force(args[0])
        if isinstance(xs, (VTuple, VJList)) and any(isinstance(x, VWStr) for x in xs.items):
            return jsontree.w_join(I, s, xs.items)
        if isinstance(xs, VTuple):
            if not xs.items:
                return VStr("")
            e = xs.items[0].e
            for x in xs.items[1:]:
                e = z3.Concat(e, s.e, x.e)
            return VStr(e)
        if isinstance(xs, VEmptyList):
            return VStr("")
        if isinstance(xs, VSeq):
            return VStr(I.ver.join_term(I, s, xs))
    if name == "split":
        return I.ver.split_term(I, s, args, kw)
    if name == "format":
        # str.format: an uninterpreted function of the template and the arguments; with a non-constant template it
        # may raise (KeyError / IndexError / ValueError for unknown fields, bad indexes, malformed specs)
        if not I.spec and s.concrete() is None:
            if I.path.branch(I.path.fresh("format_raises", z3.BoolSort())):
                raise PyRaise(VExc("Exception", [], any_subclass=True))
        items = [s] + list(args) + [kw[k] for k in sorted(kw)]
        try:
            return I.ver.opaque_str("format_" + "_".join(sorted(kw)), VTuple(items), I)
        except Exception:
            return VStr(I.path.fresh("ostr_format", z3.StringSort()))
    raise Unsupported("str.%s" % name)


# =============================================================== comprehensions

def _comp_source(I, gen, env):
    it = I.ev(gen.iter, env)
    it = I.force(it) if not I.spec else it
    return it


def comprehension(I, n, env):
    """[elt for x in xs if cond]: element and condition are evaluated as *pure total* expressions
    of a bound index (spec mode); partial operations inside are not modelled as raising (listed)."""
    if len(n.generators) != 1:
        raise Unsupported("nested comprehension")
    gen = n.generators[0]
    src = _comp_source(I, gen, env)
    if isinstance(src, VEmptyList):
        return VEmptyList()
    if isinstance(src, (VTuple,)) or (isinstance(src, VMapView) and isinstance(src.m, VDictRec)) or isinstance(src, VDictRec):
        items = src.items if isinstance(src, VTuple) else \
            [x for x in (to_seq_items(I, src))]
        out = []
        for x in items:
            e2 = Env(env, env.module)
            I.assign(gen.target, x, e2)
            ok = True
            for c in gen.ifs:
                if not I.test(I.ev(c, e2)):
                    ok = False
                    break
            if ok:
                out.append(I.ev(n.elt, e2))
        return I.mk_list(out)
    if isinstance(src, VEnum):
        inner = to_seq(I, src.inner) if not isinstance(src.inner, VSeq) else src.inner
        base = inner
        mk_item = lambda idx: VTuple([VInt(idx + to_int(src.start)), base.get(idx)])
    elif isinstance(src, VRange):
        if isinstance(src.step, V) or src.step != 1:
            raise Unsupported("comprehension over stepped range")
        lo, hi = to_int(src.lo), to_int(src.hi)
        cnt = z3.If(hi > lo, hi - lo, 0)
        base = VSeq(None, z3.simplify(cnt), TInt, "list")
        mk_item = lambda idx: VInt(lo + idx)
    else:
        base = to_seq(I, src)
        if isinstance(base, VEmptyList):
            return VEmptyList()
        mk_item = lambda idx: base.get(idx)
    if not I.spec and getattr(I.ver.cur, "strict_comps", False):
        if not _check_comp_body(I, n, gen, env, base, mk_item):
            return VEmptyList()      # empty source: the body is never evaluated
    else:
        I.ver.note_assumption("comprehension bodies are evaluated as pure total expressions")
    p = I.path
    i = z3.Int(p.fresh_name("cp_i"))
    saved = I.spec
    I.spec = True
    try:
        e2 = Env(env, env.module)
        I.assign_spec(gen.target, mk_item(i), e2)
        conds = [I.truth(I.ev(c, e2)) for c in gen.ifs]
        if conds and z3.is_false(z3.simplify(z3.And(conds))):
            return VEmptyList()     # the filter rejects every element (e.g. isinstance(x, dict) over a list of strings)
        elt = I.ev(n.elt, e2)
    finally:
        I.spec = saved
    if isinstance(elt, VDictRec):
        elt = VDyn(D.to_dyn(elt))
    et = typeof(elt)
    lt = I.ver.comp_type(I, n)
    if lt is not None:
        et = lt
    elt_e = unwrap(elt, et)
    if not conds:
        if getattr(I.cur_contract, "named_seqs", False) and not saved:
            res = I.fresh_value(TList(et), "map")
            p.assume(res.n == base.n)
            pats = [z3.Select(res.arr, i)]
            if base.arr is not None and not z3.is_quantifier(base.arr):
                pats.append(z3.Select(base.arr, i))
            p.assume(z3.ForAll([i], z3.Implies(z3.And(0 <= i, i < base.n), z3.Select(res.arr, i) == elt_e), patterns=pats))
            return res
        return VSeq(z3.Lambda([i], elt_e), base.n, et, "list")
    cond = z3.And(conds)
    # filter: res[j] = elt(sel(j)), sel strictly increasing, hits exactly the indices satisfying cond
    res = I.fresh_value(TList(et), "comp")
    sel = z3.Function(p.fresh_name("sel"), z3.IntSort(), z3.IntSort())
    rank = z3.Function(p.fresh_name("rank"), z3.IntSort(), z3.IntSort())
    j, j2 = z3.Ints("cp_j cp_j2")
    sub = lambda e, at: z3.substitute(e, (i, at))
    p.assume(res.n <= base.n)
    p.assume(z3.ForAll([j], z3.Implies(z3.And(0 <= j, j < res.n),
                                      z3.And(0 <= sel(j), sel(j) < base.n, sub(cond, sel(j)),
                                             rank(sel(j)) == j,
                                             z3.Select(res.arr, j) == sub(elt_e, sel(j)))),
                       patterns=[z3.Select(res.arr, j), sel(j)]))
    p.assume(z3.ForAll([j, j2], z3.Implies(z3.And(0 <= j, j < j2, j2 < res.n), sel(j) < sel(j2)),
                       patterns=[z3.MultiPattern(sel(j), sel(j2))]))
    hit_pats = [rank(i)]
    if base.arr is not None and z3.is_const(base.arr) and base.arr.decl().kind() == z3.Z3_OP_UNINTERPRETED:
        # (a Store/Lambda/ite-valued array is not a legal trigger: "'if' cannot be used in patterns")
        hit_pats.append(z3.Select(base.arr, i))
    elif base.arr is not None:
        # source is itself a mapped list (lambda array): trigger on the reads of the underlying plain arrays
        seen, stack = set(), [z3.simplify(z3.Select(base.arr, i))]
        while stack:
            x = stack.pop()
            if x.get_id() in seen or not z3.is_app(x):
                continue
            seen.add(x.get_id())
            if z3.is_select(x) and x.arg(1).eq(i) and z3.is_const(x.arg(0)) and \
                    x.arg(0).decl().kind() == z3.Z3_OP_UNINTERPRETED:
                hit_pats.append(x)
            stack.extend(x.children())
    p.assume(z3.ForAll([i], z3.Implies(z3.And(0 <= i, i < base.n, cond),
                                      z3.And(0 <= rank(i), rank(i) < res.n, sel(rank(i)) == i,
                                             z3.Select(res.arr, rank(i)) == elt_e)),
                       patterns=hit_pats))
    res.filt = (sel, rank, base)
    return res


def _check_comp_body(I, n, gen, env, base, mk_item):
    """contracts with strict_comps=True: exceptions raised inside a comprehension / generator body are not ignored.
    The filter and element expressions are executed once in exec mode (forking, raising) for an *arbitrary*
    element index of the source; a python exception raised there propagates from the comprehension.  This
    over-approximates short-circuiting consumers (any/all stop early): it can only report more exceptions.
    The value of the comprehension is still the total (spec mode) encoding built afterwards."""
    p = I.path
    if not p.branch(base.n > 0):
        return False
    j = p.fresh("cp_elem", z3.IntSort())
    p.assume(z3.And(0 <= j, j < base.n))
    e2 = Env(env, env.module)
    I.assign(gen.target, mk_item(j), e2)
    for c in gen.ifs:
        if not I.test(I.ev(c, e2)):
            return True
    I.ev(n.elt, e2)
    return True


def _has_ite(e):
    seen = set()
    st = [e]
    while st:
        x = st.pop()
        if x.get_id() in seen:
            continue
        seen.add(x.get_id())
        if z3.is_app(x):
            if x.decl().kind() == z3.Z3_OP_ITE:
                return True
            st.extend(x.children())
        else:
            return True   # quantifier / lambda / bound variable: not usable inside a trigger either
    return False


def to_seq_items(I, src):
    if isinstance(src, VDictRec):
        return [VStr(k) for k in src.fields]
    if isinstance(src, VMapView):
        d = src.m
        if src.kind == "keys":
            return [VStr(k) for k in d.fields]
        if src.kind == "values":
            return list(d.fields.values())
        return [VTuple([VStr(k), v]) for k, v in d.fields.items()]
    raise Unsupported("items")


def dict_comprehension(I, n, env):
    if len(n.generators) != 1:
        raise Unsupported("nested dict comprehension")
    gen = n.generators[0]
    src = _comp_source(I, gen, env)
    if isinstance(src, VEmptyList):
        return VDictRec({})
    srcmap = src.m if isinstance(src, VMapView) and src.kind == "keys" else src
    if isinstance(srcmap, VMap) and isinstance(gen.target, ast.Name) and isinstance(n.key, ast.Name) \
            and n.key.id == gen.target.id and not gen.ifs:
        # {k: f(k) for k in m} / m.keys(): exactly the map with m's domain and value f(k) at k
        kc = z3.Const("dck_" + gen.target.id, srcmap.kt.sort())
        saved = I.spec
        I.spec = True
        try:
            e2 = Env(env, env.module)
            e2.set(gen.target.id, srcmap.kt.wrap(kc))
            vv = I.ev(n.value, e2)
        finally:
            I.spec = saved
        vt = typeof(vv)
        ve = unwrap(vv, vt)
        uses_k = any(x.eq(kc) for x in _subterms(ve))
        val = z3.Lambda([kc], ve) if uses_k else z3.K(srcmap.kt.sort(), ve)
        return VMap(srcmap.dom, val, srcmap.card, srcmap.kt, vt)
    base = to_seq(I, src)
    if isinstance(base, VEmptyList):
        return VDictRec({})
    p = I.path
    i = z3.Int(p.fresh_name("dc_i"))
    saved = I.spec
    I.spec = True
    try:
        e2 = Env(env, env.module)
        I.assign_spec(gen.target, base.get(i), e2)
        if gen.ifs:
            raise Unsupported("dict comprehension with filter")
        kv = I.ev(n.key, e2)
        vv = I.ev(n.value, e2)
    finally:
        I.spec = saved
    kt, vt = typeof(kv), typeof(vv)
    ke, ve = unwrap(kv, kt), unwrap(vv, vt)
    m = I.fresh_value(TMap(kt, vt), "dcomp")
    k = z3.Const("dc_k", kt.sort())
    idx = z3.Function(p.fresh_name("dcidx"), kt.sort(), z3.IntSort())
    # last writer wins: idx(k) is the last index producing key k
    p.assume(z3.ForAll([i], z3.Implies(z3.And(0 <= i, i < base.n),
                                      z3.And(z3.Select(m.dom, ke), idx(ke) >= i))))
    sub = lambda e, at: z3.substitute(e, (i, at))
    p.assume(z3.ForAll([k], z3.Implies(z3.Select(m.dom, k),
                                      z3.And(0 <= idx(k), idx(k) < base.n, sub(ke, idx(k)) == k,
                                             z3.Select(m.val, k) == sub(ve, idx(k))))))
    p.assume(m.card <= base.n)
    j = z3.Int("dc_j")
    distinct = z3.ForAll([i, j], z3.Implies(z3.And(0 <= i, i < j, j < base.n), ke != sub(ke, j)))
    p.assume(z3.Implies(distinct, m.card == base.n))
    return m


def _subterms(e):
    seen = set()
    st = [e]
    while st:
        x = st.pop()
        if x.get_id() in seen:
            continue
        seen.add(x.get_id())
        yield x
        if z3.is_app(x):
            st.extend(x.children())
        elif z3.is_quantifier(x):
            st.append(x.body())


def set_comprehension(I, n, env):
    """{elt for x in xs if c} == set([elt for x in xs if c])"""
    lst = comprehension(I, n, env)
    if isinstance(lst, VEmptyList):
        return VEmptySet()
    return bi_set(I, [lst], {})


def assign_spec(self, t, v, env):
    if isinstance(t, ast.Name):
        env.set(t.id, v)
    elif isinstance(t, (ast.Tuple, ast.List)) and isinstance(v, VTuple):
        for tt, x in zip(t.elts, v.items):
            assign_spec(self, tt, x, env)
    else:
        raise Unsupported("comprehension target")


Interp.assign_spec = assign_spec


# =============================================================== for / with

def exec_with(I, s, env):
    entered = []

    def leave(exc):
        # __exit__ of file objects = close() (may itself raise: the new exception then replaces the one in flight);
        # only run for python-level exits (normal / exception / return / break / continue), never for engine signals
        err = None
        while entered:
            cm = entered.pop()
            if isinstance(cm, VFile):
                try:
                    I.ver.fs_method(I, cm, "__exit__", [], {})
                except PyRaise as pr:
                    err = pr
        if err is not None:
            raise err

    depth = len(I.with_stack)
    try:
        try:
            for it in s.items:
                cm = I.force(I.ev(it.context_expr, env))
                I.with_stack.append(cm)
                entered.append(cm)
                val = cm
                if isinstance(cm, VObj):
                    ci = I.class_of(cm)
                    if ci is not None and ci.find_method("__enter__"):
                        val = I.call_method_ast(cm, "__enter__", [], {})
                if it.optional_vars is not None:
                    I.assign(it.optional_vars, val, env)
            I.exec_block(s.body, env)
        except (PyRaise, ReturnSig, BreakSig, ContinueSig) as sig:
            del I.with_stack[depth:]
            leave(sig)
            raise
        else:
            del I.with_stack[depth:]
            leave(None)
    finally:
        del I.with_stack[depth:]


def _iter_protocol(I, it):
    """-> ('concrete', [items]) | ('seq', n_expr, item_fn) | ('map', VMap, kind)"""
    if isinstance(it, VTuple):
        return ("concrete", list(it.items))
    if isinstance(it, VEmptyList) or isinstance(it, VEmptySet):
        return ("concrete", [])
    if isinstance(it, VDictRec):
        return ("concrete", [VStr(k) for k in it.fields])
    if isinstance(it, VMapView) and isinstance(it.m, VDictRec):
        return ("concrete", to_seq_items(I, it))
    if isinstance(it, VMapView) and isinstance(it.m, VJDict):
        return ("concrete", jsontree.view_items(I, it))     # insertion order, as python dicts
    if isinstance(it, VJDict):
        return ("concrete", [k for k, _ in it.slots])
    if isinstance(it, VJList):
        return ("concrete", list(it.items))
    if isinstance(it, VSeq):
        snap = VSeq(it.arr, it.n, it.et, it.kind)
        return ("seq", snap.n, lambda i: snap.get(i))
    if isinstance(it, VEnum):
        kind = _iter_protocol(I, it.inner)
        st = to_int(it.start)
        if kind[0] == "concrete":
            return ("concrete", [VTuple([VInt(st + j), x]) for j, x in enumerate(kind[1])])
        if kind[0] == "seq":
            return ("seq", kind[1], lambda i: VTuple([VInt(st + i), kind[2](i)]))
        raise Unsupported("enumerate over map")
    if isinstance(it, VRange) and isinstance(it.step, V):
        # range(lo, hi, s) with a symbolic step s > 0: element i is lo + i*s.  To stay linear, i*s is the
        # uninterpreted range_mul(i, s) constrained by true facts of multiplication by a positive number only:
        # range_mul(0,s) = 0, monotone in i, the successor equation at the indices the loop touches, and the
        # defining inequalities of the length n:  lo + (n-1)*s < hi <= lo + n*s  (n = 0 iff hi <= lo).
        p = I.path
        lo, hi = to_int(it.lo), to_int(it.hi)
        s = p.fresh("range_step", z3.IntSort())     # a constant, so that range_mul(i, s) can be used in triggers
        p.assume(s == to_int(it.step))
        mul = z3.Function("range_mul", z3.IntSort(), z3.IntSort(), z3.IntSort())
        n = p.fresh("range_n", z3.IntSort())
        a, b = z3.Ints("rm_a rm_b")
        p.assume(z3.And(mul(0, s) == 0, mul(1, s) == s))
        p.assume(z3.ForAll([a, b], z3.Implies(z3.And(0 <= a, a <= b), mul(a, s) <= mul(b, s)),
                           patterns=[z3.MultiPattern(mul(a, s), mul(b, s))]))
        p.assume(n >= 0)
        p.assume((n == 0) == (hi <= lo))
        p.assume(z3.Implies(n > 0, z3.And(mul(n, s) == mul(n - 1, s) + s, lo + mul(n - 1, s) < hi, hi <= lo + mul(n, s))))
        I.ver.note_assumption("range(lo, hi, s) with symbolic s>0: i*s is the uninterpreted range_mul(i,s) with "
                              "range_mul(0,s)=0, monotonicity, successor equations at touched indices, and the "
                              "defining inequalities of the range length")

        def item(i):
            p.assume(z3.Implies(i >= 0, mul(i + 1, s) == mul(i, s) + s))
            return VInt(lo + mul(i, s))
        j = z3.Int("rg_j")
        item.seqv = VSeq(z3.Lambda([j], lo + mul(j, s)), n, TInt, "list")
        return ("seq", n, item)
    if isinstance(it, VRange):
        lo, hi = to_int(it.lo), to_int(it.hi)
        clo, chi = const_of(VInt(lo)), const_of(VInt(hi))
        if isinstance(clo, int) and isinstance(chi, int) and len(range(clo, chi, it.step)) <= 8:
            return ("concrete", [VInt(x) for x in range(clo, chi, it.step)])
        if it.step == 1:
            return ("seq", z3.If(hi > lo, hi - lo, 0), lambda i: VInt(lo + i))
        if it.step == -1:
            return ("seq", z3.If(lo > hi, lo - hi, 0), lambda i: VInt(lo - i))
        raise Unsupported("range step")
    if isinstance(it, VMap):
        if it.order is not None:
            snap = VSeq(it.order.arr, it.order.n, it.kt, "list")
            return ("seq", snap.n, lambda i: snap.get(i))
        return ("map", it, "keys")
    if isinstance(it, VMapView):
        m = it.m
        if m.order is not None:
            snap = VSeq(m.order.arr, m.order.n, m.kt, "list")
            if it.kind == "keys":
                return ("seq", snap.n, lambda i: snap.get(i))
            if it.kind == "values":
                return ("seq", snap.n, lambda i: m.get(z3.Select(snap.arr, i)))
            return ("seq", snap.n, lambda i: VTuple([snap.get(i), m.get(z3.Select(snap.arr, i))]))
        return ("map", m, it.kind)
    if isinstance(it, VSet):
        return ("set", it, "keys")
    if isinstance(it, VStr):
        return ("seq", z3.Length(it.e), lambda i: VStr(z3.SubString(it.e, i, 1)))
    raise Unsupported("iteration over %s" % type(it).__name__)


def exec_for(I, s, env):
    it = I.force(I.ev(s.iter, env))
    if isinstance(it, VNone):
        I.raise_exc("TypeError", "'NoneType' object is not iterable")
    if isinstance(it, (VInt, VReal, VBool)):
        I.raise_exc("TypeError", "object is not iterable")
    proto = _iter_protocol(I, it)
    if proto[0] == "concrete":
        broke = False
        for x in proto[1]:
            I.assign(s.target, x, env)
            try:
                I.exec_block(s.body, env)
            except ContinueSig:
                continue
            except BreakSig:
                broke = True
                break
        if not broke:
            I.exec_block(s.orelse, env)
        return
    spec = I.ver.loop_spec_for(I, s)
    if proto[0] == "seq":
        n, item = proto[1], proto[2]
        if spec is None:
            return _unroll_for(I, s, env, n, item)
        seqv = VSeq(it.arr, it.n, it.et, "list") if isinstance(it, VSeq) else getattr(item, "seqv", None)
        return _for_seq_inv(I, s, env, spec, n, item, seqv)
    # iteration over an unordered finite set / map domain
    m = proto[1]
    kind = proto[2]
    if spec is None:
        raise Unsupported("loop over a map/set without invariant (line %d)" % s.lineno)
    return _for_map_inv(I, s, env, spec, m, kind)


def _unroll_for(I, s, env, n, item):
    K = I.ver.unroll_bound
    I.ver.note_bounded(s, K)
    for j in range(K + 1):
        if not I.path.branch(z3.IntVal(j) < n):
            I.exec_block(s.orelse, env)
            return
        if j == K:
            I.ver.bound_reached(s)
            raise PathEnd("unroll bound")
        I.assign(s.target, item(z3.IntVal(j)), env)
        try:
            I.exec_block(s.body, env)
        except ContinueSig:
            continue
        except BreakSig:
            return


def _for_seq_inv(I, s, env, spec, n, item, seqv=None):
    name = spec["name"]
    iname = spec.get("index", "_i")
    snap = I.snapshot_env(env)
    I.loop_snap.append(snap)
    try:
        if seqv is not None:
            env.set(spec.get("iter", "_iter"), seqv)
        env.set(iname, VInt(0))
        I.check_invariants(spec, env, name + "/inv-entry")
        I.havoc_loop_targets(s, env, spec)
        i = I.path.fresh("i_" + name.split("/")[-1].replace("#", "_"), z3.IntSort())
        I.path.assume(z3.And(0 <= i, i <= n))
        env.set(iname, VInt(i))
        I.assume_invariants(spec, env)
        if I.path.branch(i < n):
            I.assign(s.target, item(i), env)
            try:
                I.exec_block(s.body, env)
            except ContinueSig:
                pass
            except BreakSig:
                return
            env.set(iname, VInt(i + 1))
            if seqv is not None:
                env.set(spec.get("iter", "_iter"), seqv)     # an inner for-loop rebinds the shared ghost name
            I.check_invariants(spec, env, name + "/inv-preserved")
            raise PathEnd("loop body end")
        I.exec_block(s.orelse, env)
    finally:
        I.loop_snap.pop()


def _for_map_inv(I, s, env, spec, m, kind):
    name = spec["name"]
    dname = spec.get("done", "_done")
    p = I.path
    kt = m.kt
    dom0, card0 = m.dom, m.card
    val0 = getattr(m, "val", None)
    snap = I.snapshot_env(env)
    I.loop_snap.append(snap)
    try:
        env.set(dname, VSet(z3.K(kt.sort(), z3.BoolVal(False)), z3.IntVal(0), kt))
        I.check_invariants(spec, env, name + "/inv-entry")
        I.havoc_loop_targets(s, env, spec)
        done = I.fresh_value(TSet(kt), "done")
        k = z3.Const("dn_k", kt.sort())
        p.assume(z3.ForAll([k], z3.Implies(z3.Select(done.dom, k), z3.Select(dom0, k))))
        p.assume(done.card <= card0)
        p.assume((done.card == card0) == z3.ForAll([k], z3.Implies(z3.Select(dom0, k), z3.Select(done.dom, k))))
        env.set(dname, done)
        I.assume_invariants(spec, env)
        if p.branch(done.card < card0):
            kk = p.fresh("it_k", kt.sort())
            p.assume(z3.And(z3.Select(dom0, kk), z3.Not(z3.Select(done.dom, kk))))
            if kind == "keys":
                x = kt.wrap(kk)
            elif kind == "values":
                x = m.get(kk)       # the value as it is now (origin kept: mutations are written back)
            else:
                x = VTuple([kt.wrap(kk), m.get(kk)])
            I.assign(s.target, x, env)
            try:
                I.exec_block(s.body, env)
            except ContinueSig:
                pass
            except BreakSig:
                return
            env.set(dname, VSet(z3.Store(done.dom, kk, z3.BoolVal(True)), done.card + 1, kt))
            I.check_invariants(spec, env, name + "/inv-preserved")
            raise PathEnd("loop body end")
        I.exec_block(s.orelse, env)
    finally:
        I.loop_snap.pop()
