"""Syntactic modifies-set of a loop body (which locals are rebound, which heap paths are mutated).

Used to havoc exactly what an iteration may change before assuming the loop invariant.
Calls into repository functions that are interpreted inline are followed (their mutations of
parameters are mapped back to the argument expressions); calls under contract use the
contract's `modifies`.
"""
from __future__ import annotations
import ast

from .values import *  # noqa
from .core import *  # noqa

MUTATORS = {"append", "appendleft", "pop", "popleft", "add", "update", "clear", "remove", "setdefault",
            "extend", "insert", "discard", "move_to_end", "popitem", "sort", "reverse", "put", "set"}


def _target_names(t, out):
    if isinstance(t, ast.Name):
        out.add(t.id)
    elif isinstance(t, (ast.Tuple, ast.List)):
        for e in t.elts:
            _target_names(e, out)
    elif isinstance(t, ast.Starred):
        _target_names(t.value, out)


def _base_path(n):
    """container expression that a store through `n` mutates (ast expr) or None"""
    if isinstance(n, ast.Subscript):
        return n.value
    if isinstance(n, ast.Attribute):
        return n
    return None


def body_mods(stmts):
    """-> (assigned local names, mutated container/field expressions (ast), calls (ast.Call))"""
    names, paths, calls = set(), [], []

    class W(ast.NodeVisitor):
        def visit_FunctionDef(self, n):
            names.add(n.name)

        def visit_Lambda(self, n):
            pass

        def visit_ClassDef(self, n):
            names.add(n.name)

        def visit_Assign(self, n):
            for t in n.targets:
                self._store(t)
            self.visit(n.value)

        def visit_AnnAssign(self, n):
            if n.value is not None:
                self._store(n.target)
                self.visit(n.value)

        def visit_AugAssign(self, n):
            self._store(n.target)
            self.visit(n.value)

        def visit_NamedExpr(self, n):
            names.add(n.target.id)
            self.visit(n.value)

        def visit_For(self, n):
            _target_names(n.target, names)
            self.generic_visit(n)

        def visit_With(self, n):
            for it in n.items:
                if it.optional_vars is not None:
                    _target_names(it.optional_vars, names)
            self.generic_visit(n)

        def visit_ExceptHandler(self, n):
            if n.name:
                names.add(n.name)
            self.generic_visit(n)

        def visit_Delete(self, n):
            for t in n.targets:
                self._store(t)

        def visit_Import(self, n):
            for a in n.names:
                names.add(a.asname or a.name.split(".")[0])

        def visit_ImportFrom(self, n):
            for a in n.names:
                names.add(a.asname or a.name)

        def _store(self, t):
            if isinstance(t, (ast.Name, ast.Tuple, ast.List, ast.Starred)):
                tmp = set()
                _target_names(t, tmp)
                names.update(tmp)
                if isinstance(t, (ast.Tuple, ast.List)):
                    for e in t.elts:
                        if not isinstance(e, (ast.Name, ast.Starred)):
                            self._store(e)
            else:
                bp = _base_path(t)
                if bp is not None:
                    paths.append(bp)

        def visit_Call(self, n):
            if isinstance(n.func, ast.Attribute) and n.func.attr in MUTATORS:
                paths.append(n.func.value)
            calls.append(n)
            self.generic_visit(n)

    w = W()
    for s in stmts:
        w.visit(s)
    return names, paths, calls


def loop_modset(I, s, env):
    names, paths, calls = body_mods(list(s.body) + list(s.orelse))
    if isinstance(s, ast.For):
        _target_names(s.target, names)
    extra = []
    for c in calls:
        extra.extend(call_mods(I, c, env, 0))
    paths = paths + extra
    return names, paths + alias_sources(I, s, env, names, paths)


PURE_BUILTINS = {"float", "int", "str", "bool", "len", "abs", "min", "max", "round", "repr", "hash", "id", "sum",
                 "range", "isinstance", "hasattr", "callable", "any", "all", "ord", "chr"}


def _immutable_type(t):
    if isinstance(t, (TList, TMap, TSet, TMutRec, TObj)):
        return False
    if type(t).__name__ in ("TDictRec", "TOptObj", "TFun"):
        return False
    if isinstance(t, TOpt):
        return _immutable_type(t.inner)
    if isinstance(t, TTuple):
        return all(_immutable_type(x) for x in t.elems)
    if isinstance(t, TRec):
        return all(_immutable_type(x) for x in t.fields.values())
    return True


def _may_alias(e, I, env):
    """names whose (mutable) value the value of expression e may be, or may contain, a reference to"""
    if isinstance(e, ast.Name):
        return {e.id}
    if isinstance(e, (ast.Constant, ast.Compare, ast.JoinedStr, ast.UnaryOp, ast.Lambda)):
        return set()
    if isinstance(e, ast.BinOp):
        return set()            # arithmetic / concatenation builds a new value
    if isinstance(e, (ast.Subscript, ast.Attribute, ast.Starred)):
        return _may_alias(e.value, I, env)
    if isinstance(e, (ast.Tuple, ast.List, ast.Set)):
        out = set()
        for x in e.elts:
            out |= _may_alias(x, I, env)
        return out
    if isinstance(e, ast.Dict):
        out = set()
        for x in e.values:
            out |= _may_alias(x, I, env)
        return out
    if isinstance(e, ast.BoolOp):
        out = set()
        for x in e.values:
            out |= _may_alias(x, I, env)
        return out
    if isinstance(e, ast.IfExp):
        return _may_alias(e.body, I, env) | _may_alias(e.orelse, I, env)
    if isinstance(e, ast.NamedExpr):
        return _may_alias(e.value, I, env)
    if isinstance(e, ast.Call):
        f = e.func
        args = list(e.args) + [k.value for k in e.keywords]
        if isinstance(f, ast.Attribute):
            # method call: the receiver (x.get(k), x.setdefault(k, d), x.items()) and the arguments (defaults)
            out = _may_alias(f.value, I, env)
            for x in args:
                out |= _may_alias(x, I, env)
            return out
        if isinstance(f, ast.Name):
            if f.id in PURE_BUILTINS and env.lookup(f.id) is None:
                return set()
            try:
                v = env.lookup(f.id)
                if v is None:
                    v = I.ver.module_name(env.module, f.id, I)
                c = I.ver.contracts.get(getattr(v, "qual", None)) if v is not None else None
                if c is not None and c.returns is not None and _immutable_type(I.ver.types.parse(c.returns)):
                    return set()        # contract declares an immutable result: nothing to alias
            except Exception:
                pass
        out = set()
        for x in args:
            out |= _may_alias(x, I, env)
        return out
    # anything else: every name mentioned (conservative)
    return {n.id for n in ast.walk(e) if isinstance(n, ast.Name)}


def alias_sources(I, s, env, names, paths):
    """A store through a name that is (re)bound inside the loop (`rec = edges.get(k); rec["w"] = x`,
    `for k, rec in edges.items(): rec["w"] = x`) mutates whatever that name aliases: the names its binding
    expressions may alias are added to the havoc set (transitively)."""
    bound_from = {}

    def note(target, value):
        tn = set()
        _target_names(target, tn)
        src = _may_alias(value, I, env)
        for t in tn:
            bound_from.setdefault(t, set()).update(src)

    for st in [s] + [n for b in list(s.body) + list(s.orelse) for n in ast.walk(b)]:
        if isinstance(st, ast.Assign):
            for t in st.targets:
                note(t, st.value)
        elif isinstance(st, ast.AnnAssign) and st.value is not None:
            note(st.target, st.value)
        elif isinstance(st, ast.For):
            note(st.target, st.iter)
        elif isinstance(st, ast.NamedExpr):
            note(st.target, st.value)
    # a mutation of the container itself (kvs.sort(), out.append(x), d[k] = v) through a name that is bound only to
    # fresh containers (list(...), sorted(...), dict(...), [...], comprehension) cannot reach what the fresh container
    # was built from; only stores *through its elements* (deeper paths) can
    FRESH = {"list", "sorted", "dict", "set", "tuple", "deque", "OrderedDict"}

    def fresh_value(v):
        if isinstance(v, (ast.List, ast.Dict, ast.Set, ast.ListComp, ast.DictComp, ast.SetComp, ast.Tuple)):
            return True
        return isinstance(v, ast.Call) and isinstance(v.func, ast.Name) and v.func.id in FRESH

    fresh_only = {}
    for st in [n for b in list(s.body) + list(s.orelse) for n in ast.walk(b)]:
        if isinstance(st, ast.Assign) and len(st.targets) == 1 and isinstance(st.targets[0], ast.Name):
            nm = st.targets[0].id
            fresh_only[nm] = fresh_only.get(nm, True) and fresh_value(st.value)
        elif isinstance(st, (ast.For, ast.AnnAssign, ast.NamedExpr, ast.AugAssign)):
            tn = set()
            _target_names(getattr(st, "target", None) if not isinstance(st, ast.NamedExpr) else st.target, tn) if getattr(st, "target", None) is not None else None
            for nm in tn:
                if not (isinstance(st, ast.AnnAssign) and st.value is not None and fresh_value(st.value)):
                    fresh_only[nm] = False

    def propagates(p):
        r = _root(p)
        if isinstance(p, ast.Name) and fresh_only.get(r, False):
            return False
        if isinstance(p, ast.Subscript) and isinstance(p.value, ast.Name) and fresh_only.get(r, False):
            return False
        return True

    todo = [r for r in (_root(p) for p in paths if not isinstance(p, str) and propagates(p)) if r in names]
    seen = set()
    out = []
    while todo:
        r = todo.pop()
        if r in seen:
            continue
        seen.add(r)
        for src in sorted(bound_from.get(r, ())):
            if src in names:
                todo.append(src)
            if src not in seen:
                nm = ast.Name(id=src, ctx=ast.Load())
                nm._alias_src = True
                out.append(nm)
    return out


def call_mods(I, call, env, depth):
    """heap paths (ast exprs in the caller's scope) possibly mutated by a call"""
    if depth > 3:
        return []
    out = []
    f = call.func
    target = None
    selfexpr = None
    try:
        if isinstance(f, ast.Attribute):
            # method call on an object whose class lives in the repo
            saved = I.spec
            I.spec = True
            try:
                base = I.ev(f.value, env)
            except Exception:
                base = None
            finally:
                I.spec = saved
            if isinstance(base, VObj):
                ci = I.class_of(base)
                if ci is not None:
                    r = ci.find_method(f.attr)
                    if r is not None:
                        target = (r[0], "%s:%s.%s" % (r[1].module.relpath, r[1].name, f.attr))
                        selfexpr = f.value
        elif isinstance(f, ast.Name):
            v = env.lookup(f.id)
            if v is None:
                v = I.ver.module_name(env.module, f.id, I)
            if isinstance(v, VFunc) and v.kind == "ast" and v.node is not None:
                target = (v.node, getattr(v, "qual", None))
    except Exception:
        target = None
    if target is None:
        return out
    node, qual = target
    c = I.ver.contracts.get(qual) if qual else None
    params = [p.arg for p in node.args.posonlyargs + node.args.args]
    argmap = {}
    actuals = list(call.args)
    if selfexpr is not None:
        actuals = [selfexpr] + actuals
    for p, a in zip(params, actuals):
        argmap[p] = a
    for kw in call.keywords:
        if kw.arg:
            argmap[kw.arg] = kw.value
    if c is not None and not c.inline:
        mods = [ast.parse(m, mode="eval").body for m in c.modifies]
    else:
        _, mods, subcalls = body_mods(node.body)
        for sc in subcalls:
            # nested calls: map through the callee's own parameter names first
            for m in _sub_call_mods(I, sc, node, depth):
                mods.append(m)
    for m in mods:
        sub = _subst(m, argmap)
        if sub is not None:
            out.append(sub)
    return out


def _sub_call_mods(I, call, fnode, depth):
    # only self.method(...) inside methods is followed
    f = call.func
    if isinstance(f, ast.Attribute) and isinstance(f.value, ast.Name) and f.value.id == "self":
        owner = I.ver.class_of_method(fnode)
        if owner is not None:
            r = owner.find_method(f.attr)
            if r is not None:
                _, mods, _ = body_mods(r[0].body)
                return [m for m in mods if _root(m) == "self"]
    return []


def _root(e):
    while isinstance(e, (ast.Attribute, ast.Subscript)):
        e = e.value
    return e.id if isinstance(e, ast.Name) else None


def _subst(e, argmap):
    """rewrite the root parameter name of path e by the caller's argument expression"""
    r = _root(e)
    if r is None or r not in argmap:
        return None

    class R(ast.NodeTransformer):
        def visit_Name(self, n):
            if n.id == r:
                return argmap[r]
            return n

    import copy
    return R().visit(copy.deepcopy(e))
