#!/bin/bash
# usage: mutrun.sh <file-rel> <sed-expr> <prop> [filter]   (dev helper; scratch copy under /tmp)
HERE=$(cd "$(dirname "$0")" && pwd)
D=$(mktemp -d /tmp/clem_mut.XXXX)
rsync -a --exclude .git --exclude logs --exclude '.logs' --exclude '.data' --exclude tests --exclude docs --exclude frontend /repo/clematis /repo/configs $D/
sed -i "$2" $D/$1
diff <(cat /repo/$1) $D/$1 | head -6
cd "$HERE" && VERIF_REPO=$D ./check $3 --filter "$4" --no-evidence 2>&1 | grep -v "^\[" | tail -${TAILN:-8}
echo "exit=$?"
rm -rf $D
