#!/bin/bash
# usage: mutrun.sh <file-rel> <sed-expr> <contract-mod> [filter]   (dev helper; scratch copy under /tmp)
set -e
D=$(mktemp -d /tmp/clem_mut.XXXX)
rsync -a --exclude .git --exclude logs --exclude '.logs' --exclude '.data' --exclude tests --exclude docs --exclude frontend /repo/clematis /repo/configs $D/
sed -i "$2" $D/$1
diff <(cat /repo/$1) $D/$1 | head -5 || true
cd /verif && VERIF_REPO=$D python3-vt dev.py $3 $4 2>&1 | grep -v "OK " | tail -${TAILN:-12}
rm -rf $D
