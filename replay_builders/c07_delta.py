"""Native replay of C07 counter-models: rebuild the JSON objects of the witness and run the real codec."""
import copy


def _tree(x):
    """{'$jobj': [[key, value], ...]} -> dict; atoms stay as they are"""
    if isinstance(x, dict) and "$jobj" in x:
        return {k: _tree(v) for k, v in x["$jobj"]}
    return x


def roundtrip(inputs, doc):
    from clematis.engine.util.snapshot_delta import compute_delta, apply_delta
    base, curr = _tree(inputs["base"]), _tree(inputs["curr"])
    b0, c0 = copy.deepcopy(base), copy.deepcopy(curr)
    delta = compute_delta(base, curr)
    rebuilt = apply_delta(base, delta)
    clause = doc.get("obligation", "")
    if clause.endswith("inputs-untouched"):
        ok = base == b0 and curr == c0
    elif clause.endswith("delta-empty-iff-equal"):
        empty = not delta["_adds"] and not delta["_mods"] and not delta["_dels"]
        ok = empty == (b0 == c0)
    elif clause.endswith("delta-has-three-sections"):
        ok = sorted(delta) == ["_adds", "_dels", "_mods"]
    else:
        ok = rebuilt == c0
    return ok, "base=%r curr=%r delta=%r rebuilt=%r" % (b0, c0, delta, rebuilt)
