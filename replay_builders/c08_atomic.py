"""Native replays of the C08 counter-models: the real clematis.io.atomic functions run in a scratch directory with the
fault that the counter-model's path takes injected by mock (the abstract paths of the model are mapped to scratch files;
contents / retries / data come from the counter-model).  Each scenario evaluates the refuted clause on the real result.
-> (ok, detail); ok == True means the real code satisfied the clause."""
import builtins
import os
import tempfile
from pathlib import Path
from unittest import mock


def _scratch():
    return Path(tempfile.mkdtemp(prefix="c08_replay_"))


def _data(inputs):
    d = inputs.get("data")
    return (d if isinstance(d, str) and d else "NEWDATA").encode("latin-1", "replace")


def _listing(d):
    return sorted(p.name for p in d.iterdir())


class _BadClose:
    """a NamedTemporaryFile whose close() (via __exit__) reports EIO after releasing the descriptor"""

    def __init__(self, tf):
        self.tf, self.name = tf, tf.name

    def __enter__(self):
        return self

    def __exit__(self, *a):
        self.tf.__exit__(*a)
        raise OSError(5, "EIO reported by close()")


def _ntf_close_fails(A, inputs, fn):
    d = _scratch()
    final = d / "final.json"
    final.write_bytes(b"OLD")
    real = tempfile.NamedTemporaryFile
    exc = None
    with mock.patch.object(tempfile, "NamedTemporaryFile", lambda *a, **k: _BadClose(real(*a, **k))):
        try:
            fn(final)
        except OSError as e:
            exc = e
    left = [n for n in _listing(d) if n != "final.json"]
    return (not (exc is not None and left)), "fault: close() of the NamedTemporaryFile handle raises EIO; raised=%r final=%r left-behind=%r" % (
        exc, final.read_bytes(), left)


def replay(inputs, doc):
    from clematis.io import atomic as A
    ob = doc.get("obligation", "")
    if ob.startswith("_make_tmp/"):
        return _ntf_close_fails(A, inputs, lambda final: A._make_tmp(final))
    if ob == "atomic_write_bytes/post-exc:temp-left-only-if-cleanup-io-failed":
        return _ntf_close_fails(A, inputs, lambda final: A.atomic_write_bytes(final, _data(inputs)))
    if ob == "atomic_replace/post:normal-exit-means-installed":
        d = _scratch()
        final, tmp = d / "final.json", d / "final.json.tmp00001"
        final.write_bytes(b"OLD")
        tmp.write_bytes(b"NEW")
        retries = inputs.get("retries", 0)
        r = A.atomic_replace(tmp, final, retries=retries, backoff_ms=0)
        ok = final.read_bytes() == b"NEW"
        return ok, "atomic_replace(tmp, final, retries=%r) returned %r normally; final=%r (expected b'NEW'), tmp exists=%r" % (
            retries, r, final.read_bytes(), tmp.exists())
    if ob == "atomic_replace/post-exc:temp-removed-on-every-failure":
        d = _scratch()
        blocker = d / "notadir"
        blocker.write_bytes(b"x")
        tmp = d / "payload.tmp"
        tmp.write_bytes(b"NEW")
        exc = None
        try:
            A.atomic_replace(tmp, blocker / "sub" / "final.json", retries=inputs.get("retries", 80), backoff_ms=0)
        except OSError as e:
            exc = e
        return (not (exc is not None and tmp.exists())), "fault: final_path.parent.mkdir() fails; raised=%r, temp still exists=%r" % (exc, tmp.exists())
    if ob.startswith("atomic_write_bytes[KeyboardInterrupt]/"):
        d = _scratch()
        final = d / "final.json"
        final.write_bytes(b"OLD")
        exc = None
        with mock.patch.object(os, "fsync", side_effect=KeyboardInterrupt):
            try:
                A.atomic_write_bytes(final, _data(inputs))
            except BaseException as e:
                exc = e
        left = [n for n in _listing(d) if n != "final.json"]
        return (not left), "fault: KeyboardInterrupt delivered in os.fsync; raised=%r final=%r left-behind=%r" % (exc, final.read_bytes(), left)
    if ob.startswith("atomic_write_bytes") and "temp-holds-complete-data" in ob:
        short_fault = "[short-write]" in ob
        d = _scratch()
        final = d / "final.json"
        final.write_bytes(b"OLD")
        data = _data(inputs)
        if len(data) < 2:
            data = b"NEWDATA"
        real_open = builtins.open

        class Short:
            def __init__(self, f):
                self.f = f

            def write(self, b):
                return self.f.write(b[:max(1, len(b) // 2)])      # raw write(2) transferring fewer bytes

            def __getattr__(self, n):
                return getattr(self.f, n)

            def __enter__(self):
                return self

            def __exit__(self, *a):
                return self.f.__exit__(*a)

        def fake_open(p, mode="r", buffering=-1, *a, **k):
            fo = real_open(p, mode, buffering, *a, **k)
            # only a *raw* handle (buffering=0) can be short; a BufferedWriter retries until everything is written
            return Short(fo) if (short_fault and mode == "wb" and buffering == 0) else fo
        seen = {}
        real_replace = A.atomic_replace

        def spy(tmp, fin, **k):
            seen["tmp"] = Path(tmp).read_bytes()
            return real_replace(tmp, fin, **k)
        with mock.patch.object(builtins, "open", fake_open), mock.patch.object(A, "atomic_replace", spy):
            A.atomic_write_bytes(final, data)
        ok = seen.get("tmp") == data
        return ok, ("fault: raw write() is short (raw handles only); " if short_fault else "no fault; ") + "temp before install=%r, data=%r, final afterwards=%r" % (seen.get("tmp"), data, final.read_bytes())
    # generic scenarios (these clauses hold on the unchanged tree; they let a seeded mutant be confirmed natively)
    if ob.startswith("atomic_write_bytes") and "/post-exc:temp-left" in ob:
        d = _scratch()
        final = d / "final.json"
        final.write_bytes(b"OLD")
        exc = None
        with mock.patch.object(os, "fsync", side_effect=OSError(5, "EIO")):
            try:
                A.atomic_write_bytes(final if "final_path:str" not in ob else str(final), _data(inputs))
            except OSError as e:
                exc = e
        left = [n for n in _listing(d) if n != "final.json"]
        return (not left), "fault: os.fsync raises EIO; raised=%r final=%r left-behind=%r" % (exc, final.read_bytes(), left)
    if ob == "atomic_replace/post:installed-when-retries-positive":
        d = _scratch()
        final, tmp = d / "final.json", d / "final.json.tmp00001"
        final.write_bytes(b"OLD")
        tmp.write_bytes(b"NEW")
        returned = False
        with mock.patch.object(os, "replace", side_effect=PermissionError(13, "sharing violation")), \
                mock.patch.object(A.time, "sleep", lambda s: None):
            try:
                A.atomic_replace(tmp, final, retries=min(max(1, int(inputs.get("retries", 3))), 5), backoff_ms=0)
                returned = True
            except OSError:
                pass
        ok = (not returned) or final.read_bytes() == b"NEW"
        return ok, "fault: os.replace always raises PermissionError; returned normally=%r final=%r" % (returned, final.read_bytes())
    return True, "no scenario for %s" % ob
