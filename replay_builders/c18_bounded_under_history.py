"""native reproduction of the C18 finding: run with /venv/bin/python, PYTHONPATH=/repo"""
from types import SimpleNamespace
from configs.validate import validate_config
from clematis.engine import gel

cfg = validate_config({"graph": {"enabled": True, "update": {"clamp_min": 0.5, "clamp_max": 0.9, "alpha": 0.02},
                                 "decay": {"half_life_turns": 200, "floor": 0.0}}})
g = cfg["graph"]
print("validator accepted:", g["update"], g["decay"])
ctx = SimpleNamespace(config=cfg)
state = SimpleNamespace()
print(gel.observe_retrieval(ctx, state, [("a", 0.9), ("b", 0.8)], turn=1))
w0 = state.graph["edges"]["a→b"]["weight"]
print("after observe  w =", w0, " in [clamp_min, clamp_max]:", g["update"]["clamp_min"] <= w0 <= g["update"]["clamp_max"])
print(gel.tick(ctx, state, decay_dt=1, turn=2))
w1 = state.graph["edges"]["a→b"]["weight"]
print("after one tick w =", w1, " in [clamp_min, clamp_max]:", g["update"]["clamp_min"] <= w1 <= g["update"]["clamp_max"])
assert not (g["update"]["clamp_min"] <= w1), "finding not reproduced"
print("REPRODUCED: weight below clamp_min after tick")
