"""Native replay of C06 counter-models."""
import os
import re
import tempfile


def pick_listing(inputs, doc):
    """_pick_latest_snapshot_path on a real directory holding exactly the files of the (concrete) ghost listing.
    For a `no-exception` obligation: ok == the call returned without raising.
    For a clause `result == path_join(directory, '<name>')`: ok == that file was picked."""
    from clematis.engine.snapshot import _pick_latest_snapshot_path
    listing = inputs.get("fs_listing")
    if isinstance(listing, dict):
        listing = listing.get("$tuple") or listing.get("$seq") or []
    names = [x for x in listing if isinstance(x, str)]
    m = re.search(r"path_join\(directory, '([^']*)'\)", doc.get("clause") or "")
    with tempfile.TemporaryDirectory() as d:
        for n in names:
            with open(os.path.join(d, n), "w") as f:
                f.write("{}")
        try:
            r = _pick_latest_snapshot_path(d)
        except Exception as ex:
            return False, "listing=%r -> raised %s: %s" % (names, type(ex).__name__, ex)
        if m and "no-exception" not in (doc.get("obligation") or ""):
            return r == os.path.join(d, m.group(1)), "listing=%r -> picked %r, expected %r" % (names, r and os.path.basename(r), m.group(1))
        return True, "listing=%r -> %r" % (names, r)


def rekey_order_search(inputs, doc):
    """edge re-keying regions (write_snapshot / load_latest_snapshot): search small graphs for one whose snapshot body
    changes under write -> load -> write (the byte fixpoint of C06).  ok == no such graph found."""
    import itertools
    import json
    from types import SimpleNamespace as NS
    from clematis.engine import snapshot as S
    ids = ["m", "z", "a", "b", "k", "ω"]
    pairs = [("m", "z"), ("a", "b"), ("ω", "k"), ("b", "m")]
    tried = 0
    for n in (2, 3):
        for combo in itertools.permutations(pairs, n):
            with tempfile.TemporaryDirectory() as d:
                cfg = {"t4": {"snapshot_dir": d, "weight_min": -1.0, "weight_max": 1.0},
                       "graph": {"weight_min": -1.0, "weight_max": 1.0, "decay": {"epsilon_prune": 0.0}}}
                ctx = NS(cfg=cfg, config=cfg, agent_id="A")
                edges = {}
                for i, (s, t) in enumerate(combo):
                    edges["%s__%s__coact" % (min(s, t), max(s, t))] = {
                        "src": s, "dst": t, "rel": "coact", "weight": 0.25 * (i + 1), "updated_at": "t", "attrs": {}}
                st = {"version_etag": "7", "store": None,
                      "graph": {"nodes": {x: {"id": x} for x in ids}, "edges": edges, "meta": {}}}
                try:
                    p1 = S.write_snapshot(ctx, st, version_etag="7", applied=0, deltas=[])
                    b1 = open(p1, "rb").read()
                    st2 = {}
                    S.load_latest_snapshot(ctx, st2)
                    os.remove(p1)
                    p2 = S.write_snapshot(ctx, st2, version_etag=st2.get("version_etag"), applied=0, deltas=[])
                    b2 = open(p2, "rb").read()
                except Exception as ex:
                    return True, "search harness failed (%s: %s): no verdict" % (type(ex).__name__, ex)
                tried += 1
                if b1 != b2:
                    o1 = list(json.loads(b1)["gel"]["edges"])
                    o2 = list(json.loads(b2)["gel"]["edges"])
                    return False, "edges written in order %r come back as %r after load + re-write (bodies differ)" % (o1, o2)
    return True, "no differing body among %d small graphs" % tried
