"""Native replay of C06 counter-models."""
import os
import re
import tempfile


def pick_listing(inputs, doc):
    """_pick_latest_snapshot_path on a real directory holding exactly the files of the (concrete) ghost listing.
    For a `no-exception` obligation: ok == the call returned without raising.
    For a clause `result == path_join(directory, '<name>')`: ok == that file was picked."""
    from clematis.engine.snapshot import _pick_latest_snapshot_path
    listing = inputs.get("fs_listing")
    if isinstance(listing, dict):
        listing = listing.get("$tuple") or listing.get("$seq") or []
    names = [x for x in listing if isinstance(x, str)]
    m = re.search(r"path_join\(directory, '([^']*)'\)", doc.get("clause") or "")
    with tempfile.TemporaryDirectory() as d:
        for n in names:
            with open(os.path.join(d, n), "w") as f:
                f.write("{}")
        try:
            r = _pick_latest_snapshot_path(d)
        except Exception as ex:
            return False, "listing=%r -> raised %s: %s" % (names, type(ex).__name__, ex)
        if m and "no-exception" not in (doc.get("obligation") or ""):
            return r == os.path.join(d, m.group(1)), "listing=%r -> picked %r, expected %r" % (names, r and os.path.basename(r), m.group(1))
        return True, "listing=%r -> %r" % (names, r)
