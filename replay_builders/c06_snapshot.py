"""Native replay of C06 counter-models."""
import os
import tempfile


def pick_listing(inputs, doc):
    """_pick_latest_snapshot_path on a real directory holding exactly the files of the (concrete) ghost listing.
    ok == the call returned without raising."""
    from clematis.engine.snapshot import _pick_latest_snapshot_path
    listing = inputs.get("fs_listing")
    if isinstance(listing, dict):
        listing = listing.get("$tuple") or listing.get("$seq") or []
    names = [x for x in listing if isinstance(x, str)]
    with tempfile.TemporaryDirectory() as d:
        for n in names:
            with open(os.path.join(d, n), "w") as f:
                f.write("{}")
        try:
            r = _pick_latest_snapshot_path(d)
        except Exception as ex:
            return False, "listing=%r -> raised %s: %s" % (names, type(ex).__name__, ex)
        return True, "listing=%r -> %r" % (names, r)
