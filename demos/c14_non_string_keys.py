"""the validator must answer with ConfigError (never TypeError) for mappings with non-string keys"""
import sys
sys.path.insert(0, "/repo")
from configs.validate import validate_config, validate_config_api
from clematis.errors import ConfigError
bad = 0
for cfg in [{1: 2}, {"t1": {1: 2}}, {None: 1}, {"t2": {"quality": {3: 4}}}, {"perf": {2.5: True}}]:
    try:
        validate_config(cfg); print("accepted", cfg); bad += 1
    except ConfigError as e:
        pass
    except Exception as e:
        print("WRONG EXCEPTION", type(e).__name__, e, "for", cfg); bad += 1
    ok, errs, _ = (None, None, None)
    try:
        ok, errs, _ = validate_config_api(cfg)
    except Exception as e:
        print("api raised", type(e).__name__); bad += 1
print("ok" if not bad else "FAILED")
sys.exit(1 if bad else 0)
