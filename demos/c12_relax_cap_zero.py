"""C12: t1.relax_cap = 0 still performs one relaxation (the cap is only tested after a relaxation).
usage: /venv/bin/python demos/c12_relax_cap_zero.py [repo]    exit 1 when propagations exceed the cap"""
import sys
repo = sys.argv[1] if len(sys.argv) > 1 else "/repo"
sys.path.insert(0, repo)
from clematis.engine.types import Config, Node, Edge
from clematis.graph.store import InMemoryGraphStore
from clematis.engine.stages.t1 import t1_propagate

bad = 0
for cap in (0, 1, 2):
    cfg = Config()
    cfg.t1["relax_cap"] = cap
    cfg.t1["cache"] = {"max_entries": 0, "ttl_s": 0}
    st = InMemoryGraphStore()
    st.upsert_nodes("g", [Node(id="n:a", label="aa"), Node(id="n:b", label="b"), Node(id="n:c", label="c"), Node(id="n:d", label="d")])
    st.upsert_edges("g", [Edge(id="e1", src="n:a", dst="n:b", weight=1.0, rel="supports"),
                          Edge(id="e2", src="n:a", dst="n:c", weight=1.0, rel="supports"),
                          Edge(id="e3", src="n:b", dst="n:d", weight=1.0, rel="supports")])
    ctx = type("Ctx", (), {"cfg": cfg, "turn_id": "t", "agent_id": "A"})()
    r = t1_propagate(ctx, {"store": st, "active_graphs": ["g"]}, "aa")
    p = r.metrics.get("propagations")
    print("relax_cap=%d -> propagations=%s touched=%s" % (cap, p, sorted(d["id"] for d in r.graph_deltas)))
    if p > cap:
        bad += 1
print("RELAXATION BUDGET EXCEEDED" if bad else "OK")
sys.exit(1 if bad else 0)
