"""C13: a Speak op with max_tokens == 0 is treated as "no budget given": the utterance exceeds its token budget.
usage: /venv/bin/python demos/c13_speak_budget_zero.py [repo]    exit 1 when the utterance has more tokens than the budget"""
import sys
repo = sys.argv[1] if len(sys.argv) > 1 else "/repo"
sys.path.insert(0, repo)
from clematis.engine.types import Plan, SpeakOp
from clematis.engine.stages.t3.dialogue import speak

bundle = {"agent": {"caps": {"tokens": 256}, "style_prefix": ""}, "dialogue": {}, "text": {}}
bad = 0
for budget in (0, 3):
    plan = Plan(version="t3-plan-v1", reflection=False, ops=[SpeakOp(kind="Speak", intent="ack", topic_labels=["a", "b"], max_tokens=budget)], request_retrieve=None) \
        if "request_retrieve" in Plan.__dataclass_fields__ else Plan(version="t3-plan-v1", reflection=False, ops=[SpeakOp(kind="Speak", intent="ack", topic_labels=["a", "b"], max_tokens=budget)])
    utter, metrics = speak(bundle, plan)
    n = len(utter.split())
    print("budget=%d -> %r (%d tokens, truncated=%s)" % (budget, utter, n, metrics.get("truncated")))
    if n > max(budget, 0):
        bad += 1
print("UTTERANCE EXCEEDS ITS TOKEN BUDGET" if bad else "OK")
sys.exit(1 if bad else 0)
