import sys
sys.path.insert(0, "/repo")
from types import SimpleNamespace
import numpy as np
from clematis.engine.stages.t2 import core as t2core
from clematis.memory.index import InMemoryIndex
idx = InMemoryIndex()
from clematis.adapters.embeddings import DeterministicEmbeddingAdapter
enc = DeterministicEmbeddingAdapter(dim=32)
for owner, txt, i in [("A", "apple pie recipe", 1), ("B", "apple pie secret of B", 2)]:
    idx.add({"id": "e%d" % i, "owner": owner, "text": txt, "vec_full": enc.encode([txt])[0], "ts": "2026-01-01T00:00:00Z", "importance": 0.5})
cfg = {"t2": {"owner_scope": "agent", "sim_threshold": -1.0, "k_retrieval": 5, "exact_recent_days": 100000,
              "cache": {"enabled": True, "max_entries": 16, "ttl_s": 600}, "backend": "inmemory"},
       "perf": {"enabled": False}}
state = {"mem_index": idx, "memory_index": idx}
def run(agent):
    ctx = SimpleNamespace(cfg=cfg, config=SimpleNamespace(**cfg), agent_id=agent, now="2026-01-02T00:00:00Z", enc=enc)
    r = t2core.t2_semantic(ctx, state, "apple pie", SimpleNamespace(graph_deltas=[], metrics={}))
    return [(e.id, e.owner) for e in r.retrieved]
a = run("A"); b = run("B")
print("A:", a); print("B:", b)
print("LEAK" if any(o != "B" for _, o in b) else "OK")
