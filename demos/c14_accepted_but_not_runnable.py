"""C14 known findings: allowed keys the normaliser never looks at are accepted with any value; the stage that reads
them then raises.  usage: /venv/bin/python demos/c14_accepted_but_not_runnable.py [repo]   exit 1 if any case reproduces"""
import sys
repo = sys.argv[1] if len(sys.argv) > 1 else "/repo"
sys.path.insert(0, repo)
from types import SimpleNamespace as NS
from configs.validate import validate_config
from clematis.engine.types import Config, Node, Edge
from clematis.graph.store import InMemoryGraphStore

bad = 0


def t1_case(user):
    from clematis.engine.stages.t1 import t1_propagate
    cfgd = validate_config(user)          # accepted
    cfg = Config()
    for k, v in cfgd.get("t1", {}).items():
        cfg.t1[k] = v
    st = InMemoryGraphStore()
    st.upsert_nodes("g", [Node(id="n:a", label="hello"), Node(id="n:b", label="b")])
    st.upsert_edges("g", [Edge(id="e", src="n:a", dst="n:b", weight=1.0, rel="supports")])
    ctx = type("Ctx", (), {"cfg": cfg, "turn_id": "t", "agent_id": "A"})()
    t1_propagate(ctx, {"store": st, "active_graphs": ["g"]}, "hello")


def t2_case(user):
    from clematis.engine.stages.t2 import core as t2core
    from clematis.memory.index import InMemoryIndex
    from clematis.adapters.embeddings import DeterministicEmbeddingAdapter
    cfgd = validate_config(user)          # accepted
    enc = DeterministicEmbeddingAdapter(dim=32)
    idx = InMemoryIndex()
    idx.add({"id": "e1", "owner": "A", "text": "apple", "vec_full": enc.encode(["apple"])[0], "ts": "2026-01-01T00:00:00Z", "importance": 0.5})
    cfg = {"t2": dict(cfgd["t2"], backend="inmemory"), "perf": {"enabled": False}}
    ctx = NS(cfg=cfg, config=NS(**cfg), agent_id="A", now="2026-01-02T00:00:00Z", enc=enc)
    t2core.t2_semantic(ctx, {"mem_index": idx, "memory_index": idx}, "apple", NS(graph_deltas=[], metrics={}))


for name, fn, user in [("t1.radius_cap='x'", t1_case, {"t1": {"radius_cap": "x"}}),
                       ("t2.exact_recent_days='x'", t2_case, {"t2": {"exact_recent_days": "x"}}),
                       ("t2.residual_cap_per_turn='x'", t2_case, {"t2": {"residual_cap_per_turn": "x"}}),
                       ("t2.tiers=5", t2_case, {"t2": {"tiers": 5}})]:
    try:
        fn(user)
        print("%-32s accepted, stage ran" % name)
    except Exception as ex:
        if type(ex).__name__ == "ConfigError":
            print("%-32s rejected by the validator (%s)" % (name, ex))
        else:
            bad += 1
            print("%-32s ACCEPTED by validate_config, then the stage raised %s: %s" % (name, type(ex).__name__, str(ex)[:80]))
sys.exit(1 if bad else 0)
