"""C19: reflect._truncate_tokens splits on " " only: a text whose words are separated by tabs / newlines (LLM backend)
keeps more whitespace tokens than the limit, while reflect() itself reports summary_len = len(summary.split()).
usage: /venv/bin/python demos/c19_truncate_tokens_whitespace.py [repo]    exit 1 when a summary exceeds its token limit"""
import sys
repo = sys.argv[1] if len(sys.argv) > 1 else "/repo"
sys.path.insert(0, repo)
from clematis.engine.stages.t3.reflect import _truncate_tokens

bad = 0
for text, limit in (("w1\nw2\nw3\tw4", 2), ("a b c d", 2), ("a\tb c", 1)):
    out = _truncate_tokens(text, limit)
    n = len(out.split())
    print("%r limit=%d -> %r (%d whitespace tokens)" % (text, limit, out, n))
    if n > limit:
        bad += 1
print("SUMMARY EXCEEDS ITS TOKEN LIMIT" if bad else "OK")
sys.exit(1 if bad else 0)
