"""C12 known finding: t1_propagate on an active graph id that the store does not hold inserts an empty graph.
usage: /venv/bin/python demos/c12_t1_creates_unknown_graph.py [repo]   exit 1 when the store is modified"""
import sys
repo = sys.argv[1] if len(sys.argv) > 1 else "/repo"
sys.path.insert(0, repo)
from clematis.engine.types import Config                     # noqa: E402
from clematis.graph.store import InMemoryGraphStore    # noqa: E402
from clematis.engine.stages.t1 import t1_propagate     # noqa: E402

st = InMemoryGraphStore()
ctx = type("Ctx", (), {"cfg": Config(), "turn_id": "t", "agent_id": "A"})()
before = list(st._graphs)
t1_propagate(ctx, {"store": st, "active_graphs": ["ghost-graph"]}, "hello")
after = list(st._graphs)
print("graphs before:", before, "after:", after)
sys.exit(1 if before != after else 0)
