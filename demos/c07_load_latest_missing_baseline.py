"""C07: load_latest_snapshot on a delta snapshot whose baseline is missing.
usage: /venv/bin/python demos/c07_load_latest_missing_baseline.py [repo]   exit 1 when a state is 'loaded' from the bare delta"""
import json
import os
import sys
import tempfile
repo = sys.argv[1] if len(sys.argv) > 1 else "/repo"
sys.path.insert(0, repo)
from types import SimpleNamespace as NS
from clematis.engine import snapshot as S

with tempfile.TemporaryDirectory() as d:
    base = {"version_etag": "1", "store": {"weights": [{"target_kind": "node", "target_id": "n1", "attr": "weight", "value": 0.25}]},
            "gel": {"nodes": {"a": {}, "b": {}}, "edges": {"a→b": {"src": "a", "dst": "b", "rel": "coact", "weight": 0.5}}, "meta": {}}}
    cur = json.loads(json.dumps(base))
    cur["version_etag"] = "2"
    cur["gel"]["edges"]["a→b"]["weight"] = 0.75
    S.write_snapshot_auto(d, etag_from=None, etag_to="1", payload=base, delta_mode=False)
    p, wrote_delta = S.write_snapshot_auto(d, etag_from="1", etag_to="2", payload=cur, delta_mode=True)
    assert wrote_delta
    for f in os.listdir(d):                      # the baseline (and its sidecar) disappears
        if f.startswith("snapshot-1."):
            os.remove(os.path.join(d, f))
    cfg = {"t4": {"snapshot_dir": d}}
    ctx = NS(cfg=cfg, config=cfg, agent_id="A")
    state = {}
    r = S.load_latest_snapshot(ctx, state)
    print("files:", sorted(os.listdir(d)))
    print("result:", r, " state.version_etag:", state.get("version_etag"), " edges:", (state.get("graph") or {}).get("edges"))
    bad = bool(r.get("loaded")) or state.get("version_etag") is not None
    print("WRONGLY RECONSTRUCTED STATE REPORTED AS LOADED" if bad else "OK: absence reported")
    sys.exit(1 if bad else 0)
