"""a batch call that succeeded but returned an unreadable count must not trigger the per-delta replay"""
import sys
sys.path.insert(0, "/repo")
from types import SimpleNamespace
from clematis.engine.apply import apply_changes
calls = []
class Store:
    def apply_deltas(self, gid, batch):
        calls.append(list(batch)); return {"edits": None}
ctx = SimpleNamespace(turn_id=1, config=SimpleNamespace(t4={"snapshot_every_n_turns": 1000}))
state = SimpleNamespace(store=Store(), version_etag="0")
t4 = SimpleNamespace(approved_deltas=["d1", "d2"])
import clematis.engine.apply as A
A.write_snapshot = lambda *a, **k: None
apply_changes(ctx, state, t4)
print("calls:", calls)
sys.exit(0 if len(calls) == 1 else 1)
