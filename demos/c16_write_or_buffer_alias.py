"""C16: a record handed to write_or_buffer while a LogMux capture is active must appear as exactly one line holding the
record as it was when appended.  Before the fix the mux kept a reference to the caller's dict: a writer that reuses one
dict for several records got N copies of the last record at flush time (records 0..N-2 lost).
usage: python demos/c16_write_or_buffer_alias.py [repo_root]   exit 0 = property holds"""
import sys, os, json, tempfile
root = sys.argv[1] if len(sys.argv) > 1 else "/repo"
sys.path.insert(0, root)
tmp = tempfile.mkdtemp(prefix="c16demo")
os.environ["CLEMATIS_LOG_DIR"] = tmp
os.environ.pop("CI", None)
from clematis.engine.util import logmux
mux = logmux.LogMux()
tok = logmux.set_mux(mux)
rec = {"i": 0}
for i in range(4):
    rec["i"] = i
    logmux.write_or_buffer("demo.jsonl", rec)
logmux.reset_mux(tok)
got = [r["i"] for (_s, r) in mux.dump()]
import shutil; shutil.rmtree(tmp, ignore_errors=True)
print("captured:", got)
if got != [0, 1, 2, 3]:
    print("VIOLATION: captured records alias the caller's dict; appended 0,1,2,3 but the capture holds", got)
    sys.exit(1)
print("ok")
