"""native reproduction (fault injection): a persistently failing os.replace makes rotate_one DELETE the live log
(atomic_replace 'cleans up the temp file on failure'; in rotate_logs the 'temp' is the log / a kept generation)"""
import os, tempfile, time
import clematis.scripts.rotate_logs as rl

d = tempfile.mkdtemp()
p = os.path.join(d, "turn.jsonl")
open(p, "w").write('{"a":1}\n')
open(p + ".1", "w").write('{"old":1}\n')
real_replace = os.replace


def failing_replace(src, dst):
    raise PermissionError(13, "sharing violation (injected)", src)


os.replace = failing_replace
time.sleep = lambda s: None
try:
    rl.rotate_one(p, backups=1)
    print("returned normally")
except OSError as e:
    print("rotate_one raised:", type(e).__name__)
os.replace = real_replace
print("files left:", sorted(os.listdir(d)))
print("live log still there:", os.path.exists(p), "| generation 1 still there:", os.path.exists(p + ".1"),
      "| generation 2:", os.path.exists(p + ".2"))
