"""etag must change when an edge weight is replaced (T1 cache key component)."""
import sys
sys.path.insert(0, "/repo")
from clematis.graph.store import InMemoryGraphStore
from clematis.engine.types import Node, Edge
s = InMemoryGraphStore()
s.upsert_nodes("g", [Node(id="a", label="apple"), Node(id="b", label="pie")])
s.upsert_edges("g", [Edge(id="e1", src="a", dst="b", weight=1.0, rel="supports")])
e1 = s.version_etag("g")
s.upsert_edges("g", [Edge(id="e1", src="a", dst="b", weight=0.1, rel="supports")])
e2 = s.version_etag("g")
print(e1, e2, "STALE" if e1 == e2 else "OK")
sys.exit(1 if e1 == e2 else 0)
