"""C09/C11: with parallel T2 on, the exact_semantic tier returns nothing (each shard is searched with recent_days=None,
int(None) raises inside the index and the error is swallowed).
usage: /venv/bin/python demos/c09_t2_parallel_exact_tier_empty.py [repo]    exit 1 when parallel != sequential"""
import sys
repo = sys.argv[1] if len(sys.argv) > 1 else "/repo"
sys.path.insert(0, repo)
from types import SimpleNamespace as NS
from clematis.engine.stages.t2 import core as t2core
from clematis.memory.index import InMemoryIndex
from clematis.adapters.embeddings import DeterministicEmbeddingAdapter

enc = DeterministicEmbeddingAdapter(dim=32)


def run(parallel):
    idx = InMemoryIndex()
    for i in range(4):
        txt = "apple pie %d" % i
        idx.add({"id": "e%d" % i, "owner": "A", "text": txt, "vec_full": enc.encode([txt])[0], "ts": "2026-01-01T00:00:00Z", "importance": 0.5})
    cfg = {"t2": {"owner_scope": "any", "sim_threshold": -1.0, "k_retrieval": 8, "exact_recent_days": 30, "tiers": ["exact_semantic"],
                  "cache": {"enabled": False, "max_entries": 0, "ttl_s": 0}, "backend": "inmemory"},
           "perf": {"enabled": True, "parallel": {"enabled": parallel, "t2": parallel, "max_workers": 2}}}
    ctx = NS(cfg=cfg, config=NS(**cfg), agent_id="A", now="2026-01-02T00:00:00Z", enc=enc)
    r = t2core.t2_semantic(ctx, {"mem_index": idx, "memory_index": idx}, "apple pie", NS(graph_deltas=[], metrics={}))
    return sorted(e.id for e in r.retrieved)


seq, par = run(False), run(True)
print("sequential:", seq)
print("parallel:  ", par)
print("OK" if seq == par else "PARALLEL DIFFERS FROM SEQUENTIAL")
sys.exit(0 if seq == par else 1)
