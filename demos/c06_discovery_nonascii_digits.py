"""snapshot discovery must not raise on a file named snap_<non-ASCII digits>.json"""
import sys, os, tempfile
sys.path.insert(0, "/repo")
from clematis.engine import snapshot
d = tempfile.mkdtemp()
open(os.path.join(d, "snap_²³.json"), "w").write("{}")
open(os.path.join(d, "state_x.json"), "w").write("{}")
try:
    p = snapshot._pick_latest_snapshot_path(d)
    print("picked", p); sys.exit(0 if p and p.endswith("state_x.json") else 1)
except ValueError as e:
    print("RAISED", e); sys.exit(1)
