"""C05/C17: a T2 stage-cache hit ignores the per-slice retrieval cap ctx.slice_budgets['t2_k'].
usage: /venv/bin/python demos/c05_t2_cache_slice_cap.py [repo]    exit 1 when the capped call is served the uncapped result"""
import sys
repo = sys.argv[1] if len(sys.argv) > 1 else "/repo"
sys.path.insert(0, repo)
from types import SimpleNamespace
from clematis.engine.stages.t2 import core as t2core
from clematis.memory.index import InMemoryIndex
from clematis.adapters.embeddings import DeterministicEmbeddingAdapter
from clematis.graph.store import InMemoryGraphStore
from clematis.engine.types import Node

enc = DeterministicEmbeddingAdapter(dim=32)
idx = InMemoryIndex()
idx.add({"id": "e1", "owner": "A", "text": "apple pie recipe", "vec_full": enc.encode(["apple pie recipe"])[0],
         "ts": "2026-01-01T00:00:00Z", "importance": 0.5})
store = InMemoryGraphStore()
store.upsert_nodes("g", [Node(id="n:apple", label="apple")])
cfg = {"t2": {"owner_scope": "any", "sim_threshold": -1.0, "k_retrieval": 5, "exact_recent_days": 100000,
              "cache": {"enabled": True, "max_entries": 16, "ttl_s": 600}, "backend": "inmemory"},
       "perf": {"enabled": False}}
state = {"mem_index": idx, "memory_index": idx, "store": store, "active_graphs": ["g"]}


def run(caps):
    ctx = SimpleNamespace(cfg=cfg, config=SimpleNamespace(**cfg), agent_id="A", now="2026-01-02T00:00:00Z", enc=enc)
    if caps is not None:
        ctx.slice_budgets = caps
    r = t2core.t2_semantic(ctx, state, "apple pie", SimpleNamespace(graph_deltas=[], metrics={}))
    return r.metrics.get("k_used"), [d.get("id") for d in (r.graph_deltas_residual or [])]


capped_fresh = None
uncapped = run(None)
capped_after = run({"t2_k": 0})
print("uncapped:", uncapped, " capped (t2_k=0) right after:", capped_after)
bad = capped_after[0] not in (0, None) or capped_after[1]
print("CAP IGNORED ON CACHE HIT" if bad else "OK")
sys.exit(1 if bad else 0)
