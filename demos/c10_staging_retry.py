"""drain-then-retry must succeed for every byte limit >= 1 (a single record larger than the limit)"""
import sys
sys.path.insert(0, "/repo")
from clematis.engine.util.io_logging import LogStager, LogKey
st = LogStager(byte_limit=1)
key = LogKey(1, 1, 0, 1)
try:
    st.stage("t1.jsonl", key, {"a": 1})
except RuntimeError as e:
    drained = st.drain_sorted()
    try:
        st.stage("t1.jsonl", key, {"a": 1})
    except RuntimeError as e2:
        print("RETRY RAISES AGAIN:", e2); sys.exit(1)
print("ok, staged", len(st._buf))
