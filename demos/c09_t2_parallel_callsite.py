"""with the T2 parallel gate on and >1 shard, t2_semantic must not crash in run_parallel (merge_fn/order_key were None)"""
import sys
sys.path.insert(0, "/repo")
from types import SimpleNamespace
from clematis.engine.stages.t2 import core as t2core
from clematis.memory.index import InMemoryIndex
from clematis.adapters.embeddings import DeterministicEmbeddingAdapter
enc = DeterministicEmbeddingAdapter(dim=32)
idx = InMemoryIndex()
for i in range(6):
    txt = "apple pie %d" % i
    idx.add({"id": "e%d" % i, "owner": "A", "text": txt, "vec_full": enc.encode([txt])[0], "ts": "2026-01-01T00:00:00Z", "importance": 0.5})
cfg = {"t2": {"owner_scope": "any", "sim_threshold": -1.0, "k_retrieval": 5, "exact_recent_days": 100000, "backend": "inmemory"},
       "perf": {"enabled": True, "parallel": {"enabled": True, "t2": True, "max_workers": 3}}}
ctx = SimpleNamespace(cfg=cfg, config=SimpleNamespace(**cfg), agent_id="A", now="2026-01-02T00:00:00Z", enc=enc)
state = {"mem_index": idx, "memory_index": idx}
try:
    r = t2core.t2_semantic(ctx, state, "apple pie", SimpleNamespace(graph_deltas=[], metrics={}))
    print("ok", [e.id for e in r.retrieved], r.metrics.get("t2_task_count", r.metrics.get("task_count")))
except TypeError as ex:
    print("CRASH", ex); sys.exit(1)
