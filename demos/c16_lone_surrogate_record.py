"""a record containing a lone surrogate must still be appended as one complete JSON line"""
import sys, os, json, tempfile
sys.path.insert(0, "/repo")
d = tempfile.mkdtemp()
os.environ["CLEMATIS_LOG_DIR"] = d
from clematis.io import log
try:
    log._append_jsonl_unbuffered("t1.jsonl", {"text": "bad \ud800 surrogate", "n": 1})
except UnicodeEncodeError as e:
    print("APPEND RAISED", e); sys.exit(1)
files = [os.path.join(r, f) for r, _, fs in os.walk(d) for f in fs if f == "t1.jsonl"]
if not files:
    base = getattr(log, "logs_dir", None)
data = open(files[0], "rb").read() if files else b""
ok = data.endswith(b"\n") and data.count(b"\n") == 1 and json.loads(data.decode("utf-8"))["text"] == "bad \ud800 surrogate"
print("ok" if ok else "BAD LINE %r" % data); sys.exit(0 if ok else 1)
