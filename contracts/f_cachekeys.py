"""C05: cache-key determinacy clauses (Engine F: reads of the fresh computation vs components of the key)."""
import ast
from pyvc.verifier import REG as R
from pyvc.effects import check_keycover, result

RANK = ("cfg_t2", "ranking")
# ---- T2 stage cache (process global _T2_CACHE)
R.fclause("C05", "t2-stage-key", "custom", "clematis/engine/stages/t2/core.py:t2_semantic", fn=check_keycover,
          key_var="ckey", cache_expr="cache", injective_wrappers=["_quality_digest"], ctx_var="ctx",
          exempt_ctx={"turn_artifacts": "only written: a stash of the `text` of the first hits for reflection; its consumer "
                                        "(_run_reflection_if_enabled) first derives the same texts from the returned T2 result itself "
                                        "(_safe_extract_snippets reads text/snippet/content of `retrieved`), so on a hit nothing observable is lost"},
          # trusted representations: index_version() is bumped on every content change of the memory index
          represented_by={"index": "index_ver"},
          cfg_vars=["cfg_t2", "ranking", "cfg_root", "qcfg", "partitions_cfg", "_rfcfg", "_t3cfg"],
          inputs=[("tiers", "tier list"), ("q_text", "query text incl. T1 labels"), ("index", "memory index identity/content"),
                  ("exact_recent_days", "recency window"), ("sim_threshold", "similarity threshold"),
                  ("clusters_top_m", "cluster tier width"), ("now_str", "logical clock used by the recency filter and recency score"),
                  ("k_retrieval", "number of hits requested"), ("owner_query", "owner scope resolved from ctx.agent_id"),
                  ("label_map", "graph labels used for the residual nudges (state graph content)")],
          exempt_cfg=[(("ranking", "alpha_sim"), "sub-key of cfg_t2['ranking'], which feeds the key whole", RANK),
                      (("ranking", "beta_recency"), "sub-key of cfg_t2['ranking'], which feeds the key whole", RANK),
                      (("ranking", "gamma_importance"), "sub-key of cfg_t2['ranking'], which feeds the key whole", RANK),
                      (("cfg", "t2.quality.enabled"), "same switch as qcfg['enabled']; the quality digest enters the key when it is on", ("qcfg", "enabled")),
                      (("cfg", "t2.quality.mmr.lambda"), "part of the quality digest when quality is on; metrics only otherwise", ("qcfg", "enabled")),
                      (("cfg_t2", "reader_batch"), "batch size of the embed-store reader: performance knob, results do not depend on it"),
                      (("ctx", "cfg.perf.parallel.max_workers"), "worker count: results do not depend on it (C09)"),
                      (("cfg_root", "t3"), "read only to stash reflection snippets into ctx.turn_artifacts (see known finding: side effect skipped on a hit)"),
                      (("_t3cfg", "reflection"), "as above"), (("_rfcfg", "topk_snippets"), "as above")])

# ---- T1 stage cache (process global _T1_CACHE), key built inside the per-graph closure
R.fclause(["C05", "C17", "C12"], "t1-stage-key", "custom", "clematis/engine/stages/t1.py:t1_propagate.<locals>._t1_one_graph", fn=check_keycover,
          key_var="ckey", cache_expr="cache", cfg_vars=["cfg_t1"], ctx_var="ctx", exempt_ctx={},
          inputs=[("gid", "graph id"), ("edge_mult", "relation multipliers"),
                  ("radius_cap", "radius cap"), ("effective_iter_cap_layers", "layer cap"), ("effective_queue_budget", "pop budget"),
                  ("node_budget", "node budget"), ("seeds", "seed set"),
                  ("perf_enabled", "perf master switch selects the capped frontier/visited/dedupe structures")],
          exempt_cfg=[])

# ---- turn-level namespaced cache in run_turn: key = (version_etag, input_text); fresh computation = t2_semantic(ctx, state, input_text, t1)
R.fclause("C05", "turn-level-key", "custom", "clematis/engine/orchestrator/core.py:Orchestrator.run_turn", fn=check_keycover,
          key_var="key", cache_expr="cm", region_call="t2_semantic", cfg_vars=[],
          # trusted representation: state.version_etag is bumped by every apply (C04) -- edits outside apply are not covered
          represented_by={"state": "ver"},
          inputs=[("input_text", "query"), ("state", "store/memory content (represented by version_etag)"),
                  ("t1", "T1 labels appended to the query")],
          must_feed=[("agent_id", "agent -> owner scope of the retrieval")])


def etag_content_sensitive(cl, mod, cls, func):
    """the graph etag used as T1 key component must depend on graph *content*: every h.update(...) argument of
    _bump_etag that only mentions len(...) of nodes/edges is a size, not content"""
    ups = [n for n in ast.walk(func) if isinstance(n, ast.Call) and isinstance(n.func, ast.Attribute) and n.func.attr == "update"]
    if not ups:
        return [result(cl["name"], "error", "anchor lost: no hash updates in _bump_etag")]
    only_sizes = all(any(isinstance(x, ast.Call) and getattr(x.func, "id", None) == "len" for x in ast.walk(u))
                     and not any(isinstance(x, (ast.For, ast.comprehension)) for x in ast.walk(u)) for u in ups)
    loops = any(isinstance(x, (ast.For, ast.ListComp, ast.GeneratorExp)) for x in ast.walk(func))
    if only_sizes and not loops:
        return [result(cl["name"], "failed", "graph etag = hash(len(nodes), len(edges)): replacing a node label or an edge weight keeps "
                                             "the etag, so the T1 cache key does not determine the graph content", "key-determines")]
    return [result(cl["name"], "proved", where="etag hashes graph content")]


R.fclause("C05", "t1-stage-key/graph-etag-determines-content", "custom", "clematis/graph/store.py:InMemoryGraphStore._bump_etag",
          fn=etag_content_sensitive)


# ---------------------------------------------------------------- half (i): a cached value is never mutated by its consumer
# The per-graph result list returned by _t1_one_graph *is* the object stored in (or fetched from) the T1 cache.  If the
# caller mutates it, or adopts it as an accumulator that is mutated later, the entry changes behind the cache's back and
# the next hit returns something no fresh computation would ("a hit equals a fresh computation").  Clause over
# t1_propagate (both the sequential loop and the parallel merge callback): no name bound from a _t1_one_graph result (or
# an alias of such a name: plain `x = y` / tuple unpacking) is the target of an in-place mutation.
_MUTATORS = {"append", "extend", "insert", "pop", "remove", "clear", "sort", "reverse", "update", "setdefault", "popitem", "add", "discard"}


def cached_value_not_mutated(cl, mod, cls, func):
    import ast as _ast
    shared = {}      # name -> reason

    def names_of(t, out):
        if isinstance(t, _ast.Name):
            out.append(t.id)
        elif isinstance(t, (_ast.Tuple, _ast.List)):
            for e in t.elts:
                names_of(e, out)
        elif isinstance(t, _ast.Starred):
            names_of(t.value, out)

    def produces_cached(e):
        return isinstance(e, _ast.Call) and _ast.unparse(e.func) in ("_t1_one_graph",)

    # the merge callback of the parallel path receives the per-graph results as its parameter: its loop targets over
    # that parameter are shared too (structural: any for-loop target inside a nested def whose iterable is a parameter)
    for fn in _ast.walk(func):
        if isinstance(fn, (_ast.FunctionDef, _ast.Lambda)) and fn is not func and getattr(fn, "name", "") != "_t1_one_graph":
            params = {a.arg for a in fn.args.args}
            for n in _ast.walk(fn):
                if isinstance(n, _ast.For) and isinstance(n.iter, _ast.Name) and n.iter.id in params:
                    tl = []
                    names_of(n.target, tl)
                    for nm in tl:
                        shared[nm] = "element of the merge callback's result list (line %d)" % n.lineno
    one = [n for n in func.body if isinstance(n, _ast.FunctionDef) and n.name == "_t1_one_graph"]
    skip = set()
    for o in one:
        for n in _ast.walk(o):
            skip.add(id(n))
    for _ in range(4):
        for n in _ast.walk(func):
            if id(n) in skip:
                continue
            if isinstance(n, _ast.Assign):
                tl = []
                for t in n.targets:
                    names_of(t, tl)
                if produces_cached(n.value):
                    shared["<anchor>"] = "seen"
                    for nm in tl:
                        shared.setdefault(nm, "result of _t1_one_graph (line %d)" % n.lineno)
                elif isinstance(n.value, _ast.Name) and n.value.id in shared:
                    for nm in tl:
                        shared.setdefault(nm, "alias of %s (line %d)" % (n.value.id, n.lineno))
                elif isinstance(n.value, (_ast.Tuple, _ast.List)) and len(n.targets) == 1 and isinstance(n.targets[0], (_ast.Tuple, _ast.List)) \
                        and len(n.value.elts) == len(n.targets[0].elts):
                    for tt, vv in zip(n.targets[0].elts, n.value.elts):
                        if isinstance(tt, _ast.Name) and isinstance(vv, _ast.Name) and vv.id in shared:
                            shared.setdefault(tt.id, "alias of %s (line %d)" % (vv.id, n.lineno))
    if shared.pop("<anchor>", None) is None:
        return [result(cl["name"], "error", "anchor lost: no binding from a _t1_one_graph(...) call in %s" % cl["key"])]
    bad = []
    for n in _ast.walk(func):
        if id(n) in skip:
            continue
        tgt = None
        if isinstance(n, _ast.Call) and isinstance(n.func, _ast.Attribute) and n.func.attr in _MUTATORS and isinstance(n.func.value, _ast.Name):
            tgt = n.func.value.id
        elif isinstance(n, (_ast.Assign, _ast.AugAssign, _ast.Delete)):
            for t in (n.targets if not isinstance(n, _ast.AugAssign) else [n.target]):
                if isinstance(t, _ast.Subscript) and isinstance(t.value, _ast.Name):
                    tgt = t.value.id
                elif isinstance(n, _ast.AugAssign) and isinstance(t, _ast.Name):
                    tgt = t.id
        if tgt is not None and tgt in shared:
            # numeric accumulators (`total += m[...]`) are rebinding, not mutation: only flag names bound to the delta list
            if isinstance(n, _ast.AugAssign) and isinstance(n.target, _ast.Name) and not isinstance(n.op, _ast.Add):
                continue
            bad.append("line %d: `%s` mutates %s, which is the %s" % (n.lineno, _ast.unparse(n)[:60], tgt, shared[tgt]))
    if bad:
        return [result(cl["name"], "failed", "a value shared with the T1 cache is mutated in place: " + "; ".join(bad[:4]))]
    return [result(cl["name"], "proved", where="shared names: " + ", ".join(sorted(shared)))]


R.fclause("C05", "t1-cache-value/consumer-never-mutates-cached-result", "custom", "clematis/engine/stages/t1.py:t1_propagate",
          fn=cached_value_not_mutated)
