"""C05: cache-key determinacy clauses (Engine F: reads of the fresh computation vs components of the key)."""
import ast
from pyvc.verifier import REG as R
from pyvc.effects import check_keycover, result

RANK = ("cfg_t2", "ranking")
# ---- T2 stage cache (process global _T2_CACHE)
R.fclause("C05", "t2-stage-key", "custom", "clematis/engine/stages/t2/core.py:t2_semantic", fn=check_keycover,
          key_var="ckey", cache_expr="cache", injective_wrappers=["_quality_digest"],
          # trusted representations: index_version() is bumped on every content change of the memory index
          represented_by={"index": "index_ver"},
          cfg_vars=["cfg_t2", "ranking", "cfg_root", "qcfg", "partitions_cfg", "_rfcfg", "_t3cfg"],
          inputs=[("tiers", "tier list"), ("q_text", "query text incl. T1 labels"), ("index", "memory index identity/content"),
                  ("exact_recent_days", "recency window"), ("sim_threshold", "similarity threshold"),
                  ("clusters_top_m", "cluster tier width"), ("now_str", "logical clock used by the recency filter and recency score"),
                  ("k_retrieval", "number of hits requested"), ("owner_query", "owner scope resolved from ctx.agent_id"),
                  ("label_map", "graph labels used for the residual nudges (state graph content)")],
          exempt_cfg=[(("ranking", "alpha_sim"), "sub-key of cfg_t2['ranking'], which feeds the key whole", RANK),
                      (("ranking", "beta_recency"), "sub-key of cfg_t2['ranking'], which feeds the key whole", RANK),
                      (("ranking", "gamma_importance"), "sub-key of cfg_t2['ranking'], which feeds the key whole", RANK),
                      (("cfg", "t2.quality.enabled"), "same switch as qcfg['enabled']; the quality digest enters the key when it is on", ("qcfg", "enabled")),
                      (("cfg", "t2.quality.mmr.lambda"), "part of the quality digest when quality is on; metrics only otherwise", ("qcfg", "enabled")),
                      (("cfg_t2", "reader_batch"), "batch size of the embed-store reader: performance knob, results do not depend on it"),
                      (("ctx", "cfg.perf.parallel.max_workers"), "worker count: results do not depend on it (C09)"),
                      (("cfg_root", "t3"), "read only to stash reflection snippets into ctx.turn_artifacts (see known finding: side effect skipped on a hit)"),
                      (("_t3cfg", "reflection"), "as above"), (("_rfcfg", "topk_snippets"), "as above")])

# ---- T1 stage cache (process global _T1_CACHE), key built inside the per-graph closure
R.fclause(["C05", "C17"], "t1-stage-key", "custom", "clematis/engine/stages/t1.py:t1_propagate.<locals>._t1_one_graph", fn=check_keycover,
          key_var="ckey", cache_expr="cache", cfg_vars=["cfg_t1"],
          inputs=[("gid", "graph id"), ("edge_mult", "relation multipliers"),
                  ("radius_cap", "radius cap"), ("effective_iter_cap_layers", "layer cap"), ("effective_queue_budget", "pop budget"),
                  ("node_budget", "node budget"), ("seeds", "seed set"),
                  ("perf_enabled", "perf master switch selects the capped frontier/visited/dedupe structures")],
          exempt_cfg=[])

# ---- turn-level namespaced cache in run_turn: key = (version_etag, input_text); fresh computation = t2_semantic(ctx, state, input_text, t1)
R.fclause("C05", "turn-level-key", "custom", "clematis/engine/orchestrator/core.py:Orchestrator.run_turn", fn=check_keycover,
          key_var="key", cache_expr="cm", region_call="t2_semantic", cfg_vars=[],
          # trusted representation: state.version_etag is bumped by every apply (C04) -- edits outside apply are not covered
          represented_by={"state": "ver"},
          inputs=[("input_text", "query"), ("state", "store/memory content (represented by version_etag)"),
                  ("t1", "T1 labels appended to the query")],
          must_feed=[("agent_id", "agent -> owner scope of the retrieval")])


def etag_content_sensitive(cl, mod, cls, func):
    """the graph etag used as T1 key component must depend on graph *content*: every h.update(...) argument of
    _bump_etag that only mentions len(...) of nodes/edges is a size, not content"""
    ups = [n for n in ast.walk(func) if isinstance(n, ast.Call) and isinstance(n.func, ast.Attribute) and n.func.attr == "update"]
    if not ups:
        return [result(cl["name"], "error", "anchor lost: no hash updates in _bump_etag")]
    only_sizes = all(any(isinstance(x, ast.Call) and getattr(x.func, "id", None) == "len" for x in ast.walk(u))
                     and not any(isinstance(x, (ast.For, ast.comprehension)) for x in ast.walk(u)) for u in ups)
    loops = any(isinstance(x, (ast.For, ast.ListComp, ast.GeneratorExp)) for x in ast.walk(func))
    if only_sizes and not loops:
        return [result(cl["name"], "failed", "graph etag = hash(len(nodes), len(edges)): replacing a node label or an edge weight keeps "
                                             "the etag, so the T1 cache key does not determine the graph content", "key-determines")]
    return [result(cl["name"], "proved", where="etag hashes graph content")]


R.fclause("C05", "t1-stage-key/graph-etag-determines-content", "custom", "clematis/graph/store.py:InMemoryGraphStore._bump_etag",
          fn=etag_content_sensitive)
