from pyvc.verifier import REG as R

R.objtype("LRUSet", {"cap": "int", "enabled": "bool", "_q": "Deque[str]", "_set": "Dict[str, None]"},
          cls=("clematis/engine/util/lru_det.py", "DeterministicLRUSet"))

LRUSET_ADD_LOOP = {0: {"inv": [
    "self.cap >= 1 and self.enabled",
    "len(self._q) == len(self._set)",
    "forall(i, 0 <= i < len(self._q), self._q[i] in self._set)",
    "distinct_seq(self._q)",
    "len(self._set) <= self.cap + 1",
    # the loop only ever removes a prefix of the pre-loop queue
    "len(self._q) + ite(evicted, 1, 0) == len(pre_loop(self._q))",
    "forall(i, 0 <= i < len(self._q), self._q[i] == pre_loop(self._q)[i + ite(evicted, 1, 0)])",
    "forall((k, 'str'), True, (k in self._set) == ((k in pre_loop(self._set)) and (not evicted or k != pre_loop(self._q)[0])))",
    "distinct_seq(pre_loop(self._q)) and pre_loop(self._q)[len(pre_loop(self._q)) - 1] == x and x in pre_loop(self._set)",
    "len(pre_loop(self._q)) == len(pre_loop(self._set))",
    "implies(evicted, len(pre_loop(self._q)) >= 2 and len(pre_loop(self._set)) > self.cap)",
    "len(pre_loop(self._q)) >= 1 and len(pre_loop(self._set)) <= self.cap + 1",
]}}

R.contract(
    "clematis/engine/util/lru_det.py:DeterministicLRUSet.add", "C15",
    types={"self": "LRUSet", "x": "str"},
    requires=[("wf", "wf_lruset(self)")],
    ensures=[
        ("inv-preserved", "wf_lruset(self)"),
        ("frame-caps", "self.cap == old(self.cap) and self.enabled == old(self.enabled)"),
        ("disabled-noop", "implies(not old(self.enabled), result == False and seq_eq(self._q, old(self._q)) "
                          "and seq_eq(self._set, old(self._set)))"),
        ("present-noop", "implies(old(self.enabled) and old(x in self._set), result == False and "
                         "seq_eq(self._q, old(self._q)) and seq_eq(self._set, old(self._set)))"),
        ("member-after", "implies(old(self.enabled), x in self._set)"),
        ("evicts-iff-full", "implies(old(self.enabled) and not old(x in self._set), "
                            "result == (old(len(self._set)) == self.cap))"),
        ("evicts-oldest-only",
         "implies(old(self.enabled) and not old(x in self._set), "
         " forall((k, 'str'), True, (k in self._set) == (k == x or (old(k in self._set) and "
         "    not (result and k == old(self._q)[0])))))"),
        ("fifo-order",
         "implies(old(self.enabled) and not old(x in self._set), "
         " len(self._q) >= 1 and self._q[len(self._q) - 1] == x and "
         " forall(i, 0 <= i < len(self._q) - 1, self._q[i] == old(self._q)[i + ite(result, 1, 0)]))"),
    ],
    raises="none",
    loops=LRUSET_ADD_LOOP,
    locals={"evicted": "bool"},
)

# ------------------------------------------------------------------ LRUBytes
R.untype("K")
R.untype("V")
R.funtype("OnEvict3", params=["k", "v", "c"], raises="Exception")
R.optobj("OptOnEvict3", "OnEvict3")
R.objtype("LRUBytes", {"max_entries": "int", "max_bytes": "int", "_q": "Deque[Un[K]]",
                       "_map": "Dict[Un[K], Tuple[Un[V], int]]", "_bytes": "int", "on_evict": "OptOnEvict3"},
          cls=("clematis/engine/util/lru_bytes.py", "LRUBytes"))
R.aggregate("cost", "Dict[Un[K], Tuple[Un[V], int]]", "v[1]")

LRUBYTES = "clematis/engine/util/lru_bytes.py:LRUBytes."

R.contract(
    LRUBYTES + "put", "C15",
    # defensive code that is dead under the representation invariant (key in map => key in queue; popped key is mapped)
    unreachable_ok=["pass", "continue"],
    types={"self": "LRUBytes", "key": "Un[K]", "value": "Un[V]", "cost_bytes": "int"},
    requires=[("wf", "wf_lrubytes(self)")],
    ensures=[
        ("inv-preserved", "wf_lrubytes(self)"),
        ("frame-caps", "self.max_entries == old(self.max_entries) and self.max_bytes == old(self.max_bytes)"),
        ("disabled-noop", "implies(old(self.max_entries) == 0 and old(self.max_bytes) == 0, "
                          "result[0] == 0 and result[1] == 0 and seq_eq(self._q, old(self._q)) and "
                          "seq_eq(self._map, old(self._map)) and self._bytes == old(self._bytes))"),
        ("oversize-rejected", "implies(old(self.max_bytes) > 0 and cost_bytes > old(self.max_bytes), "
                              "result[0] == 0 and result[1] == 0 and seq_eq(self._q, old(self._q)) and "
                              "seq_eq(self._map, old(self._map)) and self._bytes == old(self._bytes))"),
        ("stored-at-mru", "implies(not (old(self.max_entries) == 0 and old(self.max_bytes) == 0) and "
                          "not (old(self.max_bytes) > 0 and cost_bytes > old(self.max_bytes)), "
                          "key in self._map and self._map[key][0] == value and "
                          "self._map[key][1] == ite(cost_bytes > 0, cost_bytes, 0) and "
                          "len(self._q) >= 1 and self._q[len(self._q) - 1] == key)"),
        ("evicted-count", "result[0] == old(len(self._map)) + ite(old(key in self._map), 0, 1) - len(self._map) "
                          "or (old(self.max_entries) == 0 and old(self.max_bytes) == 0) "
                          "or (old(self.max_bytes) > 0 and cost_bytes > old(self.max_bytes))"),
        ("survivors-unchanged", "forall((k, 'Un[K]'), k in self._map and k != key, "
                                "old(k in self._map) and self._map[k] == old(self._map)[k])"),
    ],
    raises="none",
    setup=["lemma_pigeonhole(self._q, self._map, key)"],
    loops={0: {"inv": [
        "self.max_entries >= 0 and self.max_bytes >= 0 and cost_bytes >= 0",
        "implies(self.max_bytes > 0, cost_bytes <= self.max_bytes)",
        "not (self.max_entries == 0 and self.max_bytes == 0)",
        "len(self._q) == len(self._map)",
        "forall(i, 0 <= i < len(self._q), self._q[i] in self._map)",
        "distinct_seq(self._q)",
        "forall((k, 'Un[K]'), k in self._map, self._map[k][1] >= 0)",
        "key in self._map and self._map[key][0] == value and self._map[key][1] == cost_bytes",
        "len(self._q) >= 1 and self._q[len(self._q) - 1] == key",
        "target_bytes == msum(self._map, 'cost')",
        "self._bytes == target_bytes - cost_bytes",
        "evicted_n >= 0 and evicted_n == len(pre_loop(self._map)) - len(self._map)",
        "forall((k, 'Un[K]'), k in self._map, k in pre_loop(self._map) and self._map[k] == pre_loop(self._map)[k])",
    ]}},
    locals={"evicted_n": "int", "evicted_b": "int", "target_bytes": "int", "cost_bytes": "int"},
)

R.contract(
    LRUBYTES + "get", "C15",
    unreachable_ok=["pass"],   # `except ValueError: pass` is dead under the invariant (key in map => key in queue)
    types={"self": "LRUBytes", "key": "Un[K]"},
    requires=[("wf", "wf_lrubytes(self)")],
    setup=["lemma_pigeonhole(self._q, self._map, key)"],
    ensures=[
        ("inv-preserved", "wf_lrubytes(self)"),
        ("miss", "implies(not old(key in self._map), is_none(result) and seq_eq(self._q, old(self._q)))"),
        ("hit-value", "implies(old(key in self._map), result == old(self._map)[key][0])"),
        ("hit-moves-to-mru", "implies(old(key in self._map), moved_to_mru(self._q, old(self._q), key))"),
        ("map-unchanged", "seq_eq(self._map, old(self._map)) and self._bytes == old(self._bytes) and "
                          "self.max_entries == old(self.max_entries) and self.max_bytes == old(self.max_bytes)"),
    ],
    raises="none",
)

R.contract(
    LRUBYTES + "contains", "C15",
    types={"self": "LRUBytes", "key": "Un[K]"},
    requires=[("wf", "wf_lrubytes(self)")],
    ensures=[("value", "result == ((key in self._map) and (self.max_entries > 0 or self.max_bytes > 0))"),
             ("disabled-false", "implies(self.max_entries == 0 and self.max_bytes == 0, result == False)"),
             ("pure", "seq_eq(self._map, old(self._map)) and seq_eq(self._q, old(self._q)) and self._bytes == old(self._bytes)")],
    raises="none",
)

R.contract(
    LRUBYTES + "clear", "C15",
    types={"self": "LRUBytes"},
    requires=[("wf", "wf_lrubytes(self)")],
    ensures=[("inv-preserved", "wf_lrubytes(self)"),
             ("empty", "len(self._map) == 0 and len(self._q) == 0 and self._bytes == 0")],
    raises="none",
)

R.contract(
    LRUBYTES + "size_bytes", "C15",
    types={"self": "LRUBytes"},
    requires=[("wf", "wf_lrubytes(self)")],
    ensures=[("exact-accounting", "result == msum(self._map, 'cost')"),
             ("within-cap", "implies(self.max_bytes > 0, result <= self.max_bytes)")],
    raises="none",
)

R.contract(
    LRUBYTES + "size_entries", "C15",
    types={"self": "LRUBytes"},
    requires=[("wf", "wf_lrubytes(self)")],
    ensures=[("exact", "result == len(self._map)"),
             ("within-cap", "implies(self.max_entries > 0, result <= self.max_entries)")],
    raises="none",
)

# ------------------------------------------------------------------ DeterministicLRU (lru_det.py)
R.funtype("OnEvict2", params=["k", "v"], raises="Exception")
R.optobj("OptOnEvict2", "OnEvict2")
R.objtype("DetLRU", {"cap": "int", "enabled": "bool", "update_on_get": "bool", "update_on_put": "bool",
                     "on_evict": "OptOnEvict2", "_q": "Deque[Un[K]]", "_map": "Dict[Un[K], Un[V]]"},
          cls=("clematis/engine/util/lru_det.py", "DeterministicLRU"))
DETLRU = "clematis/engine/util/lru_det.py:DeterministicLRU."

R.loops(DETLRU + "_evict_if_needed", {0: {"inv": [
    "self.cap >= 1 and self.enabled",
    "len(self._q) == len(self._map)",
    "forall(i, 0 <= i < len(self._q), self._q[i] in self._map)",
    "distinct_seq(self._q)",
    "len(self._map) <= self.cap + 1",
    "len(pre_loop(self._q)) == len(pre_loop(self._map)) and len(pre_loop(self._map)) <= self.cap + 1 and distinct_seq(pre_loop(self._q))",
    "len(pre_loop(self._q)) >= 1",
    "len(self._q) + ite(is_none(evicted), 0, 1) == len(pre_loop(self._q))",
    "forall(i, 0 <= i < len(self._q), self._q[i] == pre_loop(self._q)[i + ite(is_none(evicted), 0, 1)])",
    "forall((k, 'Un[K]'), True, (k in self._map) == ((k in pre_loop(self._map)) and (is_none(evicted) or k != pre_loop(self._q)[0])))",
    "forall((k, 'Un[K]'), k in self._map, self._map[k] == pre_loop(self._map)[k])",
    "implies(not is_none(evicted), some(evicted)[0] == pre_loop(self._q)[0] and some(evicted)[1] == pre_loop(self._map)[pre_loop(self._q)[0]] "
    "  and len(pre_loop(self._q)) >= 2 and len(pre_loop(self._map)) > self.cap)",
]}}, locals={"evicted": "Optional[Tuple[Un[K], Un[V]]]"})

R.contract(
    DETLRU + "put", "C15",
    types={"self": "DetLRU", "key": "Un[K]", "value": "Un[V]"},
    requires=[("wf", "wf_detlru(self)")],
    setup=["lemma_pigeonhole(self._q, self._map, key)"],
    ensures=[
        ("inv-preserved", "wf_detlru(self)"),
        ("disabled-noop", "implies(not old(self.enabled), is_none(result) and seq_eq(self._map, old(self._map)) and seq_eq(self._q, old(self._q)))"),
        ("stored", "implies(old(self.enabled), key in self._map and self._map[key] == value)"),
        ("update-no-evict", "implies(old(self.enabled) and old(key in self._map), is_none(result) and len(self._map) == old(len(self._map)))"),
        ("update-recency", "implies(old(self.enabled) and old(key in self._map), "
                           "ite(self.update_on_put, moved_to_mru(self._q, old(self._q), key), seq_eq(self._q, old(self._q))))"),
        ("insert-evicts-lru-iff-full",
         "implies(old(self.enabled) and not old(key in self._map), "
         " is_none(result) == (old(len(self._map)) < self.cap) and "
         " implies(not is_none(result), some(result)[0] == old(self._q)[0] and some(result)[1] == old(self._map)[old(self._q)[0]]))"),
        ("others-kept",
         "implies(old(self.enabled), forall((k, 'Un[K]'), k != key, "
         "  (k in self._map) == (old(k in self._map) and (is_none(result) or k != old(self._q)[0])) and "
         "  implies(k in self._map, self._map[k] == old(self._map)[k])))"),
    ],
    raises="none",
)

R.contract(
    DETLRU + "get", "C15",
    types={"self": "DetLRU", "key": "Un[K]", "default": "Optional[Un[V]]"},
    requires=[("wf", "wf_detlru(self)")],
    setup=["lemma_pigeonhole(self._q, self._map, key)"],
    ensures=[
        ("inv-preserved", "wf_detlru(self)"),
        ("miss-default", "implies(not old(self.enabled) or not old(key in self._map), result == default and seq_eq(self._q, old(self._q)))"),
        ("hit-value", "implies(old(self.enabled) and old(key in self._map), result == old(self._map)[key])"),
        ("hit-recency", "implies(old(self.enabled) and old(key in self._map), "
                        "ite(self.update_on_get, moved_to_mru(self._q, old(self._q), key), seq_eq(self._q, old(self._q))))"),
        ("map-unchanged", "seq_eq(self._map, old(self._map))"),
    ],
    raises="none",
)

R.contract(
    DETLRU + "pop_lru", "C15",
    unreachable_ok=["return None"],   # only the `if k not in self._map: return None` arm is dead under the invariant
    types={"self": "DetLRU"},
    requires=[("wf", "wf_detlru(self)")],
    ensures=[
        ("inv-preserved", "wf_detlru(self)"),
        ("empty-none", "implies(not old(self.enabled) or old(len(self._q)) == 0, is_none(result) and seq_eq(self._map, old(self._map)))"),
        ("pops-lru", "implies(old(self.enabled) and old(len(self._q)) > 0, "
                     "result[0] == old(self._q)[0] and result[1] == old(self._map)[old(self._q)[0]] and "
                     "not (old(self._q)[0] in self._map) and len(self._map) == old(len(self._map)) - 1)"),
    ],
    raises="none",
)

# ------------------------------------------------------------------ DedupeRing / ring.DeterministicLRU
R.objtype("Ring", {"k": "int", "enabled": "bool", "_q": "Deque[str]", "_ref": "Dict[str, int]"},
          cls=("clematis/engine/util/ring.py", "DedupeRing"))
RING = "clematis/engine/util/ring.py:DedupeRing."
R.contract(
    RING + "add", "C15",
    types={"self": "Ring", "x": "str"},
    requires=[("wf", "wf_ring(self)")],
    ensures=[
        ("inv-preserved", "wf_ring(self)"),
        ("capacity", "len(self._q) <= self.k"),
        ("disabled-noop", "implies(not old(self.enabled), seq_eq(self._q, old(self._q)) and seq_eq(self._ref, old(self._ref)))"),
        ("appended", "implies(old(self.enabled), len(self._q) >= 1 and self._q[len(self._q) - 1] == x and x in self._ref)"),
        ("fifo", "implies(old(self.enabled), len(self._q) == ite(old(len(self._q)) >= self.k, self.k, old(len(self._q)) + 1) and "
                 "forall(i, 0 <= i < len(self._q) - 1, self._q[i] == old(self._q)[i + (old(len(self._q)) + 1 - len(self._q))]))"),
    ],
    raises="none",
    loops={0: {"inv": [
        "self.k >= 1 and self.enabled",
        "len(self._q) <= self.k",
        "forall((y, 'str'), y in self._ref, self._ref[y] > 0)",
        "len(self._q) <= len(pre_loop(self._q))",
        "forall(i, 0 <= i < len(self._q), self._q[i] == pre_loop(self._q)[i + (len(pre_loop(self._q)) - len(self._q))])",
        "implies(len(pre_loop(self._q)) < self.k, len(self._q) == len(pre_loop(self._q)))",
        "implies(len(pre_loop(self._q)) >= self.k, len(self._q) >= self.k - 1)",
        "len(pre_loop(self._q)) <= self.k",
    ]}},
    locals={"c": "int"},
)
R.contract(
    RING + "discard", "C15",
    types={"self": "Ring", "x": "str"},
    requires=[("wf", "wf_ring(self)")],
    ensures=[("inv-preserved", "wf_ring(self)"),
             ("queue-untouched", "seq_eq(self._q, old(self._q))"),
             ("others-untouched", "forall((y, 'str'), y != x, (y in self._ref) == old(y in self._ref) and implies(y in self._ref, self._ref[y] == old(self._ref)[y]))")],
    raises="none",
)
R.contract(
    RING + "contains", "C15",
    types={"self": "Ring", "x": "str"},
    requires=[("wf", "wf_ring(self)")],
    ensures=[("value", "result == (self.enabled and x in self._ref)"),
             ("disabled-false", "implies(self.k == 0, result == False)")],
    raises="none",
)

R.objtype("RingLRU", {"cap": "int", "enabled": "bool", "_q": "Deque[str]", "_set": "Dict[str, None]"},
          cls=("clematis/engine/util/ring.py", "DeterministicLRU"))
_c = R.contracts["clematis/engine/util/lru_det.py:DeterministicLRUSet.add"]
R.contract(
    "clematis/engine/util/ring.py:DeterministicLRU.add", "C15",
    types={"self": "RingLRU", "x": "str"},
    requires=_c.requires, ensures=_c.ensures, raises="none", loops=LRUSET_ADD_LOOP, locals={"evicted": "bool"},
)
R.contract(
    "clematis/engine/util/lru_det.py:DeterministicLRUSet.contains", "C15",
    types={"self": "LRUSet", "x": "str"},
    requires=[("wf", "wf_lruset(self)")],
    ensures=[("value", "result == (self.enabled and x in self._set)"), ("disabled-false", "implies(self.cap == 0, result == False)")],
    raises="none",
)
