from pyvc.verifier import REG as R

R.objtype("LRUSet", {"cap": "int", "enabled": "bool", "_q": "Deque[str]", "_set": "Dict[str, None]"},
          cls=("clematis/engine/util/lru_det.py", "DeterministicLRUSet"))

LRUSET_ADD_LOOP = {0: {"inv": [
    "self.cap >= 1 and self.enabled",
    "len(self._q) == len(self._set)",
    "forall(i, 0 <= i < len(self._q), self._q[i] in self._set)",
    "distinct_seq(self._q)",
    "len(self._set) <= self.cap + 1",
    # the loop only ever removes a prefix of the pre-loop queue
    "len(self._q) + ite(evicted, 1, 0) == len(pre_loop(self._q))",
    "forall(i, 0 <= i < len(self._q), self._q[i] == pre_loop(self._q)[i + ite(evicted, 1, 0)])",
    "forall((k, 'str'), True, (k in self._set) == ((k in pre_loop(self._set)) and (not evicted or k != pre_loop(self._q)[0])))",
    "distinct_seq(pre_loop(self._q)) and pre_loop(self._q)[len(pre_loop(self._q)) - 1] == x and x in pre_loop(self._set)",
    "len(pre_loop(self._q)) == len(pre_loop(self._set))",
    "implies(evicted, len(pre_loop(self._q)) >= 2 and len(pre_loop(self._set)) > self.cap)",
    "len(pre_loop(self._q)) >= 1 and len(pre_loop(self._set)) <= self.cap + 1",
]}}

R.contract(
    "clematis/engine/util/lru_det.py:DeterministicLRUSet.add", "C15",
    types={"self": "LRUSet", "x": "str"},
    requires=[("wf", "wf_lruset(self)")],
    ensures=[
        ("inv-preserved", "wf_lruset(self)"),
        ("frame-caps", "self.cap == old(self.cap) and self.enabled == old(self.enabled)"),
        ("disabled-noop", "implies(not old(self.enabled), result == False and seq_eq(self._q, old(self._q)) "
                          "and seq_eq(self._set, old(self._set)))"),
        ("present-noop", "implies(old(self.enabled) and old(x in self._set), result == False and "
                         "seq_eq(self._q, old(self._q)) and seq_eq(self._set, old(self._set)))"),
        ("member-after", "implies(old(self.enabled), x in self._set)"),
        ("evicts-iff-full", "implies(old(self.enabled) and not old(x in self._set), "
                            "result == (old(len(self._set)) == self.cap))"),
        ("evicts-oldest-only",
         "implies(old(self.enabled) and not old(x in self._set), "
         " forall((k, 'str'), True, (k in self._set) == (k == x or (old(k in self._set) and "
         "    not (result and k == old(self._q)[0])))))"),
        ("fifo-order",
         "implies(old(self.enabled) and not old(x in self._set), "
         " len(self._q) >= 1 and self._q[len(self._q) - 1] == x and "
         " forall(i, 0 <= i < len(self._q) - 1, self._q[i] == old(self._q)[i + ite(result, 1, 0)]))"),
    ],
    raises="none",
    loops=LRUSET_ADD_LOOP,
    locals={"evicted": "bool"},
)

# ------------------------------------------------------------------ LRUBytes
R.untype("K")
R.untype("V")
R.funtype("OnEvict3", params=["k", "v", "c"], raises="Exception")
R.optobj("OptOnEvict3", "OnEvict3")
R.objtype("LRUBytes", {"max_entries": "int", "max_bytes": "int", "_q": "Deque[Un[K]]",
                       "_map": "Dict[Un[K], Tuple[Un[V], int]]", "_bytes": "int", "on_evict": "OptOnEvict3"},
          cls=("clematis/engine/util/lru_bytes.py", "LRUBytes"))
R.aggregate("cost", "Dict[Un[K], Tuple[Un[V], int]]", "v[1]")

LRUBYTES = "clematis/engine/util/lru_bytes.py:LRUBytes."

R.contract(
    LRUBYTES + "put", "C15",
    types={"self": "LRUBytes", "key": "Un[K]", "value": "Un[V]", "cost_bytes": "int"},
    requires=[("wf", "wf_lrubytes(self)")],
    ensures=[
        ("inv-preserved", "wf_lrubytes(self)"),
        ("frame-caps", "self.max_entries == old(self.max_entries) and self.max_bytes == old(self.max_bytes)"),
        ("disabled-noop", "implies(old(self.max_entries) == 0 and old(self.max_bytes) == 0, "
                          "result[0] == 0 and result[1] == 0 and seq_eq(self._q, old(self._q)) and "
                          "seq_eq(self._map, old(self._map)) and self._bytes == old(self._bytes))"),
        ("oversize-rejected", "implies(old(self.max_bytes) > 0 and cost_bytes > old(self.max_bytes), "
                              "result[0] == 0 and result[1] == 0 and seq_eq(self._q, old(self._q)) and "
                              "seq_eq(self._map, old(self._map)) and self._bytes == old(self._bytes))"),
        ("stored-at-mru", "implies(not (old(self.max_entries) == 0 and old(self.max_bytes) == 0) and "
                          "not (old(self.max_bytes) > 0 and cost_bytes > old(self.max_bytes)), "
                          "key in self._map and self._map[key][0] == value and "
                          "self._map[key][1] == ite(cost_bytes > 0, cost_bytes, 0) and "
                          "len(self._q) >= 1 and self._q[len(self._q) - 1] == key)"),
        ("evicted-count", "result[0] == old(len(self._map)) + ite(old(key in self._map), 0, 1) - len(self._map) "
                          "or (old(self.max_entries) == 0 and old(self.max_bytes) == 0) "
                          "or (old(self.max_bytes) > 0 and cost_bytes > old(self.max_bytes))"),
        ("survivors-unchanged", "forall((k, 'Un[K]'), k in self._map and k != key, "
                                "old(k in self._map) and self._map[k] == old(self._map)[k])"),
    ],
    raises="none",
    setup=["lemma_pigeonhole(self._q, self._map, key)"],
    loops={0: {"inv": [
        "self.max_entries >= 0 and self.max_bytes >= 0 and cost_bytes >= 0",
        "implies(self.max_bytes > 0, cost_bytes <= self.max_bytes)",
        "not (self.max_entries == 0 and self.max_bytes == 0)",
        "len(self._q) == len(self._map)",
        "forall(i, 0 <= i < len(self._q), self._q[i] in self._map)",
        "distinct_seq(self._q)",
        "forall((k, 'Un[K]'), k in self._map, self._map[k][1] >= 0)",
        "key in self._map and self._map[key][0] == value and self._map[key][1] == cost_bytes",
        "len(self._q) >= 1 and self._q[len(self._q) - 1] == key",
        "target_bytes == msum(self._map, 'cost')",
        "self._bytes == target_bytes - cost_bytes",
        "evicted_n >= 0 and evicted_n == len(pre_loop(self._map)) - len(self._map)",
        "forall((k, 'Un[K]'), k in self._map, k in pre_loop(self._map) and self._map[k] == pre_loop(self._map)[k])",
    ]}},
    locals={"evicted_n": "int", "evicted_b": "int", "target_bytes": "int", "cost_bytes": "int"},
)
