"""C16 (log streams well-formed, ordered, lossless) and the LogStager part shared with C10.

Modelling decisions (trusted models, all listed as assumptions in the report):
  * log records are `Dict[str, Json]`; `Json` is the dynamically typed value model of pyvc/jsonmodel.py
  * `os.environ.get`, `os.path.basename/join`, `json.dumps`, `ContextVar`, `open/write` : pyvc/externals.py
  * `N(name, rec)` = spec function `norm_id` (contracts/specs.py); callers of `normalize_for_identity` see exactly
    that function (R.opaque), the real body is proved equal to it below.
Engine additions made for this file: pyvc/jsonmodel.py (new), externals.py (environ, os.path, json.dumps, ContextVar,
open/write ghost trace), builtins.py (sum(), dict-literal lookup with a symbolic key, `{k: f(k) for k in m}` exact,
spec functions map_put/map_del/perm_of, Json hooks), interp.py (set literals, `is` on optionals, Json truthiness),
verifier.py (`exc_msg` in ensures_exc), values.py (coercion hook into Json).
"""
from pyvc.verifier import REG as R
from pyvc.jsonmodel import TJSON

R.types.declare("Json", TJSON)
REC = "Dict[str, Json]"
IOL = "clematis/engine/util/io_logging.py:"
LOG = "clematis/io/log.py:"

# ------------------------------------------------------------------ normalize_for_identity
R.opaque(IOL + "normalize_for_identity", "norm_id")

VOLATILE = "k != 'ms' and k != 'now' and k != 'durations_ms' and k != 'yielded' and k != 'slice_idx'"
UNCH = "(k in result) == (k in rec) and implies(k in rec, result[k] == rec[k])"

R.contract(
    IOL + "normalize_for_identity", "C16", callee=False,
    types={"name": "str", "rec": REC},
    ensures=[
        ("ci-off-same-object", "implies(not ci_on(), same_obj(result, rec))"),
        ("other-streams-same-object",
         "implies(not is_identity_log(name) and name != 't3_reflection.jsonl', same_obj(result, rec))"),
        ("only-volatile-keys-change", "forall((k, 'str'), " + VOLATILE + ", " + UNCH + ")"),
        ("reflection-only-ms", "implies(name == 't3_reflection.jsonl', forall((k, 'str'), k != 'ms', " + UNCH + "))"),
        ("scheduling-fields-only-in-turn-stream",
         "implies(name != 'turn.jsonl', forall((k, 'str'), k != 'ms' and k != 'now', " + UNCH + "))"),
        ("ms-zeroed", "implies(ci_on() and (is_identity_log(name) or name == 't3_reflection.jsonl'), "
                      "('ms' in result) == ('ms' in rec) and implies('ms' in rec, result['ms'] == jv(0.0)))"),
        ("now-dropped", "implies(ci_on() and is_identity_log(name), not ('now' in result))"),
        ("durations-zeroed-keys-kept",
         "implies(ci_on() and name == 'turn.jsonl' and 'durations_ms' in rec and jv_is_dict(rec['durations_ms']), "
         " 'durations_ms' in result and jv_is_dict(result['durations_ms']) and "
         " forall((k, 'str'), True, (k in jv_dict(result['durations_ms'])) == (k in jv_dict(rec['durations_ms'])) and "
         "   implies(k in jv_dict(result['durations_ms']), jv_dict(result['durations_ms'])[k] == jv(0.0))))"),
        ("yield-markers-kept-only-on-yield",
         "implies(ci_on() and name == 'turn.jsonl', "
         " ite('yielded' in rec and jv_truthy(rec['yielded']), "
         "     result['yielded'] == jv(True) and ('slice_idx' in result) == ('slice_idx' in rec), "
         "     not ('yielded' in result) and not ('slice_idx' in result)))"),
        ("equals-documented-normalisation", "seq_eq(result, norm_id(name, rec))"),
        ("input-not-mutated", "seq_eq(rec, old(rec))"),
    ],
    raises="none",
)

# N(N(r)) == N(r): the real body is executed twice (second call inlined in the ghost post-state)
R.contract(
    IOL + "normalize_for_identity", "C16", callee=False, name="normalize_for_identity#twice",
    types={"name": "str", "rec": REC},
    ghost={"r2": (REC, "any")},
    post_setup=["r2 = normalize_for_identity(name, result)"],
    ensures=[("idempotent", "seq_eq(r2, result)")],
    raises="none",
)
