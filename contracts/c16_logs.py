"""C16 (log streams well-formed, ordered, lossless) and the LogStager part shared with C10.

Modelling decisions (trusted models, all listed as assumptions in the report):
  * log records are `Dict[str, Json]`; `Json` is the dynamically typed value model of pyvc/jsonmodel.py
  * `os.environ.get`, `os.path.basename/join`, `json.dumps`, `ContextVar`, `open/write` : pyvc/externals.py
  * `N(name, rec)` = spec function `norm_id` (contracts/specs.py); callers of `normalize_for_identity` see exactly
    that function (R.opaque), the real body is proved equal to it below.
  * rotate_one: PRIVATE tiny file-name model (ghost `rfs`), not pyvc/fsmodel.py -- see the section at the end
Engine additions made for this file (summary in ENGINE_GUIDE.md "Additions made for C16 / C10"):
pyvc/jsonmodel.py (new), externals.py (environ, os.path, os.remove, Path, json.dumps, ContextVar, open/write ghost
trace), builtins.py (sum(), dict-literal lookup with a symbolic key, `{k: f(k) for k in m}` exact, spec functions
map_put/map_del/perm_of/enc_eq, Json hooks, callee raise conditions evaluated in the pre-call state), interp.py (set
literals, `is` on optionals, Json truthiness, nested forall merged into one quantifier, `define:` cut points),
verifier.py (`exc_msg` in ensures_exc, `funcs=` callee override, `from . import submodule`, ghost-written names of
model hooks / modifies), values.py (coercion hook into Json, eta-reduction mk(acc(x)..) -> x for lists/maps).

FINDING kept as failing obligations (rotate_one[backups=1|2]/post-exc:*): when os.replace keeps failing,
atomic_replace "cleans up the temp file" -- in rotate_logs that "temp" is the live log or a kept generation, which is
thereby deleted (reproduced natively with a fault-injected os.replace, see the final report).
"""
from pyvc.verifier import REG as R
from pyvc.jsonmodel import TJSON

R.types.declare("Json", TJSON)
REC = "Dict[str, Json]"
IOL = "clematis/engine/util/io_logging.py:"
LOG = "clematis/io/log.py:"

# ------------------------------------------------------------------ normalize_for_identity
R.opaque(IOL + "normalize_for_identity", "norm_id")

VOLATILE = "k != 'ms' and k != 'now' and k != 'durations_ms' and k != 'yielded' and k != 'slice_idx'"
UNCH = "(k in result) == (k in rec) and implies(k in rec, result[k] == rec[k])"

# also registered for C01: the wall-clock clause of contracts/f_determinism.py relies on "every masked timing field is
# zeroed / dropped for *every* record of an identity stream" (clauses ms-zeroed, now-dropped, durations-zeroed-keys-kept)
R.contract(
    IOL + "normalize_for_identity", ["C16", "C01"], callee=False,
    types={"name": "str", "rec": REC},
    ensures=[
        ("ci-off-same-object", "implies(not ci_on(), same_obj(result, rec))"),
        ("other-streams-same-object",
         "implies(not is_identity_log(name) and name != 't3_reflection.jsonl', same_obj(result, rec))"),
        ("only-volatile-keys-change", "forall((k, 'str'), " + VOLATILE + ", " + UNCH + ")"),
        ("reflection-only-ms", "implies(name == 't3_reflection.jsonl', forall((k, 'str'), k != 'ms', " + UNCH + "))"),
        ("scheduling-fields-only-in-turn-stream",
         "implies(name != 'turn.jsonl', forall((k, 'str'), k != 'ms' and k != 'now', " + UNCH + "))"),
        ("ms-zeroed", "implies(ci_on() and (is_identity_log(name) or name == 't3_reflection.jsonl'), "
                      "('ms' in result) == ('ms' in rec) and implies('ms' in rec, result['ms'] == jv(0.0)))"),
        ("now-dropped", "implies(ci_on() and is_identity_log(name), not ('now' in result))"),
        ("durations-zeroed-keys-kept",
         "implies(ci_on() and name == 'turn.jsonl' and 'durations_ms' in rec and jv_is_dict(rec['durations_ms']), "
         " 'durations_ms' in result and jv_is_dict(result['durations_ms']) and "
         " forall((k, 'str'), True, (k in jv_dict(result['durations_ms'])) == (k in jv_dict(rec['durations_ms'])) and "
         "   implies(k in jv_dict(result['durations_ms']), jv_dict(result['durations_ms'])[k] == jv(0.0))))"),
        ("yield-markers-kept-only-on-yield",
         "implies(ci_on() and name == 'turn.jsonl', "
         " ite('yielded' in rec and jv_truthy(rec['yielded']), "
         "     result['yielded'] == jv(True) and ('slice_idx' in result) == ('slice_idx' in rec), "
         "     not ('yielded' in result) and not ('slice_idx' in result)))"),
        ("equals-documented-normalisation", "seq_eq(result, norm_id(name, rec))"),
        ("input-not-mutated", "seq_eq(rec, old(rec))"),
    ],
    raises="none",
)

# N(N(r)) == N(r): the real body is executed twice (second call inlined in the ghost post-state)
R.contract(
    IOL + "normalize_for_identity", "C16", callee=False, name="normalize_for_identity#twice",
    types={"name": "str", "rec": REC},
    ghost={"r2": (REC, "any")},
    post_setup=["r2 = normalize_for_identity(name, result)"],
    ensures=[("idempotent", "seq_eq(r2, result)")],
    raises="none",
)

# ------------------------------------------------------------------ LogStager (shared with C10)
BOTH = ["C16", "C10"]
R.record("LogKey", {"turn_id": "int", "stage_ord": "int", "slice_idx": "int", "seq": "int"},
         pyclass="clematis.engine.util.io_logging:LogKey")
R.record("StagedRecord", {"file_path": "str", "key": "LogKey", "payload": REC, "bytes_estimate": "int"},
         pyclass="clematis.engine.util.io_logging:StagedRecord")
SR = "List[StagedRecord]"
R.objtype("LogStager", {"_buf": SR, "_seq": "int", "_bytes": "int", "byte_limit": "int"},
          cls=("clematis/engine/util/io_logging.py", "LogStager"))
R.optobj("OptLogStager", "LogStager")
STG = IOL + "LogStager."

# bsum(L, i) = sum of L[j].bytes_estimate for j < i  (primitive recursion on the prefix length)
R.uf("bsum", [SR, "int"], "int")
AX_BSUM = ["forall((L, 'List[StagedRecord]'), True, bsum(L, 0) == 0)",
           "forall((L, 'List[StagedRecord]'), True, "
           "forall(i, 0 <= i < len(L), bsum(L, i + 1) == bsum(L, i) + L[i].bytes_estimate))"]
# bsum depends only on the prefix (induction on n: lemma 'bsum_prefix' below)
R.ghostfun("lemma_bsum_prefix", ["A", "B", "n"],
           requires=["0 <= n and n <= len(A) and n <= len(B)", "forall(j, 0 <= j < n, enc_eq(A[j], B[j]))"],
           ensures=["bsum(A, n) == bsum(B, n)"])


def _bsum_lemma():
    import z3
    sA = z3.Function("sA", z3.IntSort(), z3.IntSort())   # i -> bsum(A, i)
    sB = z3.Function("sB", z3.IntSort(), z3.IntSort())
    eA = z3.Function("eA", z3.IntSort(), z3.IntSort())   # j -> A[j].bytes_estimate
    eB = z3.Function("eB", z3.IntSort(), z3.IntSort())
    i, n, j = z3.Ints("i n j")
    same = z3.ForAll([j], z3.Implies(z3.And(0 <= j, j < n), eA(j) == eB(j)))
    defs = [sA(0) == 0, sB(0) == 0, sA(i + 1) == sA(i) + eA(i), sB(i + 1) == sB(i) + eB(i), same]
    return [("base", defs, sA(0) == sB(0)),
            ("step", defs + [0 <= i, i < n, sA(i) == sB(i)], sA(i + 1) == sB(i + 1))]


R.lemma("bsum_prefix", "C16", _bsum_lemma)
R.lemma("bsum_prefix", "C10", _bsum_lemma)

R.contract(
    STG + "__init__", BOTH,
    types={"self": "LogStager", "byte_limit": "int"},
    axioms=AX_BSUM,
    ensures=[("empty", "len(self._buf) == 0 and self._bytes == 0 and self._seq == 0"),
             ("limit-stored", "self.byte_limit == byte_limit"),
             ("inv-established", "wf_stager(self) and stager_bounded(self)")],
    raises="none", callee=False,
)

R.contract(
    STG + "next_seq", BOTH,
    types={"self": "LogStager"},
    requires=[("wf", "wf_stager(self)")],
    ensures=[("strictly-increasing", "result == old(self._seq) + 1 and self._seq == result and result > old(self._seq)"),
             ("frame", "seq_eq(self._buf, old(self._buf)) and self._bytes == old(self._bytes) and "
                       "self.byte_limit == old(self.byte_limit)"),
             ("inv-preserved", "wf_stager(self)")],
    raises="none", callee=False,
)

LAST = "self._buf[len(self._buf) - 1]"
R.contract(
    STG + "stage", BOTH,
    types={"self": "LogStager", "file_path": "str", "key": "LogKey", "payload": REC},
    ghost={"gest": ("int", "any"), "buf0": (SR, "empty")},
    setup=["buf0 = list(self._buf)"],
    axioms=AX_BSUM,
    requires=[("wf", "wf_stager(self)")],
    asserts={"est": ["ghost:gest = est"]},
    post_setup=["lemma_bsum_prefix(self._buf, buf0, len(buf0))"],
    ensures=[
        ("inv-preserved", "wf_stager(self)"),
        ("appended-last", "len(self._buf) == old(len(self._buf)) + 1 and "
                          "forall(i, 0 <= i < old(len(self._buf)), enc_eq(self._buf[i], old(self._buf)[i]))"),
        ("staged-record", LAST + ".file_path == file_path and " + LAST + ".key == key and " + LAST + ".bytes_estimate == gest "
                          "and seq_eq(" + LAST + ".payload, norm_id(os_basename(file_path), payload))"),
        ("bytes-accounting", "self._bytes == old(self._bytes) + gest and gest >= 2"),
        # back-pressure only while something is buffered (repo commit 8181b4e): a record is accepted iff it fits
        # or the buffer is empty
        ("accepted-only-within-limit-or-into-empty-buffer",
         "old(self._bytes) + gest <= self.byte_limit or old(len(self._buf)) == 0"),
        ("memory-bound-preserved", "implies(old(stager_bounded(self)), stager_bounded(self))"),
        ("frame", "self._seq == old(self._seq) and self.byte_limit == old(self.byte_limit)"),
        ("payload-not-mutated", "seq_eq(payload, old(payload))"),
    ],
    raises=["RuntimeError"],
    ensures_exc=[
        ("backpressure-only-when-buffered-and-over-limit",
         "old(len(self._buf)) > 0 and old(self._bytes) + gest > old(self.byte_limit)"),
        ("message", "exc_msg == 'LOG_STAGING_BACKPRESSURE'"),
        ("nothing-changed", "seq_eq(self._buf, old(self._buf)) and self._bytes == old(self._bytes) and "
                            "self._seq == old(self._seq) and self.byte_limit == old(self.byte_limit) and "
                            "seq_eq(payload, old(payload))"),
    ],
    callee=False,
)

R.contract(
    STG + "drain_sorted", BOTH,
    types={"self": "LogStager"},
    returns=SR,
    axioms=AX_BSUM,
    requires=[("wf", "wf_stager(self)")],
    ensures=[
        ("emptied", "len(self._buf) == 0 and self._bytes == 0"),
        ("inv-preserved", "wf_stager(self) and stager_bounded(self)"),
        ("returns-every-staged-record-once", "perm_of(result, old(self._buf))"),
        ("sorted-by-turn-stage-slice-seq-path",
         "forall2(i, j, 0 <= i and i < j and j < len(result), stage_key(result[i]) <= stage_key(result[j]))"),
        ("frame", "self._seq == old(self._seq) and self.byte_limit == old(self.byte_limit)"),
    ],
    raises="none", callee=False,
)

# drain-then-retry never raises, for every byte limit: the real drain_sorted followed by the real stage (inlined on
# the post-state); an escaping exception would be the failed obligation `.../post-call:no-exception:RuntimeError`
R.contract(
    STG + "drain_sorted", BOTH, name="LogStager.drain_sorted#then-stage",
    types={"self": "LogStager", "fp": "str", "key": "LogKey", "payload": REC},
    returns=SR,
    axioms=AX_BSUM,
    requires=[("wf", "wf_stager(self)")],
    post_setup=["call:self.stage(fp, key, payload)"],
    ensures=[("retry-after-drain-is-accepted-alone",
              "len(self._buf) == 1 and self._buf[0].file_path == fp and self._buf[0].key == key and "
              "self._bytes == self._buf[0].bytes_estimate"),
             # (the antecedent is an instance of the first bsum axiom; it only puts the trigger term bsum(buf, 0) on the table)
             ("inv-and-bound-after-retry",
              "implies(bsum(self._buf, 0) == 0, wf_stager(self)) and stager_bounded(self)")],
    raises="none", callee=False,
)

R.contract(
    IOL + "default_key_for", BOTH,
    types={"file_path": "str", "turn_id": "int", "slice_idx": "int"},
    ghost={"ctx_STAGING_STATE": ("OptLogStager", "any")},
    ensures=[
        ("key-fields", "result.turn_id == turn_id and result.slice_idx == slice_idx"),
        ("stage-ord-documented-table", "result.stage_ord == stage_ord_of(os_basename(file_path))"),
        ("unknown-stream-sorts-last",
         "(1 <= result.stage_ord and result.stage_ord <= 10) or result.stage_ord == 99"),
        ("fresh-seq-strictly-increasing",
         "result.seq == old(ctx_STAGING_STATE._seq) + 1 and ctx_STAGING_STATE._seq == result.seq"),
        ("buffer-untouched", "seq_eq(ctx_STAGING_STATE._buf, old(ctx_STAGING_STATE._buf)) and "
                             "ctx_STAGING_STATE._bytes == old(ctx_STAGING_STATE._bytes)"),
    ],
    raises={"RuntimeError": "not present(ctx_STAGING_STATE)"},
    ensures_exc=[("message", "exc_msg == 'staging not enabled'")],
    callee=False,
)

# ------------------------------------------------------------------ clematis/io/log.py
# paths.logs_dir(): callers see a total deterministic function (its mkdir side effects / OSError are outside this model;
# a failure there happens before any open/write)
R.opaque("clematis/io/paths.py:logs_dir", "logs_dir_path", argtypes=[], rettype="str")
FS_GHOST = {"fs_opens": ("List[Tuple[str, str]]", "empty"), "fs_writes": ("List[Tuple[str, str, str]]", "empty")}
LEGACY = "json_dumps(%s, ensure_ascii=False)"
CANON = "json_dumps(%s, ensure_ascii=False, sort_keys=True, separators=(',', ':'))"
W0 = "fs_writes[0][2]"

R.contract(
    LOG + "_append_jsonl_unbuffered", "C16", callee=False,
    types={"filename": "str", "record": REC},
    ghost=dict(FS_GHOST, rec0=(REC, "any")),
    setup=["rec0 = record"],
    ensures=[
        ("one-binary-append-open", "len(fs_opens) == 1 and fs_opens[0][0] == os_join(logs_dir_path(), filename) "
                                   "and fs_opens[0][1] == 'ab'"),
        ("exactly-one-write-on-that-handle", "len(fs_writes) == 1 and fs_writes[0][0] == fs_opens[0][0] and fs_writes[0][1] == 'ab'"),
        ("line-is-dump-of-normalised-record-plus-LF",
         W0 + " == " + LEGACY % "norm_id(os_basename(filename), rec0)" + " + '\\n'"),
        ("one-complete-LF-terminated-line",
         W0 + ".endswith('\\n') and not ('\\n' in " + W0 + "[:len(" + W0 + ") - 1])"),
        ("record-not-mutated", "seq_eq(rec0, old(record))"),
    ],
    raises=["OSError"],
    ensures_exc=[("never-more-than-one-write", "len(fs_writes) == 0 and len(fs_opens) <= 1")],
)

# atomic_write_text is verified under C08; here only the call is recorded (assumed contract named explicitly)
AWT = R.contract(
    "clematis/io/atomic.py:atomic_write_text", "C16", verify=False, callee=False,
    types={"final_path": "str", "text": "str", "encoding": "str", "newline": "str"},
    raises=["OSError"],
    effects=["aw_calls.append((final_path, text, encoding, newline))"],
)
DUMP_I = CANON % "norm_id(os_basename(filename), records[%s])"
R.contract(
    LOG + "rewrite_jsonl", "C16", callee=False,
    types={"filename": "str", "records": "List[Dict[str, Json]]"},
    ghost={"aw_calls": ("List[Tuple[str, str, str, str]]", "empty"), "glines": ("List[str]", "empty")},
    funcs={"clematis/io/atomic.py:atomic_write_text": AWT},
    asserts={"payload": ["ghost:glines = lines"]},
    ensures=[
        ("written-only-through-one-atomic_write_text",
         "len(aw_calls) == 1 and aw_calls[0][0] == os_join(logs_dir_path(), filename) and aw_calls[0][2] == 'utf-8' "
         "and aw_calls[0][3] == '\\n'"),
        ("payload-is-concatenation-of-lines", "aw_calls[0][1] == ''.join(glines)"),
        ("count-preserved", "len(glines) == len(records)"),
        ("line-i-is-canonical-dump-of-normalised-record-i",
         "forall(i, 0 <= i < len(records), glines[i] == " + DUMP_I % "i" + " + '\\n')"),
        ("records-not-mutated", "enc_eq(records, old(records))"),
    ],
    raises=["OSError"],
    ensures_exc=[("nothing-written-on-failure", "len(aw_calls) == 0")],
    loops={0: {"inv": ["len(lines) == _i",
                       "forall(j, 0 <= j < _i, lines[j] == " + DUMP_I % "j" + " + '\\n')",
                       "enc_eq(records, pre_loop(records)) and len(aw_calls) == 0"]}},
    locals={"lines": "List[str]"},
)

# append_jsonl: suppressed by the feature guard, else captured by the active LogMux, else written through --
# exactly one of the three, never two, never none
PAIRS = "List[Tuple[str, Dict[str, Json]]]"
R.objtype("LogMux", {"_buf": PAIRS}, cls=("clematis/engine/util/logmux.py", "LogMux"))
R.optobj("OptLogMux", "LogMux")
MUXBUF = "ctx_LOG_MUX._buf"
MUX_SAME = "enc_eq(" + MUXBUF + ", old(" + MUXBUF + "))"
NM = "os_basename(filename)"
R.contract(
    LOG + "append_jsonl", ["C16", "C10"], callee=False,
    types={"filename": "str", "record": REC, "feature_guard": "Optional[bool]"},
    ghost=dict(FS_GHOST, ctx_LOG_MUX=("OptLogMux", "any"), rec0=(REC, "any")),
    setup=["rec0 = record"],
    ensures=[
        ("guard-false-suppresses", "implies(feature_guard == False, len(fs_writes) == 0 and len(fs_opens) == 0 and " + MUX_SAME + ")"),
        ("captured-once-when-mux-active-and-not-written",
         "implies(feature_guard != False and present(ctx_LOG_MUX), len(fs_writes) == 0 and len(fs_opens) == 0 and "
         " len(" + MUXBUF + ") == old(len(" + MUXBUF + ")) + 1 and "
         " forall(i, 0 <= i < old(len(" + MUXBUF + ")), enc_eq(" + MUXBUF + "[i], old(" + MUXBUF + ")[i])) and "
         " " + MUXBUF + "[len(" + MUXBUF + ") - 1][0] == filename and "
         " seq_eq(" + MUXBUF + "[len(" + MUXBUF + ") - 1][1], norm_id(" + NM + ", rec0)))"),
        ("written-through-once-when-no-mux",
         "implies(feature_guard != False and not present(ctx_LOG_MUX), len(fs_writes) == 1 and len(fs_opens) == 1 and "
         " fs_opens[0][1] == 'ab' and fs_writes[0][0] == os_join(logs_dir_path(), filename) and "
         # the write-through path normalises twice (append_jsonl, then _append_jsonl_unbuffered); N is idempotent
         " " + W0 + " == " + LEGACY % ("norm_id(" + NM + ", norm_id(" + NM + ", rec0))") + " + '\\n')"),
        ("record-not-mutated", "seq_eq(rec0, old(record))"),
    ],
    raises=["OSError"],
    ensures_exc=[("fails-only-on-write-through",
                  "feature_guard != False and not present(ctx_LOG_MUX) and len(fs_writes) == 0")],
    # defensive handlers: in the model ContextVar.get(), the local import and LogMux.write (a list append) never raise
    unreachable_ok=["mux = None", "pass"],
)

# ------------------------------------------------------------------ clematis/engine/util/logmux.py
MUX = "clematis/engine/util/logmux.py:"
R.contract(MUX + "LogMux.write", ["C16", "C10"], callee=False,
           types={"self": "LogMux", "stream": "str", "obj": REC},
           ensures=[("appended-in-call-order",
                     "len(self._buf) == old(len(self._buf)) + 1 and "
                     "forall(i, 0 <= i < old(len(self._buf)), enc_eq(self._buf[i], old(self._buf)[i])) and "
                     "self._buf[len(self._buf) - 1][0] == stream and enc_eq(self._buf[len(self._buf) - 1][1], obj)")],
           raises="none")
R.contract(MUX + "LogMux.dump", ["C16", "C10"], callee=False,
           types={"self": "LogMux"}, returns=PAIRS,
           ensures=[("copy-in-order", "enc_eq(result, self._buf) and not same_obj(result, self._buf)"),
                    ("buffer-kept", "enc_eq(self._buf, old(self._buf))")],
           raises="none")
R.contract(MUX + "LogMux.clear", ["C16", "C10"], callee=False,
           types={"self": "LogMux"}, ensures=[("emptied", "len(self._buf) == 0")], raises="none")

# flush / write_or_buffer: the writer they call is append_jsonl (verified above); here its calls are recorded
AJ = R.contract(LOG + "append_jsonl", ["C16", "C10"], verify=False, callee=False, name="append_jsonl(assumed)",
                types={"filename": "str", "record": REC, "feature_guard": "Optional[bool]"},
                raises=["OSError"],
                effects=["aj_calls.append((filename, record))"])
R.contract(MUX + "flush", ["C16", "C10"], callee=False,
           types={"pairs": PAIRS},
           ghost={"aj_calls": (PAIRS, "empty")},
           funcs={LOG + "append_jsonl": AJ},
           ensures=[("every-pair-written-once-in-order",
                     "len(aj_calls) == len(pairs) and forall(j, 0 <= j < len(pairs), enc_eq(aj_calls[j], pairs[j]))"),
                    ("pairs-untouched", "enc_eq(pairs, old(pairs))")],
           raises=["OSError"],
           ensures_exc=[("prefix-written-in-order",
                         "len(aj_calls) < len(pairs) and forall(j, 0 <= j < len(aj_calls), enc_eq(aj_calls[j], pairs[j]))")],
           loops={0: {"inv": ["len(aj_calls) == _i", "forall(j, 0 <= j < _i, enc_eq(aj_calls[j], pairs[j]))",
                              "enc_eq(pairs, pre_loop(pairs))"]}})
R.contract(MUX + "write_or_buffer", ["C16", "C10"], callee=False,
           types={"stream": "str", "obj": REC},
           ghost={"aj_calls": (PAIRS, "empty"), "ctx_LOG_MUX": ("OptLogMux", "any")},
           funcs={LOG + "append_jsonl": AJ},
           ensures=[("buffered-xor-written",
                     "ite(present(ctx_LOG_MUX), len(aj_calls) == 0 and len(" + MUXBUF + ") == old(len(" + MUXBUF + ")) + 1 and "
                     "   " + MUXBUF + "[len(" + MUXBUF + ") - 1][0] == stream and enc_eq(" + MUXBUF + "[len(" + MUXBUF + ") - 1][1], obj), "
                     "   len(aj_calls) == 1 and aj_calls[0][0] == stream and enc_eq(aj_calls[0][1], obj) and " + MUX_SAME + ")")],
           raises=["OSError"],
           ensures_exc=[("fails-only-without-mux", "not present(ctx_LOG_MUX) and len(aj_calls) == 0")],
           # defensive handlers: ContextVar.get() and LogMux.write (a list append) never raise in the model
           unreachable_ok=["mux = None", "pass"])

# ------------------------------------------------------------------ clematis/scripts/rotate_logs.py:rotate_one
# PRIVATE, TINY file-name model (not pyvc/fsmodel.py, which is being built for C08): ghost `rfs` maps an existing
# name to the (uninterpreted) thing stored under it; os.path.exists / os.remove are modelled in pyvc/externals.py,
# atomic_replace by the assumed contract below, which follows the real function: on success src is moved over dst;
# on failure (any OSError but FileNotFoundError) its clean-up `tmp_path.unlink()` may already have removed src.
R.untype("Blob")
RFS = {"rfs": ("Dict[str, Un[Blob]]", "any")}
ATR = "clematis/io/atomic.py:atomic_replace"
AR = R.contract(
    ATR, "C16", verify=False, callee=False, name="atomic_replace(assumed)",
    types={"tmp_path": "str", "final_path": "str", "retries": "int", "backoff_ms": "int", "cleanup": "bool"},
    requires=[("src-is-not-dst", "tmp_path != final_path")],
    modifies=["rfs"],
    ensures=[("moved", "old(tmp_path in rfs) and moved_file(rfs, final_path, old(rfs), tmp_path) and not (tmp_path in rfs) "
                       "and forall((p, 'str'), p != tmp_path and p != final_path, same_file(rfs, old(rfs), p))")],
    # PermissionError stands for every OSError that is not a FileNotFoundError (the caller's handlers only
    # distinguish FileNotFoundError)
    raises={"FileNotFoundError": "not (tmp_path in rfs)", "PermissionError": None},
    ensures_exc=[("failed", "forall((p, 'str'), p != tmp_path, same_file(rfs, old(rfs), p)) and "
                            # repaired atomic_replace: the source is unlinked on failure only when cleanup is requested
                            "(same_file(rfs, old(rfs), tmp_path) or (cleanup and not (tmp_path in rfs)))")],
)
# generation names: gname(path, k) is *defined* as f"{path}.{k}" (instances added by the ghost call lemma_gname at the
# points where the code builds such a name); gidx is its left inverse in k -- justified by lemma 'gen_names' below
# (decimal names of different k differ, none equals `path`).  Keeps string reasoning out of the quantified clauses.
R.uf("gname", ["str", "int"], "str")
R.uf("gidx", ["str", "str"], "int")
R.ghostfun("lemma_gname", ["p", "k"], ensures=["gname(p, k) == p + '.' + str(k)"])
AX_GNAME = ["forall(k, True, gidx(path, gname(path, k)) == k and gname(path, k) != path)"]


def _gen_names_lemma():
    import z3
    p = z3.String("p")
    j, k = z3.Ints("j k")

    def dec(e):      # python str(int)
        return z3.If(e >= 0, z3.IntToStr(e), z3.Concat(z3.StringVal("-"), z3.IntToStr(-e)))

    def nm(e):
        return z3.Concat(p, z3.StringVal("."), dec(e))
    return [("distinct-generations-have-distinct-names", [j != k], nm(j) != nm(k)),
            ("no-generation-is-named-like-the-live-log", [], nm(k) != p)]


R.lemma("gen_names", "C16", _gen_names_lemma)

G = "gname(path, %s)"
ACTIVE = "(backups >= 1 and not dry_run)"
ALL_SAME = "forall((p, 'str'), True, same_file(rfs, old(rfs), p))"
OTHER = "p != path and not is_gen(path, backups, p)"
GG = "ite(k == 0, path, " + G % "k" + ")"
GG1 = G % "(k + 1)"
ROT_EXC = [
    ("live-log-survives-a-failed-rotation",
     "implies(old(path in rfs), (path in rfs and rfs[path] == old(rfs)[path]) or "
     " (" + G % "1" + " in rfs and rfs[" + G % "1" + "] == old(rfs)[path]))"),
    ("no-generation-but-the-oldest-lost",
     "forall(k, 0 <= k and k < backups, implies(old(" + GG + " in rfs), "
     " (" + GG + " in rfs and rfs[" + GG + "] == old(rfs)[" + GG + "]) or "
     " (" + GG1 + " in rfs and rfs[" + GG1 + "] == old(rfs)[" + GG + "])))"),
]
R.contract(
    "clematis/scripts/rotate_logs.py:rotate_one", "C16", callee=False,
    types={"path": "str", "backups": "int", "dry_run": "bool"},
    ghost=RFS,
    funcs={ATR: AR},
    axioms=AX_GNAME,
    setup=["lemma_gname(path, 1)"],      # the last step builds f"{path}.1" inline
    asserts={"oldest": ["define:" + G % "backups" + " := path + '.' + str(backups)"],
             "src": ["define:" + G % "k" + " := path + '.' + str(k)"],
             "dst": ["define:" + G % "(k + 1)" + " := path + '.' + str(k + 1)"]},
    ensures=[
        ("disabled-or-dry-run-changes-nothing", "implies(not " + ACTIVE + ", " + ALL_SAME + ")"),
        ("returns-whether-live-log-existed", "result == (backups >= 1 and old(path in rfs))"),
        ("generations-shift-by-one-oldest-dropped",
         "implies(" + ACTIVE + ", forall(k, 1 <= k and k < backups, moved_file(rfs, " + GG1 + ", old(rfs), " + G % "k" + ")))"),
        ("live-log-becomes-generation-1",
         "implies(" + ACTIVE + ", moved_file(rfs, " + G % "1" + ", old(rfs), path) and not (path in rfs))"),
        ("nothing-else-touched",
         "implies(" + ACTIVE + ", forall((p, 'str'), " + OTHER + ", same_file(rfs, old(rfs), p)))"),
    ],
    raises=["OSError"],
    # exceptional exits (a failing OS call interrupts the rotation): see the concrete-N variants below -- with the
    # loop invariants in the path condition the solver reaches no verdict on those clauses (neither proof nor model)
    loops={0: {"modifies": ["rfs"], "inv": [
        "backups >= 1",
        "implies(dry_run, " + ALL_SAME + ")",
        "implies(not dry_run, not (" + G % "(backups - _i)" + " in rfs))",
        "implies(not dry_run, forall(j, backups - _i <= j and j < backups, moved_file(rfs, " + G % "(j + 1)" + ", old(rfs), " + G % "j" + ")))",
        "implies(not dry_run, forall(j, 1 <= j and j < backups - _i, same_file(rfs, old(rfs), " + G % "j" + ")))",
        "implies(not dry_run, same_file(rfs, old(rfs), path))",
        "implies(not dry_run, forall((p, 'str'), " + OTHER + ", same_file(rfs, old(rfs), p)))",
    ]}},
    # the FileNotFoundError handlers guard against a concurrent deletion between exists() and the OS call; the
    # sequential name-space model has no such race
    unreachable_ok=["pass"],
)

# interruption by a failing OS call, for N = 1 and N = 2 kept generations (loop runs concretely, no invariants):
# every generation but the oldest must still be there, under its old name or under the next one.
# (Before the repair in /repo -- fix: "log rotation deleted the live log ..." -- these clauses failed: atomic_replace
# "cleans up the temp file on failure", and here the "temp" is the live log / a kept generation.)
ROT = R.contracts.get("clematis/scripts/rotate_logs.py:rotate_one")
for _n in (1, 2):
    R.contract(
        "clematis/scripts/rotate_logs.py:rotate_one", "C16", callee=False, name="rotate_one[backups=%d]" % _n,
        types={"path": "str", "backups": "=%d" % _n, "dry_run": "=False"},
        # no quantified axiom about gname here (the solver must be able to build counter-models): the ground
        # definitions of the N names suffice, the string solver separates them
        ghost=RFS, funcs={ATR: AR}, setup=["lemma_gname(path, %d)" % (j + 1) for j in range(_n)],
        asserts={"oldest": ["define:" + G % "backups" + " := path + '.' + str(backups)"],
                 "src": ["define:" + G % "k" + " := path + '.' + str(k)"],
                 "dst": ["define:" + G % "(k + 1)" + " := path + '.' + str(k + 1)"]},
        raises=["OSError"],
        ensures_exc=ROT_EXC,
        unreachable_ok=["pass", "print(", "if dry_run:", "return False"] + (["for k in range", "src = ", "dst = ", "if os.path.exists(src)"] if _n == 1 else []),
    )
