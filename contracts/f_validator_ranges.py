"""The validator ranges that other contracts cite as preconditions ("validator-range(s)") are enforced by the validator.

Several contracts are proved under `requires=[("validator-range", ...)]`: the properties quantify over configurations
*accepted by the validator*, so those ranges are legitimate preconditions only as long as configs/validate.py really
rejects everything outside them.  One Engine-F obligation per cited range: the normaliser contains the rejection
`_err(errors, "<path>", "<message>")` with the stated bound in its message, guarded by a comparison on that key.  A change
that loosens one of these checks fails here (registered for the citing property and for C14)."""
import ast
from pyvc.verifier import REG as R
from pyvc.effects import result

IMPL = "configs/validate.py:_validate_config_normalize_impl"
# (citing properties, config path as used in the validator's message, bound text in the message)
CITED = [
    (["C03"], "t4.delta_norm_cap_l2", "> 0"),
    (["C03"], "t4.novelty_cap_per_node", "(0, 1]"),
    (["C03"], "t4.churn_cap_edges", ">= 0"),
    (["C09", "C11"], "t2.k_retrieval", ">= 1"),
    (["C11"], "t2.clusters_top_m", ">= 0"),
    (["C11"], "t2.sim_threshold", "[-1.0, 1.0]"),
    (["C18"], "graph.coactivation_threshold", "[0, 1]"),
    (["C18"], "graph.observe_top_k", ">= 1"),
    (["C18"], "graph.pair_cap_per_obs", ">= 0"),
    (["C18"], "graph.update.mode", "{additive,proportional}"),
    (["C18"], "graph.update.alpha", "> 0"),
    (["C18"], "graph.update.clamp_min/clamp_max", "clamp_min < clamp_max"),
    (["C18"], "graph.decay.half_life_turns", ">= 1"),
    (["C18"], "graph.decay.floor", ">= 0"),
    (["C18"], "graph.promotion.attach_weight", "[-1, 1]"),
    (["C18"], "graph.promotion.topk_label_ids", ">= 1"),
    (["C13"], "t3.max_ops_per_turn", "[1, 16]"),
    (["C15"], "t1.cache.max_entries", ">= 0"),
    (["C15"], "t2.cache.max_entries", ">= 0"),
]


def _err_calls(func):
    out = []
    parents = {}
    for n in ast.walk(func):
        for ch in ast.iter_child_nodes(n):
            parents[id(ch)] = n
    for n in ast.walk(func):
        if isinstance(n, ast.Call) and getattr(n.func, "id", None) == "_err" and len(n.args) >= 3:
            p, m = n.args[1], n.args[2]
            paths = []
            if isinstance(p, ast.Constant):
                paths = [p.value]
            elif isinstance(p, ast.JoinedStr) and p.values and isinstance(p.values[0], ast.Constant):
                # f"t2.{_k}" inside `for _k, _d in (("a", 1), ("b", 2))`: one path per string constant of the loop's iterable
                prefix = p.values[0].value
                q = parents.get(id(n))
                while q is not None and q is not func and not isinstance(q, ast.For):
                    q = parents.get(id(q))
                if isinstance(q, ast.For):
                    paths = [prefix + c.value for c in ast.walk(q.iter) if isinstance(c, ast.Constant) and isinstance(c.value, str)]
            msg = m.value if isinstance(m, ast.Constant) else ast.unparse(m)
            # enclosing `if` (the rejection must be conditional on a test, not dead or unconditional)
            q = parents.get(id(n))
            guarded = False
            while q is not None and q is not func:
                if isinstance(q, ast.If):
                    guarded = True
                    break
                q = parents.get(id(q))
            for path in paths:
                out.append((path, str(msg), guarded, n.lineno))
    return out


def range_is_enforced(cl, mod, cls, func):
    path, bound = cl["cfg_path"], cl["bound"]
    hits = [(p, m, g, ln) for p, m, g, ln in _err_calls(func)
            if p is not None and (p == path or (isinstance(p, str) and path in p)) and bound in m]
    if not hits:
        return [result(cl["name"], "failed", "the validator no longer rejects %s outside %r (no `_err(errors, %r, '...%s...')` in the normaliser): "
                       "contracts that cite this range as a precondition are not justified" % (path, bound, path, bound))]
    if not any(g for _p, _m, g, _l in hits):
        return [result(cl["name"], "failed", "the rejection of %s is not guarded by a test (line %d)" % (path, hits[0][3]))]
    return [result(cl["name"], "proved", where="line %d" % hits[0][3])]


for _props, _path, _bound in CITED:
    R.fclause(sorted(set(_props + ["C14"])), "validator-range-enforced:%s" % _path, "custom", IMPL, fn=range_is_enforced,
              cfg_path=_path, bound=_bound)
