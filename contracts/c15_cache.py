"""C15: TTL/LRU caches of clematis/engine/cache.py (_NamespaceCache, LRUCache, CacheManager, lock wrappers, merge).

Model
 * `_d` is the engine's insertion-ordered map (`OrderedDict[K, V]`): `okeys(d)` (= list(d.keys())) is the recency
   order, oldest first; `opos(d, k)` the position of key k in it (spec builtin added to pyvc/builtins.py).
 * `_Entry` is a record (ts: real, value).  `time_fn` is a function-typed field whose contract returns the ghost
   `now` (= the clock reading of this operation; every operation reads the clock at most once, so one ghost value per
   operation is exact; nothing is assumed about `now` relative to stored timestamps, i.e. all clock advances incl.
   backwards are covered).
 * capacity precondition `_max >= 0` comes from the configuration validator; for `_max < 0` a separate contract
   states what the code does (every `set` empties the dict and raises KeyError from popitem on the empty dict).
"""
import ast
from pyvc.verifier import REG as R
from pyvc.effects import result as fresult

CACHE = "clematis/engine/cache.py:"
NS = CACHE + "_NamespaceCache."

R.untype("K")
R.untype("V")
R.record("_Entry", {"ts": "float", "value": "Un[V]"})
R.funtype("ClockFn", params=[], returns="float", ensures=[("reads-now", "result == now")])
R.objtype("NsCache", {"_max": "int", "_ttl": "int", "_time": "ClockFn", "_d": "OrderedDict[Un[K], _Entry]"},
          cls=("clematis/engine/cache.py", "_NamespaceCache"))

GHOST_NOW = {"now": ("float", "any")}
FRAME_CFG = ("frame-config", "self._max == old(self._max) and self._ttl == old(self._ttl)")
OLDKEYS = "old(okeys(self._d))"
N1 = "(old(len(self._d)) + ite(old(key in self._d), 0, 1))"      # size right after the store, before eviction

# ------------------------------------------------------------------ _evict_over_cap
R.contract(
    NS + "_evict_over_cap", "C15",
    types={"self": "NsCache"},
    returns="int",
    # no precondition: a negative capacity (rejected by the config validator) is covered by the exceptional clause
    raises={"KeyError": "self._max < 0"},
    ensures_exc=[("negative-cap-empties-then-raises", "len(self._d) == 0"), FRAME_CFG],
    ensures=[
        ("returns-only-for-nonneg-cap", "self._max >= 0"),
        ("count-exact", "result == ite(old(len(self._d)) > self._max, old(len(self._d)) - self._max, 0)"),
        ("size-within-cap", "len(self._d) <= self._max and len(self._d) == old(len(self._d)) - result"),
        ("evicts-oldest-first", "suffix_from(okeys(self._d), " + OLDKEYS + ", result)"),
        ("survivors-unchanged", "same_entries(self._d, old(self._d))"),
        FRAME_CFG,
    ],
    modifies=["self._d"],
    loops={0: {"inv": [
        "ev >= 0",
        "len(self._d) == len(pre_loop(self._d)) - ev",
        "implies(ev > 0, len(self._d) >= self._max)",
        "forall(i, 0 <= i < len(self._d), okeys(self._d)[i] == pre_loop(okeys(self._d))[i + ev])",
        "same_entries(self._d, pre_loop(self._d))",
    ]}},
    locals={"ev": "int"},
)

# ------------------------------------------------------------------ get
R.contract(
    NS + "get", "C15",
    types={"self": "NsCache", "key": "Un[K]"},
    returns="Tuple[bool, Optional[Un[V]]]",
    ghost=GHOST_NOW,
    ensures=[
        ("inv-preserved", "implies(old(wf_nscache(self)), wf_nscache(self))"),
        ("hit-iff-present-and-fresh",
         "result[0] == (old(key in self._d) and ttl_fresh(self._ttl, now, old(self._d)[key].ts))"),
        ("hit-value", "implies(result[0], result[1] == old(self._d)[key].value)"),
        ("miss-none", "implies(not result[0], is_none(result[1]))"),
        ("absent-noop", "implies(not old(key in self._d), same_omap(self._d, old(self._d)))"),
        ("expired-removed",
         "implies(old(key in self._d) and not result[0], not (key in self._d) and "
         " len(self._d) == old(len(self._d)) - 1 and same_entries(self._d, old(self._d)) and "
         " removed_at(okeys(self._d), " + OLDKEYS + ", opos(old(self._d), key)))"),
        ("hit-moves-to-newest",
         "implies(result[0], seq_eq(self._d, old(self._d)) and "
         " moved_to_end_at(okeys(self._d), " + OLDKEYS + ", opos(old(self._d), key)) and "
         " okeys(self._d)[len(self._d) - 1] == key)"),
        ("never-grows", "len(self._d) <= old(len(self._d))"),
        FRAME_CFG,
    ],
    raises="none",
    modifies=["self._d"],
)

# ------------------------------------------------------------------ set
R.contract(
    NS + "set", "C15",
    types={"self": "NsCache", "key": "Un[K]", "value": "Un[V]"},
    returns="int",
    ghost=GHOST_NOW,
    raises={"KeyError": "self._max < 0"},
    ensures_exc=[("negative-cap-empties-then-raises", "len(self._d) == 0"), FRAME_CFG],
    ensures=[
        ("returns-only-for-nonneg-cap", "self._max >= 0"),
        ("size-within-cap", "len(self._d) <= self._max"),
        ("inv-preserved", "wf_nscache(self)"),
        ("evicted-count-exact", "result == ite(" + N1 + " > self._max, " + N1 + " - self._max, 0) and "
                                "len(self._d) == " + N1 + " - result"),
        ("stored-newest-with-clock-stamp",
         "implies(self._max > 0, key in self._d and self._d[key].ts == now and self._d[key].value == value and "
         " okeys(self._d)[len(self._d) - 1] == key)"),
        ("zero-cap-nothing-retained", "implies(self._max == 0, len(self._d) == 0 and result == " + N1 + ")"),
        ("evicts-oldest-first/new-key",
         "implies(not old(key in self._d), "
         " forall(i, 0 <= i < len(self._d) - 1, okeys(self._d)[i] == " + OLDKEYS + "[i + result]))"),
        ("evicts-oldest-first/refreshed-key",
         "implies(old(key in self._d), "
         " forall(i, 0 <= i < len(self._d) - 1, okeys(self._d)[i] == "
         "   ite(i + result < opos(old(self._d), key), " + OLDKEYS + "[i + result], " + OLDKEYS + "[i + result + 1])))"),
        ("survivors-unchanged",
         "forall((k, 'Un[K]'), k in self._d and k != key, old(k in self._d) and self._d[k] == old(self._d)[k])"),
        ("at-most-one-evicted-from-wf-state",
         "implies(old(len(self._d)) <= self._max, "
         " result == ite(not old(key in self._d) and old(len(self._d)) == self._max, 1, 0))"),
        FRAME_CFG,
    ],
    modifies=["self._d"],
)

# ------------------------------------------------------------------ invalidate / size / items
R.contract(
    NS + "invalidate", "C15",
    types={"self": "NsCache"},
    returns="int",
    ensures=[("count-exact", "result == old(len(self._d))"), ("emptied", "len(self._d) == 0"),
             ("inv-preserved", "implies(old(wf_nscache(self)), wf_nscache(self))"), FRAME_CFG],
    raises="none",
    modifies=["self._d"],
)

R.contract(
    NS + "size", "C15",
    types={"self": "NsCache"},
    returns="int",
    ensures=[("exact", "result == len(self._d)"),
             ("within-cap", "implies(wf_nscache(self), result <= self._max)"),
             ("pure", "same_omap(self._d, old(self._d))"), FRAME_CFG],
    raises="none",
)

R.contract(
    NS + "items", "C15",
    types={"self": "NsCache"},
    returns="List[Tuple[Un[K], Un[V]]]",
    ensures=[("lists-all-oldest-first",
              "len(result) == len(self._d) and "
              "forall(i, 0 <= i < len(result), result[i][0] == okeys(self._d)[i] and "
              " result[i][1] == self._d[okeys(self._d)[i]].value)"),
             ("pure", "same_omap(self._d, old(self._d))"), FRAME_CFG],
    raises="none",
)

R.contract(
    NS + "__init__", "C15", callee=False,     # constructors are interpreted inline by their callers
    types={"self": "NsCache", "max_entries": "int", "ttl_sec": "int", "time_fn": "ClockFn"},
    ensures=[("starts-empty", "len(self._d) == 0"),
             ("config-stored", "self._max == max_entries and self._ttl == ttl_sec"),
             ("inv-established", "implies(max_entries >= 0, wf_nscache(self))")],
    raises="none",
)


# ------------------------------------------------------------------ shared clause generators (LRUCache / CacheManager)
def hit_expr(P):
    return "(old(key in %s._d) and ttl_fresh(%s._ttl, now, old(%s._d)[key].ts))" % (P, P, P)


def counters_same(o="self"):
    return ("counters-untouched", "%s._hits == old(%s._hits) and %s._misses == old(%s._misses) and "
                                  "%s._evicted == old(%s._evicted)" % (o, o, o, o, o, o))


def frame_cfg(P):
    return ("frame-config", "%s._max == old(%s._max) and %s._ttl == old(%s._ttl)" % (P, P, P, P))


def lookup_clauses(P):
    """clauses of a counted lookup through the namespace object at spec path P"""
    H = hit_expr(P)
    return [
        ("inv-preserved", "wf_nscache(%s)" % P),
        ("counters-exact", "self._hits == old(self._hits) + ite(%s, 1, 0) and "
                           "self._misses == old(self._misses) + ite(%s, 0, 1) and self._evicted == old(self._evicted)" % (H, H)),
        ("expired-removed",
         "implies(old(key in %s._d) and not %s, not (key in %s._d) and len(%s._d) == old(len(%s._d)) - 1 and "
         " same_entries(%s._d, old(%s._d)) and removed_at(okeys(%s._d), old(okeys(%s._d)), opos(old(%s._d), key)))" % (
             P, H, P, P, P, P, P, P, P, P)),
        ("hit-moves-to-newest",
         "implies(%s, seq_eq(%s._d, old(%s._d)) and "
         " moved_to_end_at(okeys(%s._d), old(okeys(%s._d)), opos(old(%s._d), key)))" % (H, P, P, P, P, P)),
        ("absent-noop", "implies(not old(key in %s._d), same_omap(%s._d, old(%s._d)))" % (P, P, P)),
        frame_cfg(P),
    ]


def store_clauses(P):
    n1 = "(old(len(%s._d)) + ite(old(key in %s._d), 0, 1))" % (P, P)
    ev = "ite(not old(key in %s._d) and old(len(%s._d)) == %s._max, 1, 0)" % (P, P, P)
    return [
        ("inv-preserved", "wf_nscache(%s)" % P),
        ("size-within-cap", "len(%s._d) <= %s._max and len(%s._d) == %s - %s" % (P, P, P, n1, ev)),
        ("counters-exact", "self._evicted == old(self._evicted) + %s and self._hits == old(self._hits) and "
                           "self._misses == old(self._misses)" % ev),
        ("stored-newest-with-clock-stamp",
         "implies(%s._max > 0, key in %s._d and %s._d[key].ts == now and %s._d[key].value == value and "
         " okeys(%s._d)[len(%s._d) - 1] == key)" % (P, P, P, P, P, P)),
        ("zero-cap-nothing-retained", "implies(%s._max == 0, len(%s._d) == 0)" % (P, P)),
        ("evicts-oldest-first/new-key",
         "implies(not old(key in %s._d), forall(i, 0 <= i < len(%s._d) - 1, "
         " okeys(%s._d)[i] == old(okeys(%s._d))[i + %s]))" % (P, P, P, P, ev)),
        ("refresh-evicts-nothing",
         "implies(old(key in %s._d), forall(i, 0 <= i < len(%s._d) - 1, okeys(%s._d)[i] == "
         " ite(i < opos(old(%s._d), key), old(okeys(%s._d))[i], old(okeys(%s._d))[i + 1])))" % (P, P, P, P, P, P)),
        ("survivors-unchanged",
         "forall((k, 'Un[K]'), k in %s._d and k != key, old(k in %s._d) and %s._d[k] == old(%s._d)[k])" % (P, P, P, P)),
        frame_cfg(P),
    ]


# ------------------------------------------------------------------ CacheManager._hashable_or_stable
R.contract(
    CACHE + "CacheManager._hashable_or_stable", "C15",
    types={"key": "Un[K]"},
    returns="Un[K]",
    ensures=[("hashable-key-is-its-own-cache-key", "result == key")],
    raises="none",
    # K stands for hashable keys; the json.dumps fallback for unhashable keys (lists/dicts) is not modelled
    unreachable_ok=["return stable_key(key)"],
)

# ------------------------------------------------------------------ LRUCache (shim over one _NamespaceCache)
LC = CACHE + "LRUCache."
R.objtype("LRUCacheT", {"_ns": "NsCache", "_hits": "int", "_misses": "int", "_evicted": "int"},
          cls=("clematis/engine/cache.py", "LRUCache"))
P1 = "self._ns"
H1 = hit_expr(P1)
WF1 = [("wf", "wf_nscache(self._ns)")]

R.contract(
    LC + "get", "C15",
    types={"self": "LRUCacheT", "key": "Un[K]"},
    returns="Optional[Un[V]]",
    ghost=GHOST_NOW,
    requires=WF1,
    ensures=[("hit-iff-present-and-fresh", "(not is_none(result)) == " + H1),
             ("hit-value", "implies(" + H1 + ", some(result) == old(self._ns._d)[key].value)")] + lookup_clauses(P1),
    raises="none",
)
R.contract(
    LC + "get2", "C15",
    types={"self": "LRUCacheT", "key": "Un[K]"},
    returns="Tuple[bool, Optional[Un[V]]]",
    ghost=GHOST_NOW,
    requires=WF1,
    ensures=[("hit-iff-present-and-fresh", "result[0] == " + H1),
             ("hit-value", "implies(" + H1 + ", result[1] == old(self._ns._d)[key].value)"),
             ("miss-none", "implies(not result[0], is_none(result[1]))")] + lookup_clauses(P1),
    raises="none",
)
for _m in ("set", "put"):
    R.contract(
        LC + _m, "C15",
        types={"self": "LRUCacheT", "key": "Un[K]", "value": "Un[V]"},
        ghost=GHOST_NOW,
        requires=WF1,
        ensures=store_clauses(P1),
        raises="none",
    )
R.contract(
    LC + "__contains__", "C15",
    types={"self": "LRUCacheT", "key": "Un[K]"},
    returns="bool",
    ghost=GHOST_NOW,
    requires=WF1,
    ensures=[
        ("inv-preserved", "wf_nscache(self._ns)"),
        ("true-iff-present-and-fresh", "result == " + H1),
        ("live-entry-order-untouched",
         "implies(result or not old(key in self._ns._d), same_omap(self._ns._d, old(self._ns._d)))"),
        ("expired-removed",
         "implies(old(key in self._ns._d) and not result, not (key in self._ns._d) and "
         " same_entries(self._ns._d, old(self._ns._d)) and "
         " removed_at(okeys(self._ns._d), old(okeys(self._ns._d)), opos(old(self._ns._d), key)))"),
        counters_same(), frame_cfg(P1),
    ],
    raises="none",
)
R.contract(
    LC + "invalidate", "C15",
    types={"self": "LRUCacheT"},
    returns="int",
    ensures=[("count-exact", "result == old(len(self._ns._d))"), ("emptied", "len(self._ns._d) == 0"),
             counters_same(), frame_cfg(P1)],
    raises="none",
)
for _m in ("size", "__len__"):
    R.contract(
        LC + _m, "C15",
        types={"self": "LRUCacheT"},
        returns="int",
        requires=WF1,
        ensures=[("exact", "result == len(self._ns._d)"), ("within-cap", "result <= self._ns._max"),
                 ("pure", "same_omap(self._ns._d, old(self._ns._d))")],
        raises="none",
    )
R.contract(
    LC + "stats", "C15",
    types={"self": "LRUCacheT"},
    ensures=[("reports-counters", "result['hits'] == self._hits and result['misses'] == self._misses and "
                                  "result['evicted'] == self._evicted and result['size'] == len(self._ns._d)"),
             ("pure", "same_omap(self._ns._d, old(self._ns._d))"), counters_same()],
    raises="none",
)
R.contract(
    LC + "items", "C15",
    types={"self": "LRUCacheT"},
    returns="List[Tuple[Un[K], Un[V]]]",
    ghost=GHOST_NOW,
    requires=WF1,
    ensures=[
        ("inv-preserved", "wf_nscache(self._ns)"),
        ("keeps-exactly-the-fresh-entries",
         "forall((k, 'Un[K]'), True, (k in self._ns._d) == (old(k in self._ns._d) and "
         " ttl_fresh(self._ns._ttl, now, old(self._ns._d)[k].ts)))"),
        ("survivors-unchanged", "same_entries(self._ns._d, old(self._ns._d))"),
        ("order-preserved",
         "forall2(a, b, 0 <= a and a < b and b < len(self._ns._d), "
         " opos(old(self._ns._d), okeys(self._ns._d)[a]) < opos(old(self._ns._d), okeys(self._ns._d)[b]))"),
        ("lists-survivors-oldest-first",
         "len(result) == len(self._ns._d) and forall(i, 0 <= i < len(result), "
         " result[i][0] == okeys(self._ns._d)[i] and result[i][1] == self._ns._d[okeys(self._ns._d)[i]].value)"),
        counters_same(), frame_cfg(P1),
    ],
    raises="none",
    loops={0: {"inv": [
        "ttl == self._ns._ttl and self._ns._max >= 0",
        "len(_iter) == len(pre_loop(self._ns._d))",
        "forall(j, 0 <= j < len(_iter), _iter[j][0] == pre_loop(okeys(self._ns._d))[j] and "
        " _iter[j][0] in pre_loop(self._ns._d) and _iter[j][1] == pre_loop(self._ns._d)[_iter[j][0]])",
        "len(self._ns._d) == len(out) + len(_iter) - _i and len(out) <= _i",
        "forall(j, 0 <= j < len(out), okeys(self._ns._d)[j] == out[j][0] and out[j][1] == self._ns._d[out[j][0]].value)",
        "forall(j, len(out) <= j < len(self._ns._d), okeys(self._ns._d)[j] == _iter[j - len(out) + _i][0])",
        "same_entries(self._ns._d, pre_loop(self._ns._d))",
        "forall(j, 0 <= j < len(out), ttl_fresh(ttl, now, self._ns._d[okeys(self._ns._d)[j]].ts))",
        "forall((k, 'Un[K]'), k in pre_loop(self._ns._d) and not (k in self._ns._d), "
        " not ttl_fresh(ttl, now, pre_loop(self._ns._d)[k].ts))",
        "forall2(a, b, 0 <= a and a < b and b < len(self._ns._d), "
        " opos(pre_loop(self._ns._d), okeys(self._ns._d)[a]) < opos(pre_loop(self._ns._d), okeys(self._ns._d)[b]))",
    ]}},
    locals={"out": "List[Tuple[Un[K], Un[V]]]"},
)
R.contract(
    LC + "__init__", "C15",
    types={"self": "LRUCacheT", "max_entries": "int", "ttl_s": "Optional[int]", "ttl_sec": "Optional[int]",
           "ttl": "Optional[int]", "capacity": "Optional[int]", "time_fn": "ClockFn", "_kwargs": "={}"},
    ensures=[
        ("capacity-prefers-explicit", "self._ns._max == ite(is_none(capacity), max_entries, some(capacity))"),
        ("ttl-precedence", "self._ns._ttl == ite(not is_none(ttl), some(ttl), ite(not is_none(ttl_sec), some(ttl_sec), "
                           "ite(not is_none(ttl_s), some(ttl_s), 600)))"),
        ("starts-empty-zero-counters",
         "len(self._ns._d) == 0 and self._hits == 0 and self._misses == 0 and self._evicted == 0"),
        ("inv-established", "implies(self._ns._max >= 0, wf_nscache(self._ns))"),
    ],
    raises="none",
)

