"""C15: TTL/LRU caches of clematis/engine/cache.py (_NamespaceCache, LRUCache, CacheManager, lock wrappers, merge).

Model
 * `_d` is the engine's insertion-ordered map (`OrderedDict[K, V]`): `okeys(d)` (= list(d.keys())) is the recency
   order, oldest first; `opos(d, k)` the position of key k in it (spec builtin added to pyvc/builtins.py).
 * `_Entry` is a record (ts: real, value).  `time_fn` is a function-typed field whose contract returns the ghost
   `now` (= the clock reading of this operation; every operation reads the clock at most once, so one ghost value per
   operation is exact; nothing is assumed about `now` relative to stored timestamps, i.e. all clock advances incl.
   backwards are covered).
 * capacity precondition `_max >= 0` comes from the configuration validator; for `_max < 0` a separate contract
   states what the code does (every `set` empties the dict and raises KeyError from popitem on the empty dict).
"""
import ast
from pyvc.verifier import REG as R
from pyvc.effects import result as fresult

CACHE = "clematis/engine/cache.py:"
NS = CACHE + "_NamespaceCache."

R.untype("K")
R.untype("V")
R.record("_Entry", {"ts": "float", "value": "Un[V]"})
R.funtype("ClockFn", params=[], returns="float", ensures=[("reads-now", "result == now")])
R.objtype("_NamespaceCache", {"_max": "int", "_ttl": "int", "_time": "ClockFn", "_d": "OrderedDict[Un[K], _Entry]"},
          cls=("clematis/engine/cache.py", "_NamespaceCache"))

GHOST_NOW = {"now": ("float", "any")}
FRAME_CFG = ("frame-config", "self._max == old(self._max) and self._ttl == old(self._ttl)")
OLDKEYS = "old(okeys(self._d))"
N1 = "(old(len(self._d)) + ite(old(key in self._d), 0, 1))"      # size right after the store, before eviction

# ------------------------------------------------------------------ _evict_over_cap
R.contract(
    NS + "_evict_over_cap", "C15",
    types={"self": "_NamespaceCache"},
    returns="int",
    # no precondition: a negative capacity (rejected by the config validator) is covered by the exceptional clause
    raises={"KeyError": "self._max < 0"},
    ensures_exc=[("negative-cap-empties-then-raises", "len(self._d) == 0"), FRAME_CFG],
    ensures=[
        ("returns-only-for-nonneg-cap", "self._max >= 0"),
        ("count-exact", "result == ite(old(len(self._d)) > self._max, old(len(self._d)) - self._max, 0)"),
        ("size-within-cap", "len(self._d) <= self._max and len(self._d) == old(len(self._d)) - result"),
        ("evicts-oldest-first", "suffix_from(okeys(self._d), " + OLDKEYS + ", result)"),
        ("evicted-exactly-the-oldest",
         "forall((k, 'Un[K]'), True, (k in self._d) == (old(k in self._d) and opos(old(self._d), k) >= result))"),
        ("survivors-unchanged", "same_entries(self._d, old(self._d))"),
        FRAME_CFG,
    ],
    modifies=["self._d"],
    loops={0: {"inv": [
        "forall((k, 'Un[K]'), True, (k in self._d) == (k in pre_loop(self._d) and opos(pre_loop(self._d), k) >= ev))",
        "ev >= 0",
        "len(self._d) == len(pre_loop(self._d)) - ev",
        "implies(ev > 0, len(self._d) >= self._max)",
        "forall(i, 0 <= i < len(self._d), okeys(self._d)[i] == pre_loop(okeys(self._d))[i + ev])",
        "same_entries(self._d, pre_loop(self._d))",
    ]}},
    locals={"ev": "int"},
)

# ------------------------------------------------------------------ get
R.contract(
    NS + "get", "C15",
    types={"self": "_NamespaceCache", "key": "Un[K]"},
    returns="Tuple[bool, Optional[Un[V]]]",
    ghost=GHOST_NOW,
    ensures=[
        ("inv-preserved", "implies(old(wf_nscache(self)), wf_nscache(self))"),
        ("hit-iff-present-and-fresh",
         "result[0] == (old(key in self._d) and ttl_fresh(self._ttl, now, old(self._d)[key].ts))"),
        ("hit-value", "implies(result[0], result[1] == old(self._d)[key].value)"),
        ("miss-none", "implies(not result[0], is_none(result[1]))"),
        ("absent-noop", "implies(not old(key in self._d), same_omap(self._d, old(self._d)))"),
        ("expired-removed",
         "implies(old(key in self._d) and not result[0], not (key in self._d) and "
         " len(self._d) == old(len(self._d)) - 1 and same_entries(self._d, old(self._d)) and "
         " removed_at(okeys(self._d), " + OLDKEYS + ", opos(old(self._d), key)))"),
        ("hit-moves-to-newest",
         "implies(result[0], seq_eq(self._d, old(self._d)) and "
         " moved_to_end_at(okeys(self._d), " + OLDKEYS + ", opos(old(self._d), key)) and "
         " okeys(self._d)[len(self._d) - 1] == key)"),
        ("never-grows", "len(self._d) <= old(len(self._d))"),
        FRAME_CFG,
    ],
    raises="none",
    modifies=["self._d"],
)

# ------------------------------------------------------------------ set
R.contract(
    NS + "set", "C15",
    types={"self": "_NamespaceCache", "key": "Un[K]", "value": "Un[V]"},
    returns="int",
    ghost=GHOST_NOW,
    raises={"KeyError": "self._max < 0"},
    ensures_exc=[("negative-cap-empties-then-raises", "len(self._d) == 0"), FRAME_CFG],
    ensures=[
        ("returns-only-for-nonneg-cap", "self._max >= 0"),
        ("size-within-cap", "len(self._d) <= self._max"),
        ("inv-preserved", "wf_nscache(self)"),
        ("evicted-count-exact", "result == ite(" + N1 + " > self._max, " + N1 + " - self._max, 0) and "
                                "len(self._d) == " + N1 + " - result"),
        ("stored-newest-with-clock-stamp",
         "implies(self._max > 0, key in self._d and self._d[key].ts == now and self._d[key].value == value and "
         " okeys(self._d)[len(self._d) - 1] == key)"),
        ("zero-cap-nothing-retained", "implies(self._max == 0, len(self._d) == 0 and result == " + N1 + ")"),
        ("evicts-oldest-first/new-key",
         "implies(not old(key in self._d), "
         " forall(i, 0 <= i < len(self._d) - 1, okeys(self._d)[i] == " + OLDKEYS + "[i + result]))"),
        ("evicts-oldest-first/refreshed-key",
         "implies(old(key in self._d), "
         " forall(i, 0 <= i < len(self._d) - 1, okeys(self._d)[i] == "
         "   ite(i + result < opos(old(self._d), key), " + OLDKEYS + "[i + result], " + OLDKEYS + "[i + result + 1])))"),
        ("survivors-unchanged",
         "forall((k, 'Un[K]'), k in self._d and k != key, old(k in self._d) and self._d[k] == old(self._d)[k])"),
        ("at-most-one-evicted-from-wf-state",
         "implies(old(len(self._d)) <= self._max, "
         " result == ite(not old(key in self._d) and old(len(self._d)) == self._max, 1, 0))"),
        FRAME_CFG,
    ],
    modifies=["self._d"],
)

# ------------------------------------------------------------------ invalidate / size / items
R.contract(
    NS + "invalidate", "C15",
    types={"self": "_NamespaceCache"},
    returns="int",
    ensures=[("count-exact", "result == old(len(self._d))"), ("emptied", "len(self._d) == 0"),
             ("inv-preserved", "implies(old(wf_nscache(self)), wf_nscache(self))"), FRAME_CFG],
    raises="none",
    modifies=["self._d"],
)

R.contract(
    NS + "size", "C15",
    modifies=[],
    types={"self": "_NamespaceCache"},
    returns="int",
    ensures=[("exact", "result == len(self._d)"),
             ("within-cap", "implies(wf_nscache(self), result <= self._max)"),
             ("pure", "same_omap(self._d, old(self._d))"), FRAME_CFG],
    raises="none",
)

R.contract(
    NS + "items", "C15",
    modifies=[],
    types={"self": "_NamespaceCache"},
    returns="List[Tuple[Un[K], Un[V]]]",
    ensures=[("lists-all-oldest-first",
              "len(result) == len(self._d) and "
              "forall(i, 0 <= i < len(result), result[i][0] == okeys(self._d)[i] and "
              " result[i][1] == self._d[okeys(self._d)[i]].value)"),
             ("pure", "same_omap(self._d, old(self._d))"), FRAME_CFG],
    raises="none",
)

R.contract(
    NS + "__init__", "C15", callee=False,     # constructors are interpreted inline by their callers
    types={"self": "_NamespaceCache", "max_entries": "int", "ttl_sec": "int", "time_fn": "ClockFn"},
    ensures=[("starts-empty", "len(self._d) == 0"),
             ("config-stored", "self._max == max_entries and self._ttl == ttl_sec"),
             ("inv-established", "implies(max_entries >= 0, wf_nscache(self))")],
    raises="none",
)


# ------------------------------------------------------------------ shared clause generators (LRUCache / CacheManager)
def hit_expr(P):
    return "(old(key in %s._d) and ttl_fresh(%s._ttl, now, old(%s._d)[key].ts))" % (P, P, P)


def counters_same(o="self"):
    return ("counters-untouched", "%s._hits == old(%s._hits) and %s._misses == old(%s._misses) and "
                                  "%s._evicted == old(%s._evicted)" % (o, o, o, o, o, o))


def frame_cfg(P):
    return ("frame-config", "%s._max == old(%s._max) and %s._ttl == old(%s._ttl)" % (P, P, P, P))


def lookup_clauses(P):
    """clauses of a counted lookup through the namespace object at spec path P"""
    H = hit_expr(P)
    return [
        ("inv-preserved", "wf_nscache(%s)" % P),
        ("counters-exact", "self._hits == old(self._hits) + ite(%s, 1, 0) and "
                           "self._misses == old(self._misses) + ite(%s, 0, 1) and self._evicted == old(self._evicted)" % (H, H)),
        ("expired-removed",
         "implies(old(key in %s._d) and not %s, not (key in %s._d) and len(%s._d) == old(len(%s._d)) - 1 and "
         " same_entries(%s._d, old(%s._d)) and removed_at(okeys(%s._d), old(okeys(%s._d)), opos(old(%s._d), key)))" % (
             P, H, P, P, P, P, P, P, P, P)),
        ("hit-moves-to-newest",
         "implies(%s, seq_eq(%s._d, old(%s._d)) and "
         " moved_to_end_at(okeys(%s._d), old(okeys(%s._d)), opos(old(%s._d), key)))" % (H, P, P, P, P, P)),
        ("absent-noop", "implies(not old(key in %s._d), same_omap(%s._d, old(%s._d)))" % (P, P, P)),
        frame_cfg(P),
    ]


def store_clauses(P):
    n1 = "(old(len(%s._d)) + ite(old(key in %s._d), 0, 1))" % (P, P)
    ev = "ite(not old(key in %s._d) and old(len(%s._d)) == %s._max, 1, 0)" % (P, P, P)
    return [
        ("inv-preserved", "wf_nscache(%s)" % P),
        ("size-within-cap", "len(%s._d) <= %s._max and len(%s._d) == %s - %s" % (P, P, P, n1, ev)),
        ("counters-exact", "self._evicted == old(self._evicted) + %s and self._hits == old(self._hits) and "
                           "self._misses == old(self._misses)" % ev),
        ("stored-newest-with-clock-stamp",
         "implies(%s._max > 0, key in %s._d and %s._d[key].ts == now and %s._d[key].value == value and "
         " okeys(%s._d)[len(%s._d) - 1] == key)" % (P, P, P, P, P, P)),
        ("zero-cap-nothing-retained", "implies(%s._max == 0, len(%s._d) == 0)" % (P, P)),
        ("evicts-oldest-first/new-key",
         "implies(not old(key in %s._d), forall(i, 0 <= i < len(%s._d) - 1, "
         " okeys(%s._d)[i] == old(okeys(%s._d))[i + %s]))" % (P, P, P, P, ev)),
        ("refresh-evicts-nothing",
         "implies(old(key in %s._d), forall(i, 0 <= i < len(%s._d) - 1, okeys(%s._d)[i] == "
         " ite(i < opos(old(%s._d), key), old(okeys(%s._d))[i], old(okeys(%s._d))[i + 1])))" % (P, P, P, P, P, P)),
        ("survivors-unchanged",
         "forall((k, 'Un[K]'), k in %s._d and k != key, old(k in %s._d) and %s._d[k] == old(%s._d)[k])" % (P, P, P, P)),
        frame_cfg(P),
    ]


# ------------------------------------------------------------------ CacheManager._hashable_or_stable
R.contract(
    CACHE + "CacheManager._hashable_or_stable", "C15",
    modifies=[],
    types={"key": "Un[K]"},
    returns="Un[K]",
    ensures=[("hashable-key-is-its-own-cache-key", "result == key")],
    raises="none",
    # K stands for hashable keys; the json.dumps fallback for unhashable keys (lists/dicts) is not modelled
    unreachable_ok=["return stable_key(key)"],
)

# ------------------------------------------------------------------ LRUCache (shim over one _NamespaceCache)
LC = CACHE + "LRUCache."
R.objtype("LRUCacheT", {"_ns": "_NamespaceCache", "_hits": "int", "_misses": "int", "_evicted": "int"},
          cls=("clematis/engine/cache.py", "LRUCache"))
P1 = "self._ns"
H1 = hit_expr(P1)
WF1 = [("wf", "wf_nscache(self._ns)")]

R.contract(
    LC + "get", "C15",
    modifies=["self._hits", "self._misses", "self._ns._d"],
    types={"self": "LRUCacheT", "key": "Un[K]"},
    returns="Optional[Un[V]]",
    ghost=GHOST_NOW,
    requires=WF1,
    ensures=[("hit-iff-present-and-fresh", "(not is_none(result)) == " + H1),
             ("hit-value", "implies(" + H1 + ", some(result) == old(self._ns._d)[key].value)")] + lookup_clauses(P1),
    raises="none",
)
R.contract(
    LC + "get2", "C15",
    modifies=["self._hits", "self._misses", "self._ns._d"],
    types={"self": "LRUCacheT", "key": "Un[K]"},
    returns="Tuple[bool, Optional[Un[V]]]",
    ghost=GHOST_NOW,
    requires=WF1,
    ensures=[("hit-iff-present-and-fresh", "result[0] == " + H1),
             ("hit-value", "implies(" + H1 + ", result[1] == old(self._ns._d)[key].value)"),
             ("miss-none", "implies(not result[0], is_none(result[1]))")] + lookup_clauses(P1),
    raises="none",
)
for _m in ("set", "put"):
    R.contract(
        LC + _m, "C15",
        modifies=["self._evicted", "self._ns._d"],
        types={"self": "LRUCacheT", "key": "Un[K]", "value": "Un[V]"},
        ghost=GHOST_NOW,
        requires=WF1,
        ensures=store_clauses(P1),
        raises="none",
    )
R.contract(
    LC + "__contains__", "C15",
    modifies=["self._ns._d"],
    types={"self": "LRUCacheT", "key": "Un[K]"},
    returns="bool",
    ghost=GHOST_NOW,
    requires=WF1,
    ensures=[
        ("inv-preserved", "wf_nscache(self._ns)"),
        ("true-iff-present-and-fresh", "result == " + H1),
        ("live-entry-order-untouched",
         "implies(result or not old(key in self._ns._d), same_omap(self._ns._d, old(self._ns._d)))"),
        ("expired-removed",
         "implies(old(key in self._ns._d) and not result, not (key in self._ns._d) and "
         " same_entries(self._ns._d, old(self._ns._d)) and "
         " removed_at(okeys(self._ns._d), old(okeys(self._ns._d)), opos(old(self._ns._d), key)))"),
        counters_same(), frame_cfg(P1),
    ],
    raises="none",
)
for _m in ("invalidate", "clear"):       # `clear = invalidate` (class-level alias, resolved by the frontend)
    R.contract(
        LC + _m, "C15",
        modifies=["self._ns._d"],
        types={"self": "LRUCacheT"},
        returns="int",
        ensures=[("count-exact", "result == old(len(self._ns._d))"), ("emptied", "len(self._ns._d) == 0"),
                 counters_same(), frame_cfg(P1)],
        raises="none",
    )
for _m in ("size", "__len__"):
    R.contract(
        LC + _m, "C15",
        modifies=[],
        types={"self": "LRUCacheT"},
        returns="int",
        requires=WF1,
        ensures=[("exact", "result == len(self._ns._d)"), ("within-cap", "result <= self._ns._max"),
                 ("pure", "same_omap(self._ns._d, old(self._ns._d))")],
        raises="none",
    )
R.contract(
    LC + "stats", "C15",
    modifies=[],
    types={"self": "LRUCacheT"},
    ensures=[("reports-counters", "result['hits'] == self._hits and result['misses'] == self._misses and "
                                  "result['evicted'] == self._evicted and result['size'] == len(self._ns._d)"),
             ("pure", "same_omap(self._ns._d, old(self._ns._d))"), counters_same()],
    raises="none",
)
R.contract(
    LC + "items", "C15",
    modifies=["self._ns._d"],
    types={"self": "LRUCacheT"},
    returns="List[Tuple[Un[K], Un[V]]]",
    ghost=GHOST_NOW,
    requires=WF1,
    ensures=[
        ("inv-preserved", "wf_nscache(self._ns)"),
        ("keeps-exactly-the-fresh-entries",
         "forall((k, 'Un[K]'), True, (k in self._ns._d) == (old(k in self._ns._d) and "
         " ttl_fresh(self._ns._ttl, now, old(self._ns._d)[k].ts)))"),
        ("survivors-unchanged", "same_entries(self._ns._d, old(self._ns._d))"),
        ("order-preserved",
         "forall2(a, b, 0 <= a and a < b and b < len(self._ns._d), "
         " opos(old(self._ns._d), okeys(self._ns._d)[a]) < opos(old(self._ns._d), okeys(self._ns._d)[b]))"),
        ("lists-survivors-oldest-first",
         "len(result) == len(self._ns._d) and forall(i, 0 <= i < len(result), "
         " result[i][0] == okeys(self._ns._d)[i] and result[i][1] == self._ns._d[okeys(self._ns._d)[i]].value)"),
        counters_same(), frame_cfg(P1),
    ],
    raises="none",
    loops={0: {"inv": [
        "ttl == self._ns._ttl and self._ns._max >= 0",
        "len(_iter) == len(pre_loop(self._ns._d))",
        "forall(j, 0 <= j < len(_iter), _iter[j][0] == pre_loop(okeys(self._ns._d))[j] and "
        " _iter[j][0] in pre_loop(self._ns._d) and _iter[j][1] == pre_loop(self._ns._d)[_iter[j][0]])",
        "len(self._ns._d) == len(out) + len(_iter) - _i and len(out) <= _i",
        "forall(j, 0 <= j < len(out), okeys(self._ns._d)[j] == out[j][0] and out[j][1] == self._ns._d[out[j][0]].value)",
        "forall(j, len(out) <= j < len(self._ns._d), okeys(self._ns._d)[j] == _iter[j - len(out) + _i][0])",
        "same_entries(self._ns._d, pre_loop(self._ns._d))",
        "forall(j, 0 <= j < len(out), ttl_fresh(ttl, now, self._ns._d[okeys(self._ns._d)[j]].ts))",
        "forall((k, 'Un[K]'), k in pre_loop(self._ns._d) and not (k in self._ns._d), "
        " not ttl_fresh(ttl, now, pre_loop(self._ns._d)[k].ts))",
        "forall2(a, b, 0 <= a and a < b and b < len(self._ns._d), "
        " opos(pre_loop(self._ns._d), okeys(self._ns._d)[a]) < opos(pre_loop(self._ns._d), okeys(self._ns._d)[b]))",
    ]}},
    locals={"out": "List[Tuple[Un[K], Un[V]]]"},
)
R.contract(
    LC + "__init__", "C15",
    types={"self": "LRUCacheT", "max_entries": "int", "ttl_s": "Optional[int]", "ttl_sec": "Optional[int]",
           "ttl": "Optional[int]", "capacity": "Optional[int]", "time_fn": "ClockFn", "_kwargs": "={}"},
    ensures=[
        ("capacity-prefers-explicit", "self._ns._max == ite(is_none(capacity), max_entries, some(capacity))"),
        ("ttl-precedence", "self._ns._ttl == ite(not is_none(ttl), some(ttl), ite(not is_none(ttl_sec), some(ttl_sec), "
                           "ite(not is_none(ttl_s), some(ttl_s), 600)))"),
        ("starts-empty-zero-counters",
         "len(self._ns._d) == 0 and self._hits == 0 and self._misses == 0 and self._evicted == 0"),
        ("inv-established", "implies(self._ns._max >= 0, wf_nscache(self._ns))"),
    ],
    raises="none",
)

# ------------------------------------------------------------------ CacheManager
# `_ns: Dict[str, _NamespaceCache]` is a dict of heap objects, which the engine cannot encode as a symbolic map.
# The manager is therefore verified for fixed namespace-dict shapes (a dict with fixed string keys): two existing
# namespaces 'ns:a' (the one operated on) and 'ns:b' (a bystander that must stay untouched), and the case where the
# requested namespace 'ns:new' does not exist yet.  The namespace *contents*, capacities, TTLs and the clock are fully
# symbolic.  Not covered: an unbounded number of namespaces (the per-namespace code path does not depend on it).
CM = CACHE + "CacheManager."
R.dictrec("NsMapAB", {"ns:a": "_NamespaceCache", "ns:b": "_NamespaceCache"})
R.objtype("CacheMgrT", {"_max": "int", "_ttl": "int", "_time": "ClockFn", "_ns": "NsMapAB",
                        "_hits": "int", "_misses": "int", "_evicted": "int"},
          cls=("clematis/engine/cache.py", "CacheManager"))
PA, PB = "self._ns['ns:a']", "self._ns['ns:b']"
WFAB = [("wf", "wf_nscache(%s) and wf_nscache(%s)" % (PA, PB))]
OTHER_UNTOUCHED = ("other-namespace-untouched",
                   "same_omap(%s._d, old(%s._d)) and %s._max == old(%s._max) and %s._ttl == old(%s._ttl)" % ((PB,) * 6))
HA = hit_expr(PA)

R.contract(
    CM + "get", "C15",
    modifies=["self._hits", "self._misses", "self._ns['ns:a']._d"],
    types={"self": "CacheMgrT", "namespace": "='ns:a'", "key": "Un[K]"},
    returns="Tuple[bool, Optional[Un[V]]]",
    ghost=GHOST_NOW,
    requires=WFAB,
    ensures=[("hit-iff-present-and-fresh", "result[0] == " + HA),
             ("hit-value", "implies(" + HA + ", result[1] == old(%s._d)[key].value)" % PA),
             ("miss-none", "implies(not result[0], is_none(result[1]))"),
             OTHER_UNTOUCHED] + lookup_clauses(PA),
    raises="none",
)
R.contract(
    CM + "set", "C15",
    modifies=["self._evicted", "self._ns['ns:a']._d"],
    types={"self": "CacheMgrT", "namespace": "='ns:a'", "key": "Un[K]", "value": "Un[V]"},
    ghost=GHOST_NOW,
    requires=WFAB,
    ensures=[OTHER_UNTOUCHED] + store_clauses(PA),
    raises="none",
)
R.contract(
    CM + "invalidate_namespace", "C15",
    modifies=["self._ns['ns:a']._d"],
    types={"self": "CacheMgrT", "namespace": "='ns:a'"},
    returns="int",
    ensures=[("empties-that-namespace", "len(%s._d) == 0 and result == old(len(%s._d))" % (PA, PA)),
             OTHER_UNTOUCHED, counters_same(), frame_cfg(PA)],
    raises="none",
    unreachable_ok=["return 0"],    # this variant fixes an existing namespace (the other arm: next contract)
)
R.contract(
    CM + "invalidate_namespace", "C15", name="CacheManager.invalidate_namespace[unknown namespace]", callee=False,
    types={"self": "CacheMgrT", "namespace": "='ns:zzz'"},
    returns="int",
    ensures=[("nothing-removed", "result == 0"),
             ("all-namespaces-untouched", "same_omap(%s._d, old(%s._d)) and same_omap(%s._d, old(%s._d))" % (PA, PA, PB, PB)),
             ("no-namespace-created", "len(self._ns) == 2"), counters_same()],
    raises="none",
    unreachable_ok=["return ns.invalidate()"],    # this variant fixes a namespace that does not exist
)
R.contract(
    CM + "invalidate_all", "C15",
    modifies=["self._ns['ns:a']._d", "self._ns['ns:b']._d"],
    types={"self": "CacheMgrT"},
    returns="int",
    mode="bounded", name="CacheManager.invalidate_all (bounded: two namespaces)",
    ensures=[("empties-every-namespace", "len(%s._d) == 0 and len(%s._d) == 0" % (PA, PB)),
             ("count-exact", "result == old(len(%s._d)) + old(len(%s._d))" % (PA, PB)), counters_same()],
    raises="none",
)
R.contract(
    CM + "stats", "C15",
    modifies=[],
    types={"self": "CacheMgrT"},
    mode="bounded", name="CacheManager.stats (bounded: two namespaces)",
    ensures=[("reports-counters", "result['hits'] == self._hits and result['misses'] == self._misses and "
                                  "result['evicted'] == self._evicted"),
             ("size-is-total-live-entries", "result['size'] == len(%s._d) + len(%s._d)" % (PA, PB)),
             ("pure", "same_omap(%s._d, old(%s._d)) and same_omap(%s._d, old(%s._d))" % (PA, PA, PB, PB)), counters_same()],
    raises="none",
)

# requested namespace does not exist yet: it is created with the manager's capacity / ttl / clock
R.dictrec("NsMapB", {"ns:b": "_NamespaceCache"})
R.objtype("CacheMgrT1", {"_max": "int", "_ttl": "int", "_time": "ClockFn", "_ns": "NsMapB",
                         "_hits": "int", "_misses": "int", "_evicted": "int"},
          cls=("clematis/engine/cache.py", "CacheManager"))
PN = "self._ns['ns:new']"
R.contract(
    CM + "_ns_obj", "C15", callee=False,
    types={"self": "CacheMgrT1", "namespace": "='ns:new'"},
    ensures=[("created-empty-with-manager-config",
              "len(result._d) == 0 and result._max == self._max and result._ttl == self._ttl"),
             ("registered", "len(self._ns) == 2 and len(%s._d) == 0 and %s._max == self._max" % (PN, PN)),
             ("inv-established", "implies(self._max >= 0, wf_nscache(result))"),
             OTHER_UNTOUCHED],
    raises="none",
)
R.contract(
    CM + "get", "C15", name="CacheManager.get[new namespace]", callee=False,
    types={"self": "CacheMgrT1", "namespace": "='ns:new'", "key": "Un[K]"},
    returns="Tuple[bool, Optional[Un[V]]]",
    ghost=GHOST_NOW,
    requires=[("max-nonneg (validator)", "self._max >= 0")],
    ensures=[("miss", "result[0] == False and is_none(result[1])"),
             ("counted-as-miss", "self._misses == old(self._misses) + 1 and self._hits == old(self._hits) and "
                                 "self._evicted == old(self._evicted)"),
             ("namespace-created-empty", "len(%s._d) == 0 and wf_nscache(%s)" % (PN, PN)), OTHER_UNTOUCHED],
    raises="none",
    unreachable_ok=["self._hits += 1"],     # a namespace created by this very call is empty: always a miss
)
R.contract(
    CM + "set", "C15", name="CacheManager.set[new namespace]", callee=False,
    types={"self": "CacheMgrT1", "namespace": "='ns:new'", "key": "Un[K]", "value": "Un[V]"},
    ghost=GHOST_NOW,
    requires=[("max-nonneg (validator)", "self._max >= 0")],
    ensures=[("stored-unless-zero-cap", "len(%s._d) == ite(self._max > 0, 1, 0) and "
                                        "implies(self._max > 0, key in %s._d and %s._d[key].ts == now and "
                                        "%s._d[key].value == value)" % (PN, PN, PN, PN)),
             ("evicted-counter-exact", "self._evicted == old(self._evicted) + ite(self._max == 0, 1, 0) and "
                                       "self._hits == old(self._hits) and self._misses == old(self._misses)"),
             ("inv-established", "wf_nscache(%s)" % PN), OTHER_UNTOUCHED],
    raises="none",
)
R.contract(
    CM + "__init__", "C15",
    types={"self": "CacheMgrT1", "max_entries": "int", "ttl_sec": "int", "time_fn": "ClockFn"},
    ensures=[("starts-empty-zero-counters", "len(self._ns) == 0 and self._hits == 0 and self._misses == 0 and self._evicted == 0"),
             ("config-stored", "self._max == max_entries and self._ttl == ttl_sec")],
    raises="none",
)


# ------------------------------------------------------------------ ThreadSafeCache / ThreadSafeBytesCache (Engine F)
# Lock discipline, decided on the AST of the class as it is on disk:
#   * the instance state is exactly (`_inner`, `_lock`) (`__slots__`), both bound only in `__init__`, `_lock` defaults
#     to a re-entrant `threading.RLock()`;
#   * every other method body is exactly one `with self._lock:` block (docstring aside), `self._inner` is referenced
#     only inside it, nothing lazy (lambda / generator / nested def / yield) can carry the reference out of the block,
#     and `items` returns a `list(...)` snapshot rather than a live view.
# Trusted (A-LOCK): RLock gives mutual exclusion, so every concurrent history of wrapper calls is equivalent to a
# sequential one; the sequential contracts of the wrapped cache (LRUBytes.* in c15_lru.py, LRUCache.* above) then
# give "no lost update / internally consistent".  Real interleavings are not explored by this verifier.
def _strip_doc(body):
    if body and isinstance(body[0], ast.Expr) and isinstance(body[0].value, ast.Constant) and isinstance(body[0].value.value, str):
        return body[1:]
    return body


def _self_attr_refs(node, attr):
    return [n for n in ast.walk(node) if isinstance(n, ast.Attribute) and n.attr == attr
            and isinstance(n.value, ast.Name) and n.value.id == "self"]


def lock_discipline(expected_methods):
    def fn(cl, mod, cls, func):
        out = []
        base = cl["name"]
        if cls is None:
            return [fresult(base, "error", "anchor lost: %s is not a method" % cl["key"])]
        # --- class shape
        slots = cls.attrs.get("__slots__")
        got_slots = ast.unparse(slots) if slots is not None else None
        ok = got_slots == "('_inner', '_lock')"
        out.append(fresult(base + "/state-is-inner-and-lock-only", "proved" if ok else "failed",
                           "" if ok else "__slots__ of %s is %s, expected ('_inner', '_lock')" % (cls.name, got_slots)))
        names = sorted(cls.methods)
        ok = names == sorted(expected_methods)
        out.append(fresult(base + "/method-set", "proved" if ok else "failed",
                           "" if ok else "methods of %s changed: %s (expected %s); every method needs a lock clause" % (
                               cls.name, names, sorted(expected_methods))))
        # --- __init__ binds the two slots, lock defaults to a re-entrant lock
        init = cls.methods.get("__init__")
        binds = {}
        if init is not None:
            for n in ast.walk(init):
                if isinstance(n, ast.Assign) and len(n.targets) == 1 and isinstance(n.targets[0], ast.Attribute) \
                        and isinstance(n.targets[0].value, ast.Name) and n.targets[0].value.id == "self":
                    binds.setdefault(n.targets[0].attr, []).append(ast.unparse(n.value))
        ok = binds == {"_inner": ["inner"], "_lock": ["lock or threading.RLock()"]}
        out.append(fresult(base + "/init-binds-inner-and-reentrant-lock", "proved" if ok else "failed",
                           "" if ok else "__init__ of %s binds %s" % (cls.name, binds)))
        # --- per method
        for mname in names:
            if mname == "__init__":
                continue
            m = cls.methods[mname]
            pre = "%s/%s" % (base, mname)
            body = _strip_doc(m.body)
            one_with = (len(body) == 1 and isinstance(body[0], ast.With) and len(body[0].items) == 1
                        and ast.unparse(body[0].items[0].context_expr) == "self._lock"
                        and body[0].items[0].optional_vars is None)
            out.append(fresult(pre + "/body-is-one-with-lock-block", "proved" if one_with else "failed",
                               "" if one_with else "body of %s.%s (line %d) is not exactly `with self._lock:`: %s" % (
                                   cls.name, mname, m.lineno, [ast.unparse(s).split("\n")[0][:50] for s in body])))
            # references of self._inner outside any `with self._lock:` block
            inside = set()
            for w in ast.walk(m):
                if isinstance(w, ast.With) and any(ast.unparse(i.context_expr) == "self._lock" for i in w.items):
                    for st in w.body:
                        for n in ast.walk(st):
                            inside.add(id(n))
            refs = _self_attr_refs(m, "_inner")
            outside = [n.lineno for n in refs if id(n) not in inside]
            ok = bool(refs) and not outside
            out.append(fresult(pre + "/inner-only-under-lock", "proved" if ok else "failed",
                               "" if ok else ("self._inner referenced outside the lock at lines %s" % outside if outside
                                              else "self._inner is never used in %s.%s" % (cls.name, mname))))
            lazy = [type(n).__name__ + "@L%d" % n.lineno for n in ast.walk(m)
                    if isinstance(n, (ast.Lambda, ast.GeneratorExp, ast.Yield, ast.YieldFrom, ast.FunctionDef, ast.AsyncFunctionDef))
                    and n is not m]
            stores = [n.lineno for n in ast.walk(m) if isinstance(n, ast.Attribute) and isinstance(n.ctx, (ast.Store, ast.Del))
                      and isinstance(n.value, ast.Name) and n.value.id == "self"]
            ok = not lazy and not stores
            out.append(fresult(pre + "/no-escape-of-inner-access", "proved" if ok else "failed",
                               "" if ok else "lazy constructs %s / rebinding of self attributes at lines %s" % (lazy, stores)))
            if mname == "items":
                rets = [n for n in ast.walk(m) if isinstance(n, ast.Return)]
                ok = bool(rets) and all(isinstance(r.value, ast.Call) and isinstance(r.value.func, ast.Name)
                                        and r.value.func.id == "list" for r in rets)
                out.append(fresult(pre + "/returns-snapshot-list", "proved" if ok else "failed",
                                   "" if ok else "items() must return list(...) built under the lock, found %s" % [
                                       ast.unparse(r)[:60] for r in rets]))
        return out
    return fn


# ------------------------------------------------------------------ merge_caches_deterministic
# Model: the two order-key callables are arbitrary *pure* functions (uninterpreted `wordkey`, `kord`, integer valued —
# any totally ordered key type behaves the same); a worker cache is its finite content `Dict[K, V]` whose `items()`
# lists every key once in an unspecified order (that is all the merge may rely on); the target is a faithful,
# non-evicting map (ghost `tmap`) reached only through `in` / `get` / `put`.  Ghost logs: `visited` (worker entries in
# visit order, recorded right after `kvs = list(wc.items())`), `marks` (number of membership queries made before
# each worker), `queries` ((visit index, key) of every `k in target` test, in call order).
R.untype("W")
R.uf("wordkey", ["Un[W]"], "int")
R.uf("kord", ["Un[K]"], "int")
R.funtype("TgtContains", params=["k"], returns="bool", ensures=[("reads-target", "result == (k in tmap)")],
          effects_before=["queries.append((len(visited) - 1, k))"])
R.funtype("TgtGet", params=["k"], returns="Optional[Un[V]]",
          ensures=[("reads-target", "implies(k in tmap, result == tmap[k])")])
R.funtype("TgtPut", params=["k", "v"], effects=["tmap[k] = v"])
R.objtype("MergeTarget", {"get": "TgtGet", "put": "TgtPut", "__contains__": "TgtContains"})
WCS = "List[Tuple[Un[W], Dict[Un[K], Un[V]]]]"
MERGE_GHOST = {"tmap": ("Dict[Un[K], Un[V]]", "any"), "queries": ("List[Tuple[int, Un[K]]]", "empty"),
               "visited": (WCS, "empty"), "marks": ("List[int]", "empty")}
SEG_END = "ite(a + 1 < len(marks), marks[a + 1], len(queries))"

R.contract(
    CACHE + "merge_caches_deterministic", "C15",
    modifies=[],      # the worker caches are only read (verified frame)
    types={"target": "MergeTarget", "worker_caches": WCS, "worker_order_key": "=wordkey", "key_order_key": "=kord",
           "on_conflict": "str"},
    ghost=MERGE_GHOST,
    raises={"AssertionError": "on_conflict == 'assert_equal'"},
    ensures=[
        # --- visit order
        ("visits-every-worker-once",
         "len(visited) == len(worker_caches) and "
         "forall(a, 0 <= a < len(visited), exists(i, 0 <= i < len(worker_caches), visited[a] == worker_caches[i])) and "
         "forall(i, 0 <= i < len(worker_caches), exists(a, 0 <= a < len(visited), visited[a] == worker_caches[i]))"),
        ("workers-in-sorted-order-key-order",
         "forall2(a, b, 0 <= a and a < b and b < len(visited), wordkey(visited[a][0]) <= wordkey(visited[b][0]))"),
        ("keys-in-sorted-key-order-within-worker",
         "forall2(p, q, 0 <= p and p < q and q < len(queries), queries[p][0] <= queries[q][0] and "
         " implies(queries[p][0] == queries[q][0], kord(queries[p][1]) <= kord(queries[q][1])))"),
        ("each-worker-key-tested-exactly-once",
         "len(marks) == len(visited) and "
         "forall(a, 0 <= a < len(marks), marks[a] + len(visited[a][1]) == " + SEG_END + ") and "
         "forall(q, 0 <= q < len(queries), 0 <= queries[q][0] and queries[q][0] < len(visited) and "
         "  marks[queries[q][0]] <= q and queries[q][1] in visited[queries[q][0]][1]) and "
         "forall2(p, q, 0 <= p and p < q and q < len(queries), queries[p] != queries[q])"),
        # --- result
        ("first-wins-never-overwrites",
         "forall((k, 'Un[K]'), old(k in tmap), k in tmap and tmap[k] == old(tmap)[k])"),
        ("result-contains-every-worker-key",
         "forall(a, 0 <= a < len(visited), forall((k, 'Un[K]'), k in visited[a][1], k in tmap))"),
        ("new-key-value-comes-from-a-minimal-order-key-worker",
         "forall((k, 'Un[K]'), k in tmap and not old(k in tmap), "
         " exists(i, 0 <= i < len(worker_caches), k in worker_caches[i][1] and tmap[k] == worker_caches[i][1][k] and "
         "   forall(j, 0 <= j < len(worker_caches), implies(k in worker_caches[j][1], "
         "          wordkey(worker_caches[i][0]) <= wordkey(worker_caches[j][0])))))"),
        ("nothing-else-added/new-key-takes-first-worker-in-order",
         "forall((k, 'Un[K]'), k in tmap and not old(k in tmap), "
         " exists(a, 0 <= a < len(visited), k in visited[a][1] and tmap[k] == visited[a][1][k] and "
         "   forall(b, 0 <= b < a, not (k in visited[b][1]))))"),
    ],
    asserts={"kvs": ["ghost:visited.append((_, wc))", "ghost:marks.append(len(queries))"]},
    # clause `new-key-value-comes-from-a-minimal-order-key-worker` is stated on the *input* list: independent of the order
    # in which the workers were handed in whenever the worker order keys are pairwise distinct (the minimum is unique
    # then); with equal order keys the stable sort lets the input position decide (observed natively)
    loops={
        0: {"modifies": ["visited", "marks"], "index": "_w", "iter": "_S", "inv": [
            "len(visited) == _w and len(marks) == _w",
            "forall(a, 0 <= a < _w, visited[a] == _S[a])",
            "forall(a, 0 <= a < len(marks), 0 <= marks[a] and marks[a] <= len(queries) and "
            " marks[a] + len(visited[a][1]) == " + SEG_END + ")",
            "forall(q, 0 <= q < len(queries), 0 <= queries[q][0] and queries[q][0] < _w and "
            " marks[queries[q][0]] <= q and queries[q][1] in visited[queries[q][0]][1])",
            "forall2(p, q, 0 <= p and p < q and q < len(queries), queries[p][0] <= queries[q][0] and "
            " queries[p] != queries[q] and "
            " implies(queries[p][0] == queries[q][0], kord(queries[p][1]) <= kord(queries[q][1])))",
            "forall((k, 'Un[K]'), old(k in tmap), k in tmap and tmap[k] == old(tmap)[k])",
            "forall(a, 0 <= a < _w, forall((k, 'Un[K]'), k in visited[a][1], k in tmap))",
            "forall((k, 'Un[K]'), k in tmap and not old(k in tmap), "
            " exists(a, 0 <= a < _w, k in visited[a][1] and tmap[k] == visited[a][1][k] and "
            "   forall(b, 0 <= b < a, not (k in visited[b][1]))))",
        ]},
        1: {"inv": [
            # facts about the sorted snapshot of this worker (established once at loop entry)
            "len(_iter) == len(wc)",
            "forall(j, 0 <= j < len(_iter), _iter[j][0] in wc and _iter[j][1] == wc[_iter[j][0]])",
            "forall2(i, j, 0 <= i and i < j and j < len(_iter), kord(_iter[i][0]) <= kord(_iter[j][0]) and _iter[i][0] != _iter[j][0])",
            "forall((k, 'Un[K]'), k in wc, exists(j, 0 <= j < len(_iter), _iter[j][0] == k))",
            # log of membership tests
            "len(queries) == len(pre_loop(queries)) + _i",
            "forall(q, 0 <= q < len(pre_loop(queries)), queries[q] == pre_loop(queries)[q])",
            "forall(q, len(pre_loop(queries)) <= q < len(queries), queries[q][0] == len(visited) - 1 and "
            " queries[q][1] == _iter[q - len(pre_loop(queries))][0])",
            # target content
            "forall((k, 'Un[K]'), k in pre_loop(tmap), k in tmap and tmap[k] == pre_loop(tmap)[k])",
            "forall(j, 0 <= j < _i, _iter[j][0] in tmap)",
            "forall((k, 'Un[K]'), k in tmap and not (k in pre_loop(tmap)), k in wc and tmap[k] == wc[k])",
        ]},
    },
    locals={"kvs": "List[Tuple[Un[K], Un[V]]]"},
)

for _cls in ("ThreadSafeCache", "ThreadSafeBytesCache"):
    R.fclause("C15", "lock-discipline/%s" % _cls, "custom", CACHE + _cls + ".__init__",
              fn=lock_discipline(["__init__", "get", "put", "__contains__", "items"]))

