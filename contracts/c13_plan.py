"""C13 — planning and speaking stay within caps; untrusted plans are sanitised.

Functions under contract (all in /repo, read at check time):
  clematis/engine/stages/t3/dialogue.py   _tokenize, _truncate_to_tokens, _first_speak_op, speak
  clematis/engine/stages/t3/legacy.py     _truncate_to_tokens (second copy), rag_once (+ helpers)
  clematis/engine/stages/t3/policy.py     deliberate, _topic_labels_from_bundle, _edit_nodes_from_bundle, _policy_thresholds
  clematis/engine/policy/sanitize.py      _strip_triple_fences, _coerce_bool, parse_and_validate, sanitize_plan

Trusted modelling assumptions used here (all are recorded through note_assumption at run time):
  * whitespace tokenisation: pyvc/verifier.py `split_join_axioms` (T1..T4);
  * `Dyn` = the JSON-like python values (None/bool/int/float/str/list/dict with str keys), pyvc/dyn.py;
  * json.loads: pyvc/externals.py `_json_loads` (returns an arbitrary Dyn value or raises ValueError/RecursionError).
"""
from pyvc.verifier import REG as R

DLG = "clematis/engine/stages/t3/dialogue.py:"
LEG = "clematis/engine/stages/t3/legacy.py:"
POL = "clematis/engine/stages/t3/policy.py:"
SAN = "clematis/engine/policy/sanitize.py:"

# ---------------------------------------------------------------------------------------------- token truncation
TRUNC_ENSURES = [
    ("within-budget", "ntokens(result[0]) <= max(max_tokens, 0)"),
    ("count-reported", "result[2] == ntokens(result[0])"),
    ("truncated-flag", "result[1] == (max_tokens <= 0 or ntokens(s) > max_tokens)"),
    ("unchanged-when-fits", "implies(max_tokens > 0 and ntokens(s) <= max_tokens, result[0] == s)"),
    ("empty-when-no-budget", "implies(max_tokens <= 0, result[0] == '')"),
    ("keeps-leading-tokens",
     "implies(max_tokens > 0 and ntokens(s) > max_tokens, len(result[0].split()) == max_tokens and "
     "forall(i, 0 <= i < max_tokens, result[0].split()[i] == s.split()[i]))"),
]
for _mod, _nm in ((DLG, "dialogue"), (LEG, "legacy")):
    R.contract(
        _mod + "_truncate_to_tokens", "C13", name="_truncate_to_tokens[%s]" % _nm,
        types={"s": "str", "max_tokens": "int"},
        ensures=TRUNC_ENSURES,
        raises="none",
    )
    R.contract(
        _mod + "_tokenize", "C13", name="_tokenize[%s]" % _nm, callee=False,
        types={"s": "Optional[str]"},
        ensures=[("whitespace-split", "implies(not is_none(s), seq_eq(result, some(s).split()))"),
                 ("none-is-empty", "implies(is_none(s), len(result) == 0)")],
        raises="none",
    )

# ---------------------------------------------------------------------------------------------- plan sanitiser
# `text`, `v`, `plan_dict` range over Dyn = every JSON-like python value (see pyvc/dyn.py); json.loads returns an
# arbitrary Dyn value or raises (pyvc/externals.py).  strict_comps=True: exceptions inside the `any(...)` generator
# and the list comprehensions count (their bodies are executed for an arbitrary element).
TRUE_WORDS = "('true', 't', 'yes', 'y', '1')"
FALSE_WORDS = "('false', 'f', 'no', 'n', '0')"
R.contract(
    SAN + "_coerce_bool", "C13",
    types={"v": "Dyn"},
    returns="Tuple[bool, Optional[bool]]",
    ensures=[
        ("bool-passthrough", "implies(is_bool(v), result[0] and result[1] == as_bool(v))"),
        ("int-zero-one", "implies(is_int(v), result[0] == (as_int(v) == 0 or as_int(v) == 1) and "
                         "implies(result[0], result[1] == (as_int(v) == 1)))"),
        ("string-spellings",
         "implies(is_str(v), result[0] == (as_str(v).strip().lower() in " + TRUE_WORDS + " or as_str(v).strip().lower() in " + FALSE_WORDS + ") "
         "and implies(result[0], result[1] == (as_str(v).strip().lower() in " + TRUE_WORDS + ")))"),
        ("everything-else-rejected", "implies(not is_bool(v) and not is_int(v) and not is_str(v), not result[0])"),
        ("rejected-carries-none", "implies(not result[0], is_none(result[1]))"),
        ("accepted-carries-bool", "implies(result[0], not is_none(result[1]))"),
    ],
    raises="none",
)

FENCED = "(old(s).strip().startswith('```') and old(s).strip().endswith('```') and old(s).strip().find('\\n') != -1)"
R.contract(
    SAN + "_strip_triple_fences", "C13",
    types={"s": "str"},
    returns="Tuple[str, Optional[str]]",
    ensures=[
        ("unfenced-is-trimmed-text", "implies(not " + FENCED + ", result[0] == old(s).strip() and is_none(result[1]))"),
        ("fenced-has-language-tag", "implies(" + FENCED + ", not is_none(result[1]))"),
    ],
    raises="none",
)

ACC = "as_dict(accepted_obj)"
PLAN_OUT = "as_list(result[1]['plan'])"
R.contract(
    SAN + "parse_and_validate", "C13",
    types={"text": "Dyn", "schema": "Dyn"},
    ghost={"accepted_obj": ("Dyn", "any")},
    post_setup=["accepted_obj = obj"],
    strict_comps=True,
    ensures=[
        ("non-string-rejected", "implies(not is_str(text), not result[0])"),
        ("oversize-rejected", "implies(is_str(text) and len(as_str(text)) > 20000, not result[0])"),
        ("accepted-within-raw-size", "implies(result[0], is_str(text) and len(as_str(text)) <= 20000)"),
        ("rejected-gives-reason-string", "implies(not result[0], is_str(result[1]))"),
        ("accepted-is-single-object-with-known-keys",
         "implies(result[0], is_dict(accepted_obj) and 'plan' in " + ACC + " and 'rationale' in " + ACC + " and "
         "forall((k, 'str'), k in " + ACC + ", k == 'plan' or k == 'rationale' or k == 'reflection'))"),
        ("accepted-plan-within-limits",
         "implies(result[0], is_list(result[1]['plan']) and len(" + PLAN_OUT + ") <= 16 and "
         "forall(i, 0 <= i < len(" + PLAN_OUT + "), is_str(" + PLAN_OUT + "[i]) and len(as_str(" + PLAN_OUT + "[i])) >= 1 and "
         "len(as_str(" + PLAN_OUT + "[i])) <= 200 and len(as_str(" + PLAN_OUT + "[i]).strip()) > 0))"),
        ("accepted-rationale-within-limits",
         "implies(result[0], is_str(result[1]['rationale']) and len(as_str(result[1]['rationale'])) >= 1 and "
         "len(as_str(result[1]['rationale'])) <= 2000)"),
        ("accepted-passes-plan-and-rationale-through",
         "implies(result[0], dyn_same(result[1]['plan'], " + ACC + "['plan']) and dyn_same(result[1]['rationale'], " + ACC + "['rationale']))"),
        ("reflection-defaults-false", "implies(result[0] and not ('reflection' in " + ACC + "), result[1]['reflection'] == False)"),
    ],
    raises="none",
    loops={1: {"inv": ["forall((kk, 'str'), kk in _done, kk == 'plan' or kk == 'rationale' or kk == 'reflection')"]}},
)

R.contract(
    SAN + "sanitize_plan", "C13",
    types={"plan_dict": "Dyn", "errors": "List[str]"},
    strict_comps=True, feas_timeout_ms=120,
    # the docstring promises "does not raise"; dict(plan_dict) does for anything but a mapping: stated as input shape
    requires=[("plan-is-dict-or-none", "is_dict(plan_dict) or is_null(plan_dict)")],
    ensures=[
        ("returns-only-reflection", "result['reflection'] == True or result['reflection'] == False"),
        ("reflection-defaults-false",
         "implies(is_null(plan_dict) or not ('reflection' in as_dict(plan_dict)), result['reflection'] == False)"),
        ("errors-only-appended", "len(errors) >= old(len(errors)) and forall(i, 0 <= i < old(len(errors)), errors[i] == old(errors)[i])"),
        ("clean-input-no-errors",
         "implies(is_null(plan_dict) or (not ('ops' in as_dict(plan_dict)) and not ('reflection' in as_dict(plan_dict))), "
         "len(errors) == old(len(errors)))"),
    ],
    raises="none",
)

# ---------------------------------------------------------------------------------------------- plan / op types
from contracts import c03_t4  # noqa: F401,E402  (declares the ProposedDelta record used by Plan.deltas)

# the ops of a plan are instances of three frozen dataclasses living in one list: a tagged union (pyvc Registry.union)
R.union("Op",
        {"SpeakOp": ["kind", "intent", "topic_labels", "max_tokens"],
         "EditGraphOp": ["kind", "edits", "cap"],
         "RequestRetrieveOp": ["kind", "query", "owner", "k", "tier_pref", "hints"]},
        fields={"kind": "str", "intent": "str", "topic_labels": "List[str]", "max_tokens": "int",
                "edits": "List[Dyn]", "cap": "int",
                "query": "Dyn", "owner": "str", "k": "int", "tier_pref": "Optional[str]", "hints": "Dyn"})
R.objtype("Plan", {"version": "str", "reflection": "bool", "ops": "List[Op]", "deltas": "List[ProposedDelta]",
                   "request_retrieve": "Dyn"}, cls=("clematis/engine/types.py", "Plan"))
R.dictrec("Thresholds", {"tau_high": "float", "tau_low": "float", "eps_edit": "float"})

# ---------------------------------------------------------------------------------------------- rule based planner
# `bundle` ranges over every JSON-like value (Dyn).  Whatever the bundle looks like, *if* the planner returns, the
# clauses hold; wrongly shaped bundles (e.g. bundle['cfg'] not a dict) make it raise, which the first group of
# contracts allows (raises Exception).  Purity: a Dyn input is an immutable term; any in-place mutation reached
# through it is the failed obligation `<fn>/frame:dyn-value-not-mutated`.
R.contract(
    POL + "_policy_thresholds", "C13",
    types={"bundle": "Dyn"},
    returns="Thresholds",
    ensures=[("thresholds-from-cfg-or-defaults",
              "result['tau_high'] == b_tau_high(bundle) and result['tau_low'] == b_tau_low(bundle) and "
              "result['eps_edit'] == b_eps_edit(bundle)")],
    raises=["Exception"],
)

R.contract(
    POL + "_topic_labels_from_bundle", "C13",
    types={"bundle": "Dyn", "cap": "int"},
    returns="List[str]",
    strict_comps=True,
    ensures=[
        ("capped", "len(result) <= max(cap, 0)"),
        ("sorted-deduplicated", "forall2(i, j, 0 <= i and i < j and j < len(result), result[i] < result[j])"),
    ],
    raises=["Exception"],
)

EDIT_SHAPE = ("is_dict(%(x)s) and len(as_dict(%(x)s)) == 2 and 'op' in as_dict(%(x)s) and as_dict(%(x)s)['op'] == 'upsert_node' "
              "and 'id' in as_dict(%(x)s) and is_str(as_dict(%(x)s)['id'])")
SEL_SHAPE = ("forall(j, 0 <= j < len(selected), is_dict(selected[j]) and len(as_dict(selected[j])) == 1 and "
             "'id' in as_dict(selected[j]) and is_str(as_dict(selected[j])['id']))")
R.contract(
    POL + "_edit_nodes_from_bundle", "C13",
    types={"bundle": "Dyn", "eps_edit": "float", "cap_nodes": "int"},
    returns="List[Dyn]",
    ensures=[
        ("capped", "len(result) <= max(cap_nodes, 0)"),
        ("upsert-node-edits", "forall(i, 0 <= i < len(result), " + EDIT_SHAPE % {"x": "result[i]"} + ")"),
        ("sorted-by-id", "forall2(i, j, 0 <= i and i < j and j < len(result), "
                         "as_str(as_dict(result[i])['id']) <= as_str(as_dict(result[j])['id']))"),
    ],
    raises=["Exception"],
    loops={0: {"inv": [SEL_SHAPE]}},
    locals={"selected": "List[Dyn]"},
    asserts={"selected": [SEL_SHAPE,
                          "forall2(i, j, 0 <= i and i < j and j < len(selected), "
                          "as_str(as_dict(selected[i])['id']) <= as_str(as_dict(selected[j])['id']))"]},
    feas_timeout_ms=100,
)

S_MAX, T_HI, T_LO = "b_s_max(bundle)", "b_tau_high(bundle)", "b_tau_low(bundle)"
OPS = "result.ops"
DELIBERATE_ENSURES = [
    ("ops-within-cap", "len(" + OPS + ") <= max(min(b_base_ops(bundle), b_slice_cap(bundle)), 0)"),
    ("speak-first", "implies(len(" + OPS + ") > 0, " + OPS + "[0].kind == 'Speak' and " + OPS + "[0]._cls == 'SpeakOp')"),
    ("intent-follows-thresholds",
     "implies(len(" + OPS + ") > 0, " + OPS + "[0].intent == intent_for(" + S_MAX + ", " + T_HI + ", " + T_LO + ", "
     "len(" + OPS + "[0].topic_labels) > 0))"),
    ("speak-labels-capped-sorted",
     "implies(len(" + OPS + ") > 0, len(" + OPS + "[0].topic_labels) <= 5 and forall2(i, j, 0 <= i and i < j and "
     "j < len(" + OPS + "[0].topic_labels), " + OPS + "[0].topic_labels[i] < " + OPS + "[0].topic_labels[j]))"),
    ("retrieve-only-below-low-threshold",
     "forall(i, 0 <= i < len(" + OPS + "), implies(" + OPS + "[i].kind == 'RequestRetrieve' or " + OPS + "[i]._cls == 'RequestRetrieveOp', "
     + S_MAX + " < " + T_LO + "))"),
    ("edit-only-at-or-above-low-threshold",
     "forall(i, 0 <= i < len(" + OPS + "), implies(" + OPS + "[i].kind == 'EditGraph' or " + OPS + "[i]._cls == 'EditGraphOp', "
     + S_MAX + " >= " + T_LO + "))"),
    ("only-speak-after-first", "len(" + OPS + ") <= 2 and forall(i, 1 <= i < len(" + OPS + "), " + OPS + "[i].kind != 'Speak')"),
    ("kind-matches-class",
     "forall(i, 0 <= i < len(" + OPS + "), (" + OPS + "[i]._cls == 'SpeakOp') == (" + OPS + "[i].kind == 'Speak') and "
     "(" + OPS + "[i]._cls == 'EditGraphOp') == (" + OPS + "[i].kind == 'EditGraph') and "
     "(" + OPS + "[i]._cls == 'RequestRetrieveOp') == (" + OPS + "[i].kind == 'RequestRetrieve'))"),
    ("edit-cap-within-four-per-remaining-op",
     "forall(i, 0 <= i < len(" + OPS + "), implies(" + OPS + "[i].kind == 'EditGraph', "
     + OPS + "[i].cap == len(" + OPS + "[i].edits) and 1 <= " + OPS + "[i].cap and "
     + OPS + "[i].cap <= 4 * (b_caps_ops(bundle) - 1)))"),
    ("retrieve-request-normalised",
     "forall(i, 0 <= i < len(" + OPS + "), implies(" + OPS + "[i].kind == 'RequestRetrieve', " + OPS + "[i].k >= 1 and "
     "(" + OPS + "[i].owner == 'agent' or " + OPS + "[i].owner == 'world' or " + OPS + "[i].owner == 'any')))"),
    ("plan-header", "result.version == 't3-plan-v1' and result.reflection == False and is_null(result.request_retrieve) "
                    "and len(result.deltas) == 0"),
    ("pure-bundle-unchanged", "dyn_same(bundle, old(bundle))"),
]
R.contract(
    POL + "deliberate", "C13",
    types={"bundle": "Dyn"},
    ensures=DELIBERATE_ENSURES,
    raises=["Exception"],
    locals={"ops": "List[Op]"},
    feas_fresh=True, feas_timeout_ms=100,
)
