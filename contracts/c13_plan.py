"""C13 — planning and speaking stay within caps; untrusted plans are sanitised.

Functions under contract (all in /repo, read at check time):
  clematis/engine/stages/t3/dialogue.py   _tokenize, _truncate_to_tokens, _first_speak_op, speak
  clematis/engine/stages/t3/legacy.py     _truncate_to_tokens (second copy), rag_once (+ helpers)
  clematis/engine/stages/t3/policy.py     deliberate, _topic_labels_from_bundle, _edit_nodes_from_bundle, _policy_thresholds
  clematis/engine/policy/sanitize.py      _strip_triple_fences, _coerce_bool, parse_and_validate, sanitize_plan

Trusted modelling assumptions used here (all are recorded through note_assumption at run time):
  * whitespace tokenisation: pyvc/verifier.py `split_join_axioms` (T1..T4);
  * `Dyn` = the JSON-like python values (None/bool/int/float/str/list/dict with str keys), pyvc/dyn.py;
  * json.loads: pyvc/externals.py `_json_loads` (returns an arbitrary Dyn value or raises ValueError/RecursionError).
"""
from pyvc.verifier import REG as R

DLG = "clematis/engine/stages/t3/dialogue.py:"
LEG = "clematis/engine/stages/t3/legacy.py:"
POL = "clematis/engine/stages/t3/policy.py:"
SAN = "clematis/engine/policy/sanitize.py:"

# ---------------------------------------------------------------------------------------------- token truncation
TRUNC_ENSURES = [
    ("within-budget", "ntokens(result[0]) <= max(max_tokens, 0)"),
    ("count-reported", "result[2] == ntokens(result[0])"),
    ("truncated-flag", "result[1] == (max_tokens <= 0 or ntokens(s) > max_tokens)"),
    ("unchanged-when-fits", "implies(max_tokens > 0 and ntokens(s) <= max_tokens, result[0] == s)"),
    ("empty-when-no-budget", "implies(max_tokens <= 0, result[0] == '')"),
    ("keeps-leading-tokens",
     "implies(max_tokens > 0 and ntokens(s) > max_tokens, len(result[0].split()) == max_tokens and "
     "forall(i, 0 <= i < max_tokens, result[0].split()[i] == s.split()[i]))"),
]
for _mod, _nm in ((DLG, "dialogue"), (LEG, "legacy")):
    R.contract(
        _mod + "_truncate_to_tokens", "C13", name="_truncate_to_tokens[%s]" % _nm,
        types={"s": "str", "max_tokens": "int"},
        ensures=TRUNC_ENSURES,
        raises="none",
    )
    R.contract(
        _mod + "_tokenize", "C13", name="_tokenize[%s]" % _nm, callee=False,
        types={"s": "Optional[str]"},
        ensures=[("whitespace-split", "implies(not is_none(s), seq_eq(result, some(s).split()))"),
                 ("none-is-empty", "implies(is_none(s), len(result) == 0)")],
        raises="none",
    )
