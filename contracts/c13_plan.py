"""C13 — planning and speaking stay within caps; untrusted plans are sanitised.

Functions under contract (all in /repo, read at check time):
  clematis/engine/stages/t3/dialogue.py   _tokenize, _truncate_to_tokens, _first_speak_op, speak
  clematis/engine/stages/t3/legacy.py     _truncate_to_tokens (second copy), rag_once (+ helpers)
  clematis/engine/stages/t3/policy.py     deliberate, _topic_labels_from_bundle, _edit_nodes_from_bundle, _policy_thresholds
  clematis/engine/policy/sanitize.py      _strip_triple_fences, _coerce_bool, parse_and_validate, sanitize_plan

Trusted modelling assumptions used here (all are recorded through note_assumption at run time):
  * whitespace tokenisation: pyvc/verifier.py `split_join_axioms` (T1..T4);
  * `Dyn` = the JSON-like python values (None/bool/int/float/str/list/dict with str keys), pyvc/dyn.py;
  * json.loads: pyvc/externals.py `_json_loads` (returns an arbitrary Dyn value or raises ValueError/RecursionError).
"""
from pyvc.verifier import REG as R

DLG = "clematis/engine/stages/t3/dialogue.py:"
LEG = "clematis/engine/stages/t3/legacy.py:"
POL = "clematis/engine/stages/t3/policy.py:"
SAN = "clematis/engine/policy/sanitize.py:"

# ---------------------------------------------------------------------------------------------- token truncation
TRUNC_ENSURES = [
    ("within-budget", "ws_tokens(result[0]) <= max(max_tokens, 0)"),
    ("count-reported", "result[2] == ws_tokens(result[0])"),
    ("truncated-flag", "result[1] == (max_tokens <= 0 or ws_tokens(s) > max_tokens)"),
    ("unchanged-when-fits", "implies(max_tokens > 0 and ws_tokens(s) <= max_tokens, result[0] == s)"),
    ("empty-when-no-budget", "implies(max_tokens <= 0, result[0] == '')"),
    ("keeps-leading-tokens",
     "implies(max_tokens > 0 and ws_tokens(s) > max_tokens, len(result[0].split()) == max_tokens and "
     "forall(i, 0 <= i < max_tokens, result[0].split()[i] == s.split()[i]))"),
]
for _mod, _nm in ((DLG, "dialogue"), (LEG, "legacy")):
    R.contract(
        _mod + "_truncate_to_tokens", "C13", name="_truncate_to_tokens[%s]" % _nm,
        types={"s": "str", "max_tokens": "int"},
        returns="Tuple[str, bool, int]",
        ensures=TRUNC_ENSURES,
        raises="none",
    )
    R.contract(
        _mod + "_tokenize", "C13", name="_tokenize[%s]" % _nm, callee=False,
        types={"s": "Optional[str]"},
        ensures=[("whitespace-split", "implies(not is_none(s), seq_eq(result, some(s).split()))"),
                 ("none-is-empty", "implies(is_none(s), len(result) == 0)")],
        raises="none",
    )

# ---------------------------------------------------------------------------------------------- plan sanitiser
# `text`, `v`, `plan_dict` range over Dyn = every JSON-like python value (see pyvc/dyn.py); json.loads returns an
# arbitrary Dyn value or raises (pyvc/externals.py).  strict_comps=True: exceptions inside the `any(...)` generator
# and the list comprehensions count (their bodies are executed for an arbitrary element).
TRUE_WORDS = "('true', 't', 'yes', 'y', '1')"
FALSE_WORDS = "('false', 'f', 'no', 'n', '0')"
R.contract(
    SAN + "_coerce_bool", "C13",
    types={"v": "Dyn"},
    returns="Tuple[bool, Optional[bool]]",
    ensures=[
        ("bool-passthrough", "implies(is_bool(v), result[0] and result[1] == as_bool(v))"),
        ("int-zero-one", "implies(is_int(v), result[0] == (as_int(v) == 0 or as_int(v) == 1) and "
                         "implies(result[0], result[1] == (as_int(v) == 1)))"),
        ("string-spellings",
         "implies(is_str(v), result[0] == (as_str(v).strip().lower() in " + TRUE_WORDS + " or as_str(v).strip().lower() in " + FALSE_WORDS + ") "
         "and implies(result[0], result[1] == (as_str(v).strip().lower() in " + TRUE_WORDS + ")))"),
        ("everything-else-rejected", "implies(not is_bool(v) and not is_int(v) and not is_str(v), not result[0])"),
        ("rejected-carries-none", "implies(not result[0], is_none(result[1]))"),
        ("accepted-carries-bool", "implies(result[0], not is_none(result[1]))"),
    ],
    raises="none",
)

FENCED = "(old(s).strip().startswith('```') and old(s).strip().endswith('```') and old(s).strip().find('\\n') != -1)"
R.contract(
    SAN + "_strip_triple_fences", "C13",
    types={"s": "str"},
    returns="Tuple[str, Optional[str]]",
    ensures=[
        ("unfenced-is-trimmed-text", "implies(not " + FENCED + ", result[0] == old(s).strip() and is_none(result[1]))"),
        ("fenced-has-language-tag", "implies(" + FENCED + ", not is_none(result[1]))"),
    ],
    raises="none",
)

ACC = "as_dict(accepted_obj)"
PLAN_OUT = "as_list(result[1]['plan'])"
R.contract(
    SAN + "parse_and_validate", "C13",
    types={"text": "Dyn", "schema": "Dyn"},
    ghost={"accepted_obj": ("Dyn", "any")},
    post_setup=["accepted_obj = obj"],
    strict_comps=True,
    ensures=[
        ("non-string-rejected", "implies(not is_str(text), not result[0])"),
        ("oversize-rejected", "implies(is_str(text) and len(as_str(text)) > 20000, not result[0])"),
        ("accepted-within-raw-size", "implies(result[0], is_str(text) and len(as_str(text)) <= 20000)"),
        ("rejected-gives-reason-string", "implies(not result[0], is_str(result[1]))"),
        ("accepted-is-single-object-with-known-keys",
         "implies(result[0], is_dict(accepted_obj) and 'plan' in " + ACC + " and 'rationale' in " + ACC + " and "
         "forall((k, 'str'), k in " + ACC + ", k == 'plan' or k == 'rationale' or k == 'reflection'))"),
        ("accepted-plan-within-limits",
         "implies(result[0], is_list(result[1]['plan']) and len(" + PLAN_OUT + ") <= 16 and "
         "forall(i, 0 <= i < len(" + PLAN_OUT + "), is_str(" + PLAN_OUT + "[i]) and len(as_str(" + PLAN_OUT + "[i])) >= 1 and "
         "len(as_str(" + PLAN_OUT + "[i])) <= 200 and len(as_str(" + PLAN_OUT + "[i]).strip()) > 0))"),
        ("accepted-rationale-within-limits",
         "implies(result[0], is_str(result[1]['rationale']) and len(as_str(result[1]['rationale'])) >= 1 and "
         "len(as_str(result[1]['rationale'])) <= 2000)"),
        ("accepted-passes-plan-and-rationale-through",
         "implies(result[0], dyn_same(result[1]['plan'], " + ACC + "['plan']) and dyn_same(result[1]['rationale'], " + ACC + "['rationale']))"),
        ("reflection-defaults-false", "implies(result[0] and not ('reflection' in " + ACC + "), result[1]['reflection'] == False)"),
    ],
    raises="none",
    loops={1: {"inv": ["forall((kk, 'str'), kk in _done, kk == 'plan' or kk == 'rationale' or kk == 'reflection')"]}},
)

R.contract(
    SAN + "sanitize_plan", "C13",
    types={"plan_dict": "Dyn", "errors": "List[str]"},
    strict_comps=True, feas_timeout_ms=120,
    # the docstring promises "does not raise"; dict(plan_dict) does for anything but a mapping: stated as input shape
    requires=[("plan-is-dict-or-none", "is_dict(plan_dict) or is_null(plan_dict)")],
    ensures=[
        ("returns-only-reflection", "result['reflection'] == True or result['reflection'] == False"),
        ("reflection-defaults-false",
         "implies(is_null(plan_dict) or not ('reflection' in as_dict(plan_dict)), result['reflection'] == False)"),
        ("errors-only-appended", "len(errors) >= old(len(errors)) and forall(i, 0 <= i < old(len(errors)), errors[i] == old(errors)[i])"),
        ("clean-input-no-errors",
         "implies(is_null(plan_dict) or (not ('ops' in as_dict(plan_dict)) and not ('reflection' in as_dict(plan_dict))), "
         "len(errors) == old(len(errors)))"),
    ],
    raises="none",
)

# ---------------------------------------------------------------------------------------------- plan / op types
from contracts import c03_t4  # noqa: F401,E402  (declares the ProposedDelta record used by Plan.deltas)

# the ops of a plan are instances of three frozen dataclasses living in one list: a tagged union (pyvc Registry.union)
R.union("Op",
        {"SpeakOp": ["kind", "intent", "topic_labels", "max_tokens"],
         "EditGraphOp": ["kind", "edits", "cap"],
         "RequestRetrieveOp": ["kind", "query", "owner", "k", "tier_pref", "hints"]},
        fields={"kind": "str", "intent": "str", "topic_labels": "List[str]", "max_tokens": "int",
                "edits": "List[Dyn]", "cap": "int",
                "query": "Dyn", "owner": "str", "k": "int", "tier_pref": "Optional[str]", "hints": "Dyn"})
R.objtype("Plan", {"version": "str", "reflection": "bool", "ops": "List[Op]", "deltas": "List[ProposedDelta]",
                   "request_retrieve": "Dyn"}, cls=("clematis/engine/types.py", "Plan"))
R.dictrec("Thresholds", {"tau_high": "float", "tau_low": "float", "eps_edit": "float"})

# ---------------------------------------------------------------------------------------------- rule based planner
# `bundle` ranges over every JSON-like value (Dyn).  Whatever the bundle looks like, *if* the planner returns, the
# clauses hold; wrongly shaped bundles (e.g. bundle['cfg'] not a dict) make it raise, which the first group of
# contracts allows (raises Exception).  Purity: a Dyn input is an immutable term; any in-place mutation reached
# through it is the failed obligation `<fn>/frame:dyn-value-not-mutated`.
R.contract(
    POL + "_policy_thresholds", "C13",
    types={"bundle": "Dyn"},
    returns="Thresholds",
    ensures=[("thresholds-from-cfg-or-defaults",
              "result['tau_high'] == b_tau_high(bundle) and result['tau_low'] == b_tau_low(bundle) and "
              "result['eps_edit'] == b_eps_edit(bundle)")],
    raises={"Exception": "not wf_plan_bundle(bundle)"},
)

R.contract(
    POL + "_topic_labels_from_bundle", "C13",
    types={"bundle": "Dyn", "cap": "int"},
    returns="List[str]",
    strict_comps=True,
    ensures=[
        ("capped", "len(result) <= max(cap, 0)"),
        ("sorted-deduplicated", "forall2(i, j, 0 <= i and i < j and j < len(result), result[i] < result[j])"),
    ],
    raises={"Exception": "not wf_plan_bundle(bundle)"},
)

EDIT_SHAPE = ("is_dict(%(x)s) and len(as_dict(%(x)s)) == 2 and 'op' in as_dict(%(x)s) and as_dict(%(x)s)['op'] == 'upsert_node' "
              "and 'id' in as_dict(%(x)s) and is_str(as_dict(%(x)s)['id'])")
SEL_SHAPE = ("forall(j, 0 <= j < len(selected), is_dict(selected[j]) and len(as_dict(selected[j])) == 1 and "
             "'id' in as_dict(selected[j]) and is_str(as_dict(selected[j])['id']))")
R.contract(
    POL + "_edit_nodes_from_bundle", "C13",
    types={"bundle": "Dyn", "eps_edit": "float", "cap_nodes": "int"},
    returns="List[Dyn]",
    ensures=[
        ("capped", "len(result) <= max(cap_nodes, 0)"),
        ("upsert-node-edits", "forall(i, 0 <= i < len(result), " + EDIT_SHAPE % {"x": "result[i]"} + ")"),
        ("sorted-by-id", "forall2(i, j, 0 <= i and i < j and j < len(result), "
                         "as_str(as_dict(result[i])['id']) <= as_str(as_dict(result[j])['id']))"),
    ],
    raises={"Exception": "not wf_plan_bundle(bundle)"},
    loops={0: {"inv": [SEL_SHAPE]}},
    locals={"selected": "List[Dyn]"},
    asserts={"selected": [SEL_SHAPE,
                          "forall2(i, j, 0 <= i and i < j and j < len(selected), "
                          "as_str(as_dict(selected[i])['id']) <= as_str(as_dict(selected[j])['id']))"]},
    feas_timeout_ms=100,
)

S_MAX, T_HI, T_LO = "b_s_max(bundle)", "b_tau_high(bundle)", "b_tau_low(bundle)"
OPS = "result.ops"
DELIBERATE_ENSURES = [
    ("ops-within-cap", "len(" + OPS + ") <= max(min(b_base_ops(bundle), b_slice_cap(bundle)), 0)"),
    ("speak-first", "implies(len(" + OPS + ") > 0, " + OPS + "[0].kind == 'Speak' and " + OPS + "[0]._cls == 'SpeakOp')"),
    ("intent-follows-thresholds",
     "implies(len(" + OPS + ") > 0, " + OPS + "[0].intent == intent_for(" + S_MAX + ", " + T_HI + ", " + T_LO + ", "
     "len(" + OPS + "[0].topic_labels) > 0))"),
    ("speak-labels-capped-sorted",
     "implies(len(" + OPS + ") > 0, len(" + OPS + "[0].topic_labels) <= 5 and forall2(i, j, 0 <= i and i < j and "
     "j < len(" + OPS + "[0].topic_labels), " + OPS + "[0].topic_labels[i] < " + OPS + "[0].topic_labels[j]))"),
    ("retrieve-only-below-low-threshold",
     "forall(i, 0 <= i < len(" + OPS + "), implies(" + OPS + "[i].kind == 'RequestRetrieve' or " + OPS + "[i]._cls == 'RequestRetrieveOp', "
     + S_MAX + " < " + T_LO + "))"),
    ("edit-only-at-or-above-low-threshold",
     "forall(i, 0 <= i < len(" + OPS + "), implies(" + OPS + "[i].kind == 'EditGraph' or " + OPS + "[i]._cls == 'EditGraphOp', "
     + S_MAX + " >= " + T_LO + "))"),
    ("only-speak-after-first", "len(" + OPS + ") <= 2 and forall(i, 1 <= i < len(" + OPS + "), " + OPS + "[i].kind != 'Speak')"),
    ("kind-matches-class",
     "forall(i, 0 <= i < len(" + OPS + "), (" + OPS + "[i]._cls == 'SpeakOp') == (" + OPS + "[i].kind == 'Speak') and "
     "(" + OPS + "[i]._cls == 'EditGraphOp') == (" + OPS + "[i].kind == 'EditGraph') and "
     "(" + OPS + "[i]._cls == 'RequestRetrieveOp') == (" + OPS + "[i].kind == 'RequestRetrieve'))"),
    ("edit-cap-within-four-per-remaining-op",
     "forall(i, 0 <= i < len(" + OPS + "), implies(" + OPS + "[i].kind == 'EditGraph', "
     + OPS + "[i].cap == len(" + OPS + "[i].edits) and 1 <= " + OPS + "[i].cap and "
     + OPS + "[i].cap <= 4 * (b_caps_ops(bundle) - 1)))"),
    ("retrieve-request-normalised",
     "forall(i, 0 <= i < len(" + OPS + "), implies(" + OPS + "[i].kind == 'RequestRetrieve', " + OPS + "[i].k >= 1 and "
     "(" + OPS + "[i].owner == 'agent' or " + OPS + "[i].owner == 'world' or " + OPS + "[i].owner == 'any')))"),
    ("plan-header", "result.version == 't3-plan-v1' and result.reflection == False and is_null(result.request_retrieve) "
                    "and len(result.deltas) == 0"),
    ("pure-bundle-unchanged", "dyn_same(bundle, old(bundle))"),
]
R.contract(
    POL + "deliberate", ["C13", "C17"],
    types={"bundle": "Dyn"},
    ensures=DELIBERATE_ENSURES,
    raises=["Exception"],
    locals={"ops": "List[Op]"},
    feas_fresh=True, feas_timeout_ms=100,
)

# ---------------------------------------------------------------------------------------------- one-shot RAG refinement
# `retrieve_fn` is a function-typed parameter: its contract counts every call in the ghost counter `rcalls`, may raise
# and returns an arbitrary JSON-like value.  Its precondition (normalised payload) is proved
# at the call site.
PAYLOAD_OK = ("is_dict(%(p)s) and 'k' in as_dict(%(p)s) and is_int(as_dict(%(p)s)['k']) and as_int(as_dict(%(p)s)['k']) >= 1 and "
              "'owner' in as_dict(%(p)s) and (as_dict(%(p)s)['owner'] == 'agent' or as_dict(%(p)s)['owner'] == 'world' or "
              "as_dict(%(p)s)['owner'] == 'any') and 'query' in as_dict(%(p)s) and 'hints' in as_dict(%(p)s) and "
              "is_dict(as_dict(%(p)s)['hints']) and 'now' in as_dict(as_dict(%(p)s)['hints']) and "
              "'sim_threshold' in as_dict(as_dict(%(p)s)['hints'])")
R.funtype("RetrieveFn", params=["payload"], returns="Dyn", raises="Exception",
          requires=[("payload-normalised", PAYLOAD_OK % {"p": "payload"})],
          effects_before=["rcalls = rcalls + 1"])

R.contract(
    LEG + "_refined_intent", "C13",
    types={"tau_high": "float", "tau_low": "float", "labels": "List[str]", "s_max": "float"},
    returns="str",
    pure_result="intent_for(s_max, tau_high, tau_low, len(labels) > 0)",
    raises="none",
)

# helper: normalises whatever the retrieval callback returned (any JSON-like value)
HIT_SHAPE = ("is_dict(%(x)s) and 'id' in as_dict(%(x)s) and is_str(as_dict(%(x)s)['id']) and len(as_str(as_dict(%(x)s)['id'])) > 0 "
             "and 'score' in as_dict(%(x)s) and is_float(as_dict(%(x)s)['score'])")
R.contract(
    LEG + "_normalize_retrieved_result", "C13",
    types={"result": "Dyn"},
    returns="Tuple[List[Dyn], int, float]",
    ensures=[
        ("count-is-length", "result[1] == len(result[0])"),
        ("hits-are-normalised-dicts", "forall(i, 0 <= i < len(result[0]), " + HIT_SHAPE % {"x": "result[0][i]"} + ")"),
        ("s-max-zero-when-empty", "implies(len(result[0]) == 0, result[2] == 0.0)"),
        ("s-max-bounds-scores", "forall(i, 0 <= i < len(result[0]), as_float(as_dict(result[0][i])['score']) <= result[2])"),
    ],
    raises=["Exception"],
    loops={0: {"inv": ["forall(j, 0 <= j < len(hits), " + HIT_SHAPE % {"x": "hits[j]"} + ")"]}},
    locals={"hits": "List[Dyn]"},
    feas_fresh=True, feas_timeout_ms=100,
)

# type invariant of plans (dataclass annotation `RequestRetrieveOp.hints: Dict[str, Any]`): dict(op.hints) is total only for mappings
HINTS_ARE_DICTS = ("forall(i, 0 <= i < len(plan.ops), implies(plan.ops[i]._cls == 'RequestRetrieveOp', "
                   "is_dict(plan.ops[i].hints)))")
RR = "as_dict(result)"
R.contract(
    LEG + "_first_request_retrieve_payload", "C13",
    types={"plan": "Plan"},
    returns="Dyn",
    requires=[("request-hints-are-dicts", HINTS_ARE_DICTS)],
    ensures=[
        ("none-iff-no-request",
         "is_null(result) == forall(i, 0 <= i < len(plan.ops), plan.ops[i].kind != 'RequestRetrieve')"),
        ("payload-shape",
         "implies(not is_null(result), is_dict(result) and len(" + RR + ") == 5 and 'query' in " + RR + " and 'owner' in " + RR + " and "
         "'k' in " + RR + " and is_int(" + RR + "['k']) and 'tier_pref' in " + RR + " and 'hints' in " + RR + " and is_dict(" + RR + "['hints']))"),
        ("payload-of-first-request",
         "implies(not is_null(result), exists(p, 0 <= p < len(plan.ops), plan.ops[p].kind == 'RequestRetrieve' and "
         "forall(j, 0 <= j < p, plan.ops[j].kind != 'RequestRetrieve') and "
         "implies(plan.ops[p]._cls == 'RequestRetrieveOp', " + RR + "['owner'] == plan.ops[p].owner and "
         "dyn_same(" + RR + "['query'], plan.ops[p].query) and as_int(" + RR + "['k']) == plan.ops[p].k)))"),
        ("plan-untouched", "seq_eq(plan.ops, old(plan.ops))"),
    ],
    raises="none",
    loops={0: {"inv": ["forall(j, 0 <= j < _i, _iter[j].kind != 'RequestRetrieve')", "seq_eq(_iter, plan.ops)"]}},
)

RRD = "as_dict(rr)"
R.contract(
    LEG + "_normalize_rr_payload", "C13",
    types={"bundle": "Dyn", "rr": "Dyn"},
    returns="Dyn",
    requires=[("request-payload-shape", "is_dict(rr) and implies('hints' in " + RRD + ", is_dict(" + RRD + "['hints']) or is_null(" + RRD + "['hints'])) "
                                        "and implies('k' in " + RRD + ", is_int(" + RRD + "['k']))")],
    ensures=[
        ("payload-normalised", PAYLOAD_OK % {"p": "result"}),
        ("query-and-tier-passed-through",
         "dyn_same(as_dict(result)['query'], dget(rr, 'query', '')) and 'tier_pref' in as_dict(result) and "
         "dyn_same(as_dict(result)['tier_pref'], dget(rr, 'tier_pref', None))"),
        ("owner-normalised",
         "as_dict(result)['owner'] == ite(dget(rr, 'owner', 'any') == 'agent', 'agent', ite(dget(rr, 'owner', 'any') == 'world', 'world', 'any'))"),
        ("inputs-unchanged", "dyn_same(bundle, old(bundle)) and dyn_same(rr, old(rr))"),
    ],
    raises={"Exception": "not wf_plan_bundle(bundle)"},
    feas_fresh=True, feas_timeout_ms=100,
)

HAS_RR = "exists(r, 0 <= r < len(plan.ops), plan.ops[r].kind == 'RequestRetrieve')"
NEW = "result[0].ops"
CAPS = "min(b_base_ops(bundle), b_slice_cap(bundle))"
# ghost definition used by the loop invariant: FS = index of the first op of kind 'Speak' in plan.ops, -1 when there is none
R.uf("first_idx_of_kind", ["List[Op]", "str"], "int")
FS = "first_idx_of_kind(plan.ops, 'Speak')"
AX_FIRST_SPEAK = [
    "(" + FS + " == -1 and forall(w, 0 <= w < len(plan.ops), plan.ops[w].kind != 'Speak')) or "
    "(0 <= " + FS + " and " + FS + " < len(plan.ops) and plan.ops[" + FS + "].kind == 'Speak' and "
    "forall(w, 0 <= w < " + FS + ", plan.ops[w].kind != 'Speak'))"]
RAG_LOOP_INV = [
    "len(new_ops) == _i",
    "speak_replaced == (0 <= " + FS + " and " + FS + " < _i)",
    "has_editgraph == exists(w, 0 <= w < _i, plan.ops[w].kind == 'EditGraph')",
    "forall(j, 0 <= j < _i, new_ops[j].kind == plan.ops[j].kind)",
    "forall(j, 0 <= j < _i, ite(j == " + FS + ", new_ops[j]._cls == 'SpeakOp' and new_ops[j].intent == new_intent "
    "and new_ops[j].max_tokens == tokens and seq_eq(new_ops[j].topic_labels, labels), new_ops[j] == plan.ops[j]))",
    "rcalls == 1",
]
# Bundles are shaped as bundle.assemble_bundle builds them (wf_plan_bundle, contracts/specs.py: every key optional, a present
# key has its documented type; similarity statistics, touched nodes, labels and caps are arbitrary).  Negative caps are
# outside the validated configuration space (configs/validate.py: t3.max_ops_per_turn in [1, 16], budgets.t3_ops >= 0);
# for them `new_ops[:caps_ops]` drops only the last -caps ops (observed natively, reported) -- hence `caps >= 0` in the clause.
R.contract(
    LEG + "rag_once", "C13",
    types={"bundle": "Dyn", "plan": "Plan", "retrieve_fn": "RetrieveFn", "already_used": "bool"},
    ghost={"rcalls": ("int", "0"), "g_post": ("float", "any"), "g_intent": ("str", "any"), "g_haslabels": ("bool", "any")},
    post_setup=["g_post = post_s_max", "g_intent = new_intent", "g_haslabels = len(labels) > 0"],
    axioms=AX_FIRST_SPEAK,
    requires=[("request-hints-are-dicts", HINTS_ARE_DICTS), ("bundle-as-assembled", "wf_plan_bundle(bundle)")],
    ensures=[
        ("retrieve-at-most-once", "rcalls <= 1"),
        ("no-retrieve-when-already-used", "implies(already_used, rcalls == 0)"),
        ("no-retrieve-without-request", "implies(not " + HAS_RR + ", rcalls == 0)"),
        ("retrieve-once-when-requested-and-unused", "implies(not already_used and " + HAS_RR + ", rcalls == 1)"),
        ("plan-object-returned-unchanged-without-retrieval", "implies(rcalls == 0, same_obj(result[0], plan))"),
        ("new-ops-within-cap", "implies(rcalls == 1 and " + CAPS + " >= 0, len(" + NEW + ") <= max(" + CAPS + ", 0))"),
        ("at-most-one-op-added", "implies(rcalls == 1, len(" + NEW + ") <= len(plan.ops) + 1)"),
        ("kept-ops-keep-their-kind",
         "implies(rcalls == 1, forall(i, 0 <= i < len(" + NEW + ") and i < len(plan.ops), " + NEW + "[i].kind == plan.ops[i].kind))"),
        ("first-speak-refined-others-kept",
         "implies(rcalls == 1, forall(i, 0 <= i < len(" + NEW + ") and i < len(plan.ops), "
         "ite(i == " + FS + ", " + NEW + "[i]._cls == 'SpeakOp' and " + NEW + "[i].intent == g_intent, "
         + NEW + "[i] == plan.ops[i])))"),
        ("refined-intent-follows-thresholds",
         "implies(rcalls == 1, g_intent == intent_for(g_post, b_tau_high(bundle), b_tau_low(bundle), g_haslabels))"),
        ("evidence-never-decreases", "implies(rcalls == 1, g_post >= b_s_max(bundle) and result[1]['post_s_max'] == g_post)"),
        ("added-op-is-an-edit", "implies(rcalls == 1 and len(" + NEW + ") > len(plan.ops), "
                                + NEW + "[len(plan.ops)].kind == 'EditGraph' and g_post >= b_tau_low(bundle))"),
        ("metrics-flags", "result[1]['rag_used'] == (rcalls == 1) and result[1]['rag_blocked'] == already_used and "
                          "result[1]['pre_s_max'] == b_s_max(bundle)"),
        ("header-kept", "implies(rcalls == 1, result[0].version == 't3-plan-v1' and result[0].reflection == plan.reflection and "
                        "dyn_same(result[0].request_retrieve, plan.request_retrieve))"),
        ("input-plan-untouched", "seq_eq(plan.ops, old(plan.ops)) and plan.reflection == old(plan.reflection) and "
                                 "plan.version == old(plan.version)"),
        ("pure-bundle-unchanged", "dyn_same(bundle, old(bundle))"),
    ],
    ensures_exc=[("retrieve-at-most-once-even-when-raising", "rcalls <= 1"),
                 ("no-retrieve-when-already-used-exc", "implies(already_used, rcalls == 0)"),
                 ("no-retrieve-without-request-exc", "implies(not " + HAS_RR + ", rcalls == 0)"),
                 # with a well-shaped bundle nothing raises before the callback is reached
                 ("raises-only-after-the-callback-ran", "rcalls == 1")],
    raises=["Exception"],
    loops={0: {"inv": RAG_LOOP_INV}},
    locals={"new_ops": "List[Op]", "has_editgraph": "bool", "speak_replaced": "bool"},
    # the `except Exception: slice_cap = base_ops` arm needs a malformed bundle['slice_caps'], excluded by wf_plan_bundle
    unreachable_ok=["slice_cap = base_ops"],
    feas_fresh=True, feas_timeout_ms=100,
)

# ---------------------------------------------------------------------------------------------- dialogue synthesis
R.contract(
    DLG + "_first_speak_op", "C13",
    types={"plan": "Plan"},
    returns="Optional[Op]",
    ensures=[
        ("none-iff-no-speak", "is_none(result) == forall(i, 0 <= i < len(plan.ops), plan.ops[i].kind != 'Speak')"),
        ("first-speak-op",
         "implies(not is_none(result), exists(p, 0 <= p < len(plan.ops), plan.ops[p] == some(result) and "
         "plan.ops[p].kind == 'Speak' and forall(j, 0 <= j < p, plan.ops[j].kind != 'Speak')))"),
        ("result-kind-speak", "implies(not is_none(result), some(result).kind == 'Speak')"),
        ("plan-untouched", "seq_eq(plan.ops, old(plan.ops))"),
    ],
    raises="none",
    loops={0: {"inv": ["forall(j, 0 <= j < _i, _iter[j].kind != 'Speak')", "seq_eq(_iter, plan.ops)"]}},
)

R.contract(
    DLG + "_dedupe_sort_list", "C13",
    types={"xs": "List[str]"},
    returns="List[str]",
    ensures=[
        ("sorted-deduplicated", "forall2(i, j, 0 <= i and i < j and j < len(result), result[i] < result[j])"),
        ("same-elements", "forall(i, 0 <= i < len(xs), xs[i] in result) and forall(i, 0 <= i < len(result), result[i] in xs)"),
        ("input-untouched", "seq_eq(xs, old(xs))"),
    ],
    raises="none",
)

TOPK = "dget(dget(dialog_bundle, 'dialogue', {}), 'include_top_k_snippets', 2)"
R.contract(
    DLG + "_top_snippet_ids", "C13",
    types={"dialog_bundle": "Dyn"},
    returns="List[str]",
    strict_comps=True,
    ensures=[("at-most-top-k", "len(result) <= max(ite(dyn_truthy(" + TOPK + "), dyn_int(" + TOPK + "), 2), 0)")],
    raises={"Exception": "not wf_dialog_bundle(dialog_bundle)"},
)

SNIP_SHAPE = ("is_dict(%(x)s) and 'id' in as_dict(%(x)s) and is_str(as_dict(%(x)s)['id']) and 'text' in as_dict(%(x)s) and "
              "is_str(as_dict(%(x)s)['text']) and 'score' in as_dict(%(x)s) and is_float(as_dict(%(x)s)['score'])")
R.contract(
    DLG + "_top_snippets", "C13",
    types={"dialog_bundle": "Dyn"},
    returns="List[Dyn]",
    ensures=[("snippet-records", "forall(i, 0 <= i < len(result), " + SNIP_SHAPE % {"x": "result[i]"} + ")")],
    raises={"Exception": "not wf_dialog_bundle(dialog_bundle)"},
    loops={0: {"inv": ["forall(j, 0 <= j < len(hits), " + SNIP_SHAPE % {"x": "hits[j]"} + ")"]}},
    locals={"hits": "List[Dyn]"},
    feas_fresh=True, feas_timeout_ms=100,
)

SPK = "some(speak_op)"
AGENT_TOKENS = ("ite(is_dict(dget(dialog_bundle, 'agent', {})) and is_dict(dget(dget(dialog_bundle, 'agent', {}), 'caps', {})) and "
                "dyn_int_ok(dget(dget(dget(dialog_bundle, 'agent', {}), 'caps', {}), 'tokens', 256)), "
                "dyn_int(dget(dget(dget(dialog_bundle, 'agent', {}), 'caps', {}), 'tokens', 256)), 256)")
# "the utterance never exceeds its token budget ... for all token budgets": the budget of a turn that has a Speak op is
# that op's max_tokens -- 0 included (the planner emits SpeakOp(max_tokens=cfg.t3.tokens), and 0 is a legal value)
SPEAK_CAP_SET = "(not is_none(speak_op) and " + SPK + "._cls == 'SpeakOp')"
# type invariant of plan ops (Literal `kind` annotations of the three dataclasses)
KIND_MATCHES_CLASS = ("forall(i, 0 <= i < len(plan.ops), (plan.ops[i]._cls == 'SpeakOp') == (plan.ops[i].kind == 'Speak') and "
                      "(plan.ops[i]._cls == 'EditGraphOp') == (plan.ops[i].kind == 'EditGraph') and "
                      "(plan.ops[i]._cls == 'RequestRetrieveOp') == (plan.ops[i].kind == 'RequestRetrieve'))")
# dialog bundles as legacy.make_dialog_bundle builds them (wf_dialog_bundle, contracts/specs.py): template, style prefix,
# identity, labels, snippets and every cap are arbitrary.  On those inputs speak() is total.
R.contract(
    DLG + "speak", "C13",
    types={"dialog_bundle": "Dyn", "plan": "Plan"},
    requires=[("dialog-bundle-as-assembled", "wf_dialog_bundle(dialog_bundle)"), ("op-kind-matches-class", KIND_MATCHES_CLASS)],
    ensures=[
        ("utterance-within-resolved-budget", "ws_tokens(result[0]) <= max(max_tokens, 0)"),
        # the budget the function resolves: the first Speak op's max_tokens when there is a Speak op, else the agent cap
        ("budget-is-speak-op-cap", "implies(" + SPEAK_CAP_SET + ", max_tokens == " + SPK + ".max_tokens)"),
        ("budget-falls-back-to-agent-cap", "implies(not " + SPEAK_CAP_SET + ", max_tokens == " + AGENT_TOKENS + ")"),
        ("speak-op-is-first-speak",
         "is_none(speak_op) == forall(i, 0 <= i < len(plan.ops), plan.ops[i].kind != 'Speak')"),
        ("reported-token-count", "result[1]['tokens'] == ws_tokens(result[0])"),
        ("truncated-flag", "result[1]['truncated'] == (max_tokens <= 0 or ws_tokens(utter) > max_tokens)"),
        ("unchanged-when-fits", "implies(max_tokens > 0 and ws_tokens(utter) <= max_tokens, result[0] == utter)"),
        ("snippet-count-reported", "result[1]['snippet_count'] == len(snippet_ids)"),
        ("plan-untouched", "seq_eq(plan.ops, old(plan.ops))"),
        ("pure-bundle-unchanged", "dyn_same(dialog_bundle, old(dialog_bundle))"),
    ],
    raises="none",
    # int(speak_op.max_tokens) cannot fail for an int field; bundle['agent']['caps'] is a dict under wf_dialog_bundle
    unreachable_ok=["max_tokens = 256"],
    feas_fresh=True, feas_timeout_ms=100,
)
