"""C01: Engine-F clauses on nondeterminism sources (wall clock, set iteration order) and tie-breaks."""
import ast
from pyvc.verifier import REG as R
from pyvc.effects import result, find_sites

RT = "clematis/engine/orchestrator/core.py:Orchestrator.run_turn"
MASKED = {"ms", "durations_ms", "now", "elapsed_ms", "t1_ms", "t2_ms", "t3_ms", "t4_ms", "apply_ms", "total_ms"}


def _masked_key(k):
    return isinstance(k, ast.Constant) and (k.value in MASKED or str(k.value).endswith("_ms") or str(k.value).startswith("ms_"))


def dict_is_clean(d, tainted, clock):
    for k, v in zip(d.keys, d.values):
        dirty = clock(v) or any(isinstance(x, ast.Name) and x.id in tainted for x in ast.walk(v))
        if dirty and not (k is not None and _masked_key(k)):
            return False
    return True


def wall_clock_is_masked(cl, mod, cls, func):
    """every value derived from time.perf_counter()/time.time() inside run_turn flows only into (a) other timing
    locals, (b) dict entries whose key is a masked timing key (normalize_for_identity zeroes those under CI), or
    (c) the scheduler's `consumed['ms']`, which decides WALL_MS / QUANTUM yields (reported separately)."""
    tainted = set()
    timing_records = set()      # records that carry wall-clock values under masked keys only
    sched = set()
    clock = lambda e: any(isinstance(n, ast.Call) and ast.unparse(n.func) in ("time.perf_counter", "time.time", "time.monotonic", "_now_ms")
                          for n in ast.walk(e))
    assigns = [n for n in ast.walk(func) if isinstance(n, ast.Assign) and len(n.targets) == 1 and isinstance(n.targets[0], ast.Name)]
    changed = True
    while changed:
        changed = False
        for a in assigns:
            nm = a.targets[0].id
            if nm in tainted:
                continue
            if isinstance(a.value, ast.Call) and getattr(a.value.func, "id", None) == "_should_yield":
                if any(isinstance(x, ast.Name) and (x.id in tainted or x.id in timing_records) for x in ast.walk(a.value)):
                    sched.add(a.lineno)
                continue      # the yield decision is reported as its own obligation below
            if isinstance(a.value, ast.Dict) and dict_is_clean(a.value, tainted, clock):
                # wall-clock values sit only under masked timing keys of this record
                if clock(a.value) or any(isinstance(x, ast.Name) and x.id in tainted for x in ast.walk(a.value)):
                    if nm not in timing_records:
                        timing_records.add(nm)
                        changed = True
                continue
            if clock(a.value) or any(isinstance(x, ast.Name) and x.id in tainted for x in ast.walk(a.value)):
                tainted.add(nm)
                changed = True
    if not tainted:
        return [result(cl["name"], "error", "anchor lost: no wall-clock reads found in run_turn")]
    parents = {}
    for n in ast.walk(func):
        for ch in ast.iter_child_nodes(n):
            parents[id(ch)] = n
    bad = []
    for n in ast.walk(func):
        if isinstance(n, ast.Name) and isinstance(n.ctx, ast.Load) and n.id in tainted:
            # climb to the consuming construct
            cur, ok, why = n, False, ""
            while id(cur) in parents:
                p = parents[id(cur)]
                if isinstance(p, ast.Assign) and len(p.targets) == 1:
                    t = p.targets[0]
                    if isinstance(t, ast.Name) and t.id in tainted:
                        ok = True
                    elif isinstance(t, ast.Subscript) and isinstance(t.slice, ast.Constant) and (t.slice.value in MASKED or str(t.slice.value).endswith("_ms") or str(t.slice.value).startswith("ms_")):
                        ok = True
                    break
                if isinstance(p, ast.Dict):
                    for k, v in zip(p.keys, p.values):
                        if v is cur or any(x is cur for x in ast.walk(v)):
                            if isinstance(k, ast.Constant) and (k.value in MASKED or str(k.value).endswith("_ms") or str(k.value).startswith("ms_")):
                                ok = True
                    if ok:
                        break
                if isinstance(p, ast.keyword) and p.arg and (p.arg in MASKED or p.arg.endswith("_ms")):
                    ok = True
                    break
                if isinstance(p, (ast.stmt,)) and not isinstance(p, ast.Assign):
                    break
                cur = p
            if not ok:
                bad.append("line %d: %s" % (n.lineno, n.id))
    out = []
    out.append(result(cl["name"] + "/timing-values-only-in-masked-fields", "failed" if bad else "proved",
                      ("a wall-clock derived value reaches an unmasked position: " + "; ".join(sorted(set(bad))[:8])) if bad else "",
                      where="%d timing locals tracked" % len(tainted)))
    out.append(result(cl["name"] + "/yield-decisions-do-not-depend-on-wall-clock", "failed" if sched else "proved",
                      ("_should_yield(slice_ctx, consumed) is fed with consumed['ms'] measured by time.perf_counter() at lines %s: with "
                       "scheduler.enabled the WALL_MS / QUANTUM_EXCEEDED yields, and with them the control flow and every later "
                       "record of the turn, depend on wall-clock speed" % sorted(sched)) if sched else ""))
    return out


R.fclause("C01", "wall-clock", "custom", RT, fn=wall_clock_is_masked)


def no_unsorted_set_iteration(cl, mod, cls, func):
    """iteration order of a set is hash-seed dependent: every for-loop / comprehension / list() over a set-valued
    expression in this function goes through sorted()"""
    setvars = set()
    for n in ast.walk(func):
        if isinstance(n, (ast.Assign, ast.AnnAssign)):
            v = n.value
            tg = n.targets[0] if isinstance(n, ast.Assign) else n.target
            if v is not None and isinstance(tg, ast.Name) and (isinstance(v, (ast.Set, ast.SetComp)) or
                                                               (isinstance(v, ast.Call) and getattr(v.func, "id", None) in ("set", "frozenset"))):
                setvars.add(tg.id)
    def is_set(e):
        if isinstance(e, (ast.Set, ast.SetComp)):
            return True
        if isinstance(e, ast.Call) and getattr(e.func, "id", None) in ("set", "frozenset"):
            return True
        if isinstance(e, ast.Name) and e.id in setvars:
            return True
        if isinstance(e, ast.BinOp) and isinstance(e.op, (ast.BitOr, ast.BitAnd, ast.Sub)) and (is_set(e.left) or is_set(e.right)):
            return True
        return False
    bad = []
    for n in ast.walk(func):
        its = []
        if isinstance(n, ast.For):
            its.append(n.iter)
        if isinstance(n, (ast.ListComp, ast.GeneratorExp, ast.DictComp)):
            its.extend(g.iter for g in n.generators)
        if isinstance(n, ast.Call) and getattr(n.func, "id", None) in ("list", "tuple", "enumerate") and n.args:
            its.append(n.args[0])
        for it in its:
            if is_set(it):
                bad.append("line %d: %s" % (it.lineno, ast.unparse(it)[:50]))
    if bad:
        return [result(cl["name"], "failed", "hash-order dependent iteration over a set: " + "; ".join(bad[:6]))]
    return [result(cl["name"], "proved", where="%d set-valued locals, all iterated through sorted()" % len(setvars))]


for key in ["clematis/engine/stages/t2/state.py:gather_changed_labels", "clematis/engine/stages/t2/state.py:build_label_map",
            "clematis/engine/stages/t1.py:_match_keywords", "clematis/engine/stages/t4.py:t4_filter",
            "clematis/engine/stages/t4.py:_combine_by_ckey", "clematis/engine/gel.py:observe_retrieval",
            "clematis/engine/util/snapshot_delta.py:_walk_diff", "clematis/engine/orchestrator/parallel.py:_select_independent_batch"]:
    R.fclause("C01", "set-order/" + key.split(":")[1], "custom", key, fn=no_unsorted_set_iteration)


def no_rng_or_id(cl, mod, cls, func):
    bad = []
    for n in ast.walk(func):
        if isinstance(n, ast.Call):
            src = ast.unparse(n.func)
            if src.split(".")[0] in ("random", "secrets", "uuid") or src in ("id", "hash", "os.urandom", "datetime.now", "dt.datetime.now", "datetime.datetime.now"):
                bad.append("line %d: %s" % (n.lineno, src))
    if bad:
        return [result(cl["name"], "failed", "nondeterminism source used: " + "; ".join(bad[:6]))]
    return [result(cl["name"], "proved")]


for key in ["clematis/engine/stages/t1.py:t1_propagate", "clematis/engine/stages/t4.py:t4_filter", "clematis/engine/apply.py:_bump_version_etag",
            "clematis/memory/index.py:InMemoryIndex._rank_by_cosine", "clematis/engine/gel.py:observe_retrieval", "clematis/engine/gel.py:tick",
            "clematis/engine/scheduler.py:next_turn", "clematis/engine/orchestrator/reflection.py:_episode_id",
            "clematis/engine/stages/t3/policy.py:deliberate"]:
    R.fclause("C01", "no-rng/" + key.split(":")[1], "custom", key, fn=no_rng_or_id)


# ---------------------------------------------------------------- module-wide: no salted hash / RNG / object identity
# "The outcome does not depend on the process, the string-hash seed ...": builtin hash() of str/bytes is salted per
# process (PYTHONHASHSEED), id() is an address, random/uuid/secrets/os.urandom are RNGs.  Clause per module on the turn
# path: no function of the module *uses the value* of such a call (a bare `hash(x)` statement is a hashability probe).
# Existing sites are whitelisted one by one with the reason; any other site -- e.g. an md5-based stable id replaced by
# hash() -- fails the clause of its module.
import glob as _glob
import os as _os
from pyvc import frontend as _fe

_RNG_WHITELIST = {
    ("clematis/io/atomic.py", "atomic_replace", "random.uniform"):
        "retry back-off jitter: only the sleep time between os.replace attempts depends on it",
    ("clematis/memory/lance_index.py", "add", "uuid.uuid4"):
        "optional LanceDB backend (not the default index): id for an episode that comes without one -- NOT decided here",
}
_TURN_PATH_MODULES = ["clematis/engine/stages/*.py", "clematis/engine/stages/t2/*.py", "clematis/engine/stages/t3/*.py",
                      "clematis/engine/orchestrator/*.py", "clematis/engine/*.py", "clematis/engine/util/*.py",
                      "clematis/engine/policy/*.py", "clematis/memory/*.py", "clematis/graph/*.py", "clematis/io/*.py",
                      "clematis/adapters/*.py"]


def _salted_sources(cl, mod, cls, func):
    rel = cl["key"].split(":")[0]
    out = []
    parents = {}
    for n in ast.walk(mod.tree):
        for ch in ast.iter_child_nodes(n):
            parents[id(ch)] = n
    bad = []
    nfun = 0
    for fn in ast.walk(mod.tree):
        if not isinstance(fn, (ast.FunctionDef, ast.AsyncFunctionDef)):
            continue
        nfun += 1
        for n in ast.walk(fn):
            if not isinstance(n, ast.Call):
                continue
            src = ast.unparse(n.func)
            hit = src.split(".")[0] in ("random", "secrets", "uuid") or src in ("id", "hash", "os.urandom", "_os.urandom")
            if not hit:
                continue
            if src in ("hash", "id") and isinstance(parents.get(id(n)), ast.Expr):
                continue        # value discarded: hashability probe
            if (rel, fn.name, src) in _RNG_WHITELIST:
                continue
            bad.append("%s line %d: %s(...)" % (fn.name, n.lineno, src))
    nm = cl["name"]
    if bad:
        return [result(nm, "failed", "salted hash / RNG / object identity used on the turn path: " + "; ".join(sorted(set(bad))[:8]))]
    return [result(nm, "proved", where="%d functions scanned" % nfun)]


def _first_function_key(rel):
    m = _fe.load_module(rel)
    if m.functions:
        return rel + ":" + sorted(m.functions)[0]
    for cn in sorted(m.classes):
        ci = m.classes[cn]
        for st in ci.node.body:
            if isinstance(st, ast.FunctionDef):
                return rel + ":" + cn + "." + st.name
    return None


_seen_mods = set()
for _pat in _TURN_PATH_MODULES:
    for _p in sorted(_glob.glob(_os.path.join(_fe.REPO, _pat))):
        _rel = _os.path.relpath(_p, _fe.REPO)
        if _rel in _seen_mods or _rel.endswith("__init__.py"):
            continue
        _seen_mods.add(_rel)
        try:
            _k = _first_function_key(_rel)
        except Exception:
            _k = None
        if _k:
            R.fclause("C01", "no-salted-hash-or-rng/" + _rel, "custom", _k, fn=_salted_sources)


# ---------------------------------------------------------------- the logical clock reaches T2 unmodified
# "same ... logical clock ... always yields identical ...": t2_semantic takes its notion of now from ctx.now and hands
# it to the index (C11 tier-walk regions: hints['now'] == now_str) and to the recency score.  Clause: the local
# `now_str` is bound from getattr(ctx, 'now', None) and is rebound only inside the `if not now_str:` fallback (no
# logical clock given: wall clock, outside the property's premise).  Any other rewrite of the clock string (appending
# a zone suffix, reformatting) can make the ISO parsers fall back to datetime.now() and is rejected here.
def logical_clock_unmodified(cl, mod, cls, func):
    var = "now_str"
    parents = {}
    for n in ast.walk(func):
        for ch in ast.iter_child_nodes(n):
            parents[id(ch)] = n
    binds = []
    for n in ast.walk(func):
        tgts = []
        if isinstance(n, ast.Assign):
            tgts = n.targets
        elif isinstance(n, (ast.AnnAssign, ast.AugAssign)):
            tgts = [n.target]
        if any(isinstance(t, ast.Name) and t.id == var for t in tgts):
            binds.append(n)
    if not binds:
        return [result(cl["name"], "error", "anchor lost: no binding of %s in %s" % (var, func.name))]
    bad = []
    seen_source = False
    for b in binds:
        src = ast.unparse(b.value) if getattr(b, "value", None) is not None else ""
        if src in ("getattr(ctx, 'now', None)",):
            seen_source = True
            continue
        # inside `if not now_str:` ?
        p = parents.get(id(b))
        ok = False
        while p is not None and p is not func:
            if isinstance(p, ast.If) and ast.unparse(p.test) == "not %s" % var and any(b is x or any(b is y for y in ast.walk(x)) for x in p.body):
                ok = True
                break
            p = parents.get(id(p))
        if not ok:
            bad.append("line %d: %s" % (b.lineno, ast.unparse(b)[:70]))
    if not seen_source:
        bad.append("no binding `%s = getattr(ctx, 'now', None)`" % var)
    if bad:
        return [result(cl["name"], "failed", "the logical clock string is rewritten before use: " + "; ".join(bad))]
    return [result(cl["name"], "proved", where="%d binding(s)" % len(binds))]


R.fclause("C01", "logical-clock/t2-now-is-ctx-now", "custom", "clematis/engine/stages/t2/core.py:t2_semantic", fn=logical_clock_unmodified)
