"""C01: Engine-F clauses on nondeterminism sources (wall clock, set iteration order) and tie-breaks."""
import ast
from pyvc.verifier import REG as R
from pyvc.effects import result, find_sites

RT = "clematis/engine/orchestrator/core.py:Orchestrator.run_turn"
MASKED = {"ms", "durations_ms", "now", "elapsed_ms", "t1_ms", "t2_ms", "t3_ms", "t4_ms", "apply_ms", "total_ms"}


def _masked_key(k):
    return isinstance(k, ast.Constant) and (k.value in MASKED or str(k.value).endswith("_ms") or str(k.value).startswith("ms_"))


def dict_is_clean(d, tainted, clock):
    for k, v in zip(d.keys, d.values):
        dirty = clock(v) or any(isinstance(x, ast.Name) and x.id in tainted for x in ast.walk(v))
        if dirty and not (k is not None and _masked_key(k)):
            return False
    return True


def wall_clock_is_masked(cl, mod, cls, func):
    """every value derived from time.perf_counter()/time.time() inside run_turn flows only into (a) other timing
    locals, (b) dict entries whose key is a masked timing key (normalize_for_identity zeroes those under CI), or
    (c) the scheduler's `consumed['ms']`, which decides WALL_MS / QUANTUM yields (reported separately)."""
    tainted = set()
    timing_records = set()      # records that carry wall-clock values under masked keys only
    sched = set()
    clock = lambda e: any(isinstance(n, ast.Call) and ast.unparse(n.func) in ("time.perf_counter", "time.time", "time.monotonic", "_now_ms")
                          for n in ast.walk(e))
    assigns = [n for n in ast.walk(func) if isinstance(n, ast.Assign) and len(n.targets) == 1 and isinstance(n.targets[0], ast.Name)]
    changed = True
    while changed:
        changed = False
        for a in assigns:
            nm = a.targets[0].id
            if nm in tainted:
                continue
            if isinstance(a.value, ast.Call) and getattr(a.value.func, "id", None) == "_should_yield":
                if any(isinstance(x, ast.Name) and (x.id in tainted or x.id in timing_records) for x in ast.walk(a.value)):
                    sched.add(a.lineno)
                continue      # the yield decision is reported as its own obligation below
            if isinstance(a.value, ast.Dict) and dict_is_clean(a.value, tainted, clock):
                # wall-clock values sit only under masked timing keys of this record
                if clock(a.value) or any(isinstance(x, ast.Name) and x.id in tainted for x in ast.walk(a.value)):
                    if nm not in timing_records:
                        timing_records.add(nm)
                        changed = True
                continue
            if clock(a.value) or any(isinstance(x, ast.Name) and x.id in tainted for x in ast.walk(a.value)):
                tainted.add(nm)
                changed = True
    if not tainted:
        return [result(cl["name"], "error", "anchor lost: no wall-clock reads found in run_turn")]
    parents = {}
    for n in ast.walk(func):
        for ch in ast.iter_child_nodes(n):
            parents[id(ch)] = n
    bad = []
    for n in ast.walk(func):
        if isinstance(n, ast.Name) and isinstance(n.ctx, ast.Load) and n.id in tainted:
            # climb to the consuming construct
            cur, ok, why = n, False, ""
            while id(cur) in parents:
                p = parents[id(cur)]
                if isinstance(p, ast.Assign) and len(p.targets) == 1:
                    t = p.targets[0]
                    if isinstance(t, ast.Name) and t.id in tainted:
                        ok = True
                    elif isinstance(t, ast.Subscript) and isinstance(t.slice, ast.Constant) and (t.slice.value in MASKED or str(t.slice.value).endswith("_ms") or str(t.slice.value).startswith("ms_")):
                        ok = True
                    break
                if isinstance(p, ast.Dict):
                    for k, v in zip(p.keys, p.values):
                        if v is cur or any(x is cur for x in ast.walk(v)):
                            if isinstance(k, ast.Constant) and (k.value in MASKED or str(k.value).endswith("_ms") or str(k.value).startswith("ms_")):
                                ok = True
                    if ok:
                        break
                if isinstance(p, ast.keyword) and p.arg and (p.arg in MASKED or p.arg.endswith("_ms")):
                    ok = True
                    break
                if isinstance(p, (ast.stmt,)) and not isinstance(p, ast.Assign):
                    break
                cur = p
            if not ok:
                bad.append("line %d: %s" % (n.lineno, n.id))
    out = []
    out.append(result(cl["name"] + "/timing-values-only-in-masked-fields", "failed" if bad else "proved",
                      ("a wall-clock derived value reaches an unmasked position: " + "; ".join(sorted(set(bad))[:8])) if bad else "",
                      where="%d timing locals tracked" % len(tainted)))
    out.append(result(cl["name"] + "/yield-decisions-do-not-depend-on-wall-clock", "failed" if sched else "proved",
                      ("_should_yield(slice_ctx, consumed) is fed with consumed['ms'] measured by time.perf_counter() at lines %s: with "
                       "scheduler.enabled the WALL_MS / QUANTUM_EXCEEDED yields, and with them the control flow and every later "
                       "record of the turn, depend on wall-clock speed" % sorted(sched)) if sched else ""))
    return out


R.fclause("C01", "wall-clock", "custom", RT, fn=wall_clock_is_masked)


def no_unsorted_set_iteration(cl, mod, cls, func):
    """iteration order of a set is hash-seed dependent: every for-loop / comprehension / list() over a set-valued
    expression in this function goes through sorted()"""
    setvars = set()
    for n in ast.walk(func):
        if isinstance(n, (ast.Assign, ast.AnnAssign)):
            v = n.value
            tg = n.targets[0] if isinstance(n, ast.Assign) else n.target
            if v is not None and isinstance(tg, ast.Name) and (isinstance(v, (ast.Set, ast.SetComp)) or
                                                               (isinstance(v, ast.Call) and getattr(v.func, "id", None) in ("set", "frozenset"))):
                setvars.add(tg.id)
    def is_set(e):
        if isinstance(e, (ast.Set, ast.SetComp)):
            return True
        if isinstance(e, ast.Call) and getattr(e.func, "id", None) in ("set", "frozenset"):
            return True
        if isinstance(e, ast.Name) and e.id in setvars:
            return True
        if isinstance(e, ast.BinOp) and isinstance(e.op, (ast.BitOr, ast.BitAnd, ast.Sub)) and (is_set(e.left) or is_set(e.right)):
            return True
        return False
    bad = []
    for n in ast.walk(func):
        its = []
        if isinstance(n, ast.For):
            its.append(n.iter)
        if isinstance(n, (ast.ListComp, ast.GeneratorExp, ast.DictComp)):
            its.extend(g.iter for g in n.generators)
        if isinstance(n, ast.Call) and getattr(n.func, "id", None) in ("list", "tuple", "enumerate") and n.args:
            its.append(n.args[0])
        for it in its:
            if is_set(it):
                bad.append("line %d: %s" % (it.lineno, ast.unparse(it)[:50]))
    if bad:
        return [result(cl["name"], "failed", "hash-order dependent iteration over a set: " + "; ".join(bad[:6]))]
    return [result(cl["name"], "proved", where="%d set-valued locals, all iterated through sorted()" % len(setvars))]


for key in ["clematis/engine/stages/t2/state.py:gather_changed_labels", "clematis/engine/stages/t2/state.py:build_label_map",
            "clematis/engine/stages/t1.py:_match_keywords", "clematis/engine/stages/t4.py:t4_filter",
            "clematis/engine/stages/t4.py:_combine_by_ckey", "clematis/engine/gel.py:observe_retrieval",
            "clematis/engine/util/snapshot_delta.py:_walk_diff", "clematis/engine/orchestrator/parallel.py:_select_independent_batch"]:
    R.fclause("C01", "set-order/" + key.split(":")[1], "custom", key, fn=no_unsorted_set_iteration)


def no_rng_or_id(cl, mod, cls, func):
    bad = []
    for n in ast.walk(func):
        if isinstance(n, ast.Call):
            src = ast.unparse(n.func)
            if src.split(".")[0] in ("random", "secrets", "uuid") or src in ("id", "hash", "os.urandom", "datetime.now", "dt.datetime.now", "datetime.datetime.now"):
                bad.append("line %d: %s" % (n.lineno, src))
    if bad:
        return [result(cl["name"], "failed", "nondeterminism source used: " + "; ".join(bad[:6]))]
    return [result(cl["name"], "proved")]


for key in ["clematis/engine/stages/t1.py:t1_propagate", "clematis/engine/stages/t4.py:t4_filter", "clematis/engine/apply.py:_bump_version_etag",
            "clematis/memory/index.py:InMemoryIndex._rank_by_cosine", "clematis/engine/gel.py:observe_retrieval", "clematis/engine/gel.py:tick",
            "clematis/engine/scheduler.py:next_turn", "clematis/engine/orchestrator/reflection.py:_episode_id",
            "clematis/engine/stages/t3/policy.py:deliberate"]:
    R.fclause("C01", "no-rng/" + key.split(":")[1], "custom", key, fn=no_rng_or_id)
