"""Engine F clauses over Orchestrator.run_turn and the other orchestration functions (frames, gates, escapes)."""
import ast
from pyvc.verifier import REG as R
from pyvc.effects import result, find_sites, match_site, always_exits

RT = "clematis/engine/orchestrator/core.py:Orchestrator.run_turn"


def defn_clause(var, expected):
    """the gate variable is bound exactly once, to the expected expression (source-normalised)"""
    def fn(cl, mod, cls, func):
        hits = []
        for n in ast.walk(func):
            if isinstance(n, ast.Assign) and len(n.targets) == 1 and isinstance(n.targets[0], ast.Name) and n.targets[0].id == var:
                hits.append(n)
            if isinstance(n, ast.AnnAssign) and isinstance(n.target, ast.Name) and n.target.id == var and n.value is not None:
                hits.append(n)
        if len(hits) != 1:
            return [result(cl["name"], "failed", "gate variable %s is bound %d times in %s" % (var, len(hits), cl["key"]))]
        got = ast.unparse(hits[0].value)
        want = ast.unparse(ast.parse(expected, mode="eval").body)
        if got != want:
            return [result(cl["name"], "failed", "definition of gate variable %s changed: expected `%s`, found `%s` (line %d)" % (
                var, want, got, hits[0].lineno), expected)]
        return [result(cl["name"], "proved", where="%s = %s" % (var, want))]
    return fn


# ---------------------------------------------------------------- C04: T4 kill switch
R.fclause("C04", "killswitch/defn-t4_enabled", "custom", RT,
          fn=defn_clause("t4_enabled", "bool(t4_cfg_full.get('enabled', True)) if isinstance(t4_cfg_full, dict) else True"))
R.fclause("C04", "killswitch/defn-t4_cfg_full", "custom", RT,
          fn=defn_clause("t4_cfg_full", "(_get_cfg(ctx).get('t4') if isinstance(_get_cfg(ctx), dict) else {}) or {}"))
for nm, pat in [("t4_filter", {"call": "t4_filter"}), ("apply_changes", {"call": "apply_changes"}),
                ("gel_tick", {"call": "gel_tick"}), ("t4.jsonl", {"call": "_append_jsonl", "arg0": "t4.jsonl"}),
                ("apply.jsonl", {"call": "_append_jsonl", "arg0": "apply.jsonl"})]:
    R.fclause("C04", "killswitch/gate:%s" % nm, "gate", RT, sites=pat, gate="t4_enabled", skip_nested=True)
R.fclause("C04", "apply-called-once", "count", RT, sites={"call": "apply_changes"}, n=1, no_loop=True, skip_nested=True)
R.fclause("C04", "t4_filter-called-once", "count", RT, sites={"call": "t4_filter"}, n=1, no_loop=True, skip_nested=True)


def no_write_between(cl, mod, cls, func):
    """the T4 result handed to apply_changes is the object returned by t4_filter: `t4` is not rebound and
    `t4.approved_deltas` is not stored to between the two calls (inside the t4_enabled branch)"""
    out = []
    t4_assign = [n for n in ast.walk(func) if isinstance(n, ast.Assign) and any(isinstance(t, ast.Name) and t.id == "t4" for t in n.targets)]
    inside = [n for n in t4_assign if isinstance(n.value, ast.Call) and getattr(n.value.func, "id", None) == "t4_filter"]
    if len(inside) != 1:
        return [result(cl["name"], "error", "anchor lost: t4 = t4_filter(...) not found exactly once")]
    lo = inside[0].lineno
    calls = [n for n in ast.walk(func) if isinstance(n, ast.Call) and getattr(n.func, "id", None) == "apply_changes"]
    if len(calls) != 1:
        return [result(cl["name"], "error", "anchor lost: apply_changes call")]
    hi = calls[0].lineno
    bad = []
    for n in ast.walk(func):
        ln = getattr(n, "lineno", None)
        if ln is None or not (lo < ln <= hi):
            continue
        if isinstance(n, (ast.Assign, ast.AugAssign, ast.AnnAssign)):
            tg = n.targets if isinstance(n, ast.Assign) else [n.target]
            for t in tg:
                src = ast.unparse(t)
                if src == "t4" or src.startswith("t4.") or src.startswith("t4["):
                    bad.append((ln, src))
        if isinstance(n, ast.Call) and isinstance(n.func, ast.Attribute) and ast.unparse(n.func.value).startswith("t4.approved_deltas") \
                and n.func.attr in ("append", "extend", "pop", "remove", "clear", "sort", "insert", "reverse"):
            bad.append((ln, ast.unparse(n)[:60]))
    arg_ok = len(calls[0].args) >= 3 and ast.unparse(calls[0].args[2]) == "t4"
    if bad or not arg_ok:
        return [result(cl["name"], "failed", "approved list modified or replaced between t4_filter and apply_changes: %s; third argument is t4: %s" % (bad, arg_ok))]
    return [result(cl["name"], "proved", where="lines %d..%d" % (lo, hi))]


R.fclause("C04", "approved-handed-over-unmodified", "custom", RT, fn=no_write_between)

# ---------------------------------------------------------------- C13: at most one retrieval refinement per turn
R.fclause("C13", "rag-once/single-site", "count", RT, sites={"call": "rag_once"}, n=1, no_loop=True, skip_nested=True)
R.fclause("C13", "rag-once/gate", "gate", RT, sites={"call": "rag_once"}, gate="requested_retrieve and max_rag_loops >= 1", skip_nested=True)

# ---------------------------------------------------------------- C19 / C20: reflection is fail-soft and gated
for nm, pat in [("compute", {"call": "_run_reflection_if_enabled"}), ("write", {"call": "write_reflection_entries"}),
                ("telemetry", {"call": "log_t3_reflection"})]:
    R.fclause(["C19", "C20"], "reflection/no-escape:%s" % nm, "noescape", RT, sites=pat, skip_nested=True)
R.fclause("C19", "reflection/write-only-with-entries", "gate", RT, sites={"call": "write_reflection_entries"},
          gate="res is not None and getattr(res, 'memory_entries', None)", skip_nested=True)
R.fclause("C19", "reflection/telemetry-only-with-result", "gate", RT, sites={"call": "log_t3_reflection"},
          gate="res is not None", skip_nested=True)

# ---------------------------------------------------------------- C20: declared fail-soft sites
for nm, pat in [("boot-load", {"call": "load_latest_snapshot"}), ("gel-merge", {"call": "gel_apply_merge"}),
                ("gel-split", {"call": "gel_apply_split"}), ("gel-promotion", {"call": "gel_apply_promotion"}),
                ("gel-merge-candidates", {"call": "gel_merge_candidates"}), ("gel-split-candidates", {"call": "gel_split_candidates"}),
                ("gel-promote-clusters", {"call": "gel_promote_clusters"}), ("llm-adapter", {"call": "build_llm_adapter"})]:
    R.fclause("C20", "no-escape/%s" % nm, "noescape", RT, sites=pat, skip_nested=True)
AQ = "clematis/engine/stages/t2/quality.py:apply_quality"
for nm, pat in [("hybrid-rerank", {"call": "rerank_with_gel"}), ("fusion", {"call": "quality_fuse"}),
                ("mmr", {"call": "quality_mmr"}), ("mmr-fallback", {"call": "quality_mmr_fallback"})]:
    R.fclause("C20", "no-escape/quality:%s" % nm, "noescape", AQ, sites=pat)
R.fclause("C20", "no-escape/sidecar-write", "noescape", "clematis/engine/snapshot.py:_write_sidecar_meta",
          sites={"call": "atomic_write_text"})

# ---------------------------------------------------------------- C19: triple gate, wall budget and fail-soft of the compute step
RF = "clematis/engine/orchestrator/core.py:_run_reflection_if_enabled"
R.fclause("C19", "reflection/compute-gate", "gate", RF, sites={"call": "reflect_fn"},
          gate="not getattr(ctx, '_dry_run_until_t4', False) and allow_reflection and plan_reflect")
R.fclause("C19", "reflection/defn-allow_reflection", "custom", RF,
          fn=defn_clause("allow_reflection", "bool(t3cfg.get('allow_reflection', False))"))
R.fclause(["C19", "C20"], "reflection/compute-no-escape", "noescape", RF, sites={"call": "reflect_fn"})
R.fclause("C19", "reflection/compute-called-once", "count", RF, sites={"call": "reflect_fn"}, n=1, no_loop=True)


def reflection_drops_entries(cl, mod, cls, func):
    """on error and on wall-budget overrun the result carries memory_entries == []"""
    out = []
    # (a) the handler of the try around reflect_fn(...) rebuilds `result` with memory_entries=[]
    sites = find_sites(func, lambda n: match_site(n, {"call": "reflect_fn"}))
    ok_a = False
    for node, info in sites:
        for tr, part in info.tries:
            if part != "body":
                continue
            for h in tr.handlers:
                for n in ast.walk(h):
                    if isinstance(n, ast.Assign) and ast.unparse(n.targets[0]) == "result" and isinstance(n.value, ast.Call):
                        for kw in n.value.keywords:
                            if kw.arg == "memory_entries" and ast.unparse(kw.value) == "[]":
                                ok_a = True
    out.append(result(cl["name"] + "/on-error", "proved" if ok_a else "failed",
                      "" if ok_a else "the except handler around reflect_fn(...) no longer rebuilds result with memory_entries=[]"))
    # (b) the wall-budget branch: every arm of `if wall_ms_val is not None and elapsed_ms > wall_ms_val` empties the entries
    ok_b = False
    for n in ast.walk(func):
        if isinstance(n, ast.If) and ast.unparse(n.test) == "wall_ms_val is not None and elapsed_ms > wall_ms_val":
            body = n.body
            if len(body) == 1 and isinstance(body[0], ast.Try):
                t = body[0]
                main_ok = any(isinstance(x, ast.Assign) and ast.unparse(x.targets[0]) == "result" and isinstance(x.value, ast.Call)
                              and any(kw.arg == "memory_entries" and ast.unparse(kw.value) == "[]" for kw in x.value.keywords)
                              for x in t.body)
                hand_ok = all(any(isinstance(x, ast.Assign) and ast.unparse(x.targets[0]) == "result.memory_entries"
                                  and ast.unparse(x.value) == "[]" for x in ast.walk(h)) for h in t.handlers)
                ok_b = main_ok and hand_ok
    out.append(result(cl["name"] + "/on-timeout", "proved" if ok_b else "failed",
                      "" if ok_b else "the wall-budget branch no longer drops memory_entries on every arm"))
    return out


R.fclause("C19", "reflection/drops-entries", "custom", RF, fn=reflection_drops_entries)
