"""Engine F clauses over Orchestrator.run_turn and the other orchestration functions (frames, gates, escapes)."""
import ast
from pyvc.verifier import REG as R
from pyvc.effects import result, find_sites, match_site, always_exits

RT = "clematis/engine/orchestrator/core.py:Orchestrator.run_turn"


def defn_clause(var, expected):
    """the gate variable is bound exactly once, to the expected expression (source-normalised)"""
    def fn(cl, mod, cls, func):
        hits = []
        for n in ast.walk(func):
            if isinstance(n, ast.Assign) and len(n.targets) == 1 and isinstance(n.targets[0], ast.Name) and n.targets[0].id == var:
                hits.append(n)
            if isinstance(n, ast.AnnAssign) and isinstance(n.target, ast.Name) and n.target.id == var and n.value is not None:
                hits.append(n)
        if len(hits) != 1:
            return [result(cl["name"], "failed", "gate variable %s is bound %d times in %s" % (var, len(hits), cl["key"]))]
        got = ast.unparse(hits[0].value)
        want = ast.unparse(ast.parse(expected, mode="eval").body)
        if got != want:
            return [result(cl["name"], "failed", "definition of gate variable %s changed: expected `%s`, found `%s` (line %d)" % (
                var, want, got, hits[0].lineno), expected)]
        return [result(cl["name"], "proved", where="%s = %s" % (var, want))]
    return fn


# ---------------------------------------------------------------- C04: T4 kill switch
R.fclause("C04", "killswitch/defn-t4_enabled", "custom", RT,
          fn=defn_clause("t4_enabled", "bool(t4_cfg_full.get('enabled', True)) if isinstance(t4_cfg_full, dict) else True"))
R.fclause("C04", "killswitch/defn-t4_cfg_full", "custom", RT,
          fn=defn_clause("t4_cfg_full", "(_get_cfg(ctx).get('t4') if isinstance(_get_cfg(ctx), dict) else {}) or {}"))
for nm, pat in [("t4_filter", {"call": "t4_filter"}), ("apply_changes", {"call": "apply_changes"}),
                ("gel_tick", {"call": "gel_tick"}), ("t4.jsonl", {"call": "_append_jsonl", "arg0": "t4.jsonl"}),
                ("apply.jsonl", {"call": "_append_jsonl", "arg0": "apply.jsonl"})]:
    R.fclause("C04", "killswitch/gate:%s" % nm, "gate", RT, sites=pat, gate="t4_enabled", skip_nested=True)
R.fclause("C04", "apply-called-once", "count", RT, sites={"call": "apply_changes"}, n=1, no_loop=True, skip_nested=True)
R.fclause("C04", "t4_filter-called-once", "count", RT, sites={"call": "t4_filter"}, n=1, no_loop=True, skip_nested=True)


def no_write_between(cl, mod, cls, func):
    """the T4 result handed to apply_changes is the object returned by t4_filter: `t4` is not rebound and
    `t4.approved_deltas` is not stored to between the two calls (inside the t4_enabled branch)"""
    out = []
    t4_assign = [n for n in ast.walk(func) if isinstance(n, ast.Assign) and any(isinstance(t, ast.Name) and t.id == "t4" for t in n.targets)]
    inside = [n for n in t4_assign if isinstance(n.value, ast.Call) and getattr(n.value.func, "id", None) == "t4_filter"]
    if len(inside) != 1:
        return [result(cl["name"], "error", "anchor lost: t4 = t4_filter(...) not found exactly once")]
    lo = inside[0].lineno
    calls = [n for n in ast.walk(func) if isinstance(n, ast.Call) and getattr(n.func, "id", None) == "apply_changes"]
    if len(calls) != 1:
        return [result(cl["name"], "error", "anchor lost: apply_changes call")]
    hi = calls[0].lineno
    bad = []
    for n in ast.walk(func):
        ln = getattr(n, "lineno", None)
        if ln is None or not (lo < ln <= hi):
            continue
        if isinstance(n, (ast.Assign, ast.AugAssign, ast.AnnAssign)):
            tg = n.targets if isinstance(n, ast.Assign) else [n.target]
            for t in tg:
                src = ast.unparse(t)
                if src == "t4" or src.startswith("t4.") or src.startswith("t4["):
                    bad.append((ln, src))
        if isinstance(n, ast.Call) and isinstance(n.func, ast.Attribute) and ast.unparse(n.func.value).startswith("t4.approved_deltas") \
                and n.func.attr in ("append", "extend", "pop", "remove", "clear", "sort", "insert", "reverse"):
            bad.append((ln, ast.unparse(n)[:60]))
    arg_ok = len(calls[0].args) >= 3 and ast.unparse(calls[0].args[2]) == "t4"
    if bad or not arg_ok:
        return [result(cl["name"], "failed", "approved list modified or replaced between t4_filter and apply_changes: %s; third argument is t4: %s" % (bad, arg_ok))]
    return [result(cl["name"], "proved", where="lines %d..%d" % (lo, hi))]


R.fclause("C04", "approved-handed-over-unmodified", "custom", RT, fn=no_write_between)

# ---------------------------------------------------------------- C13: at most one retrieval refinement per turn
R.fclause("C13", "rag-once/single-site", "count", RT, sites={"call": "rag_once"}, n=1, no_loop=True, skip_nested=True)
R.fclause("C13", "rag-once/gate", "gate", RT, sites={"call": "rag_once"}, gate="requested_retrieve and max_rag_loops >= 1", skip_nested=True)

# ---------------------------------------------------------------- C19 / C20: reflection is fail-soft and gated
for nm, pat in [("compute", {"call": "_run_reflection_if_enabled"}), ("write", {"call": "write_reflection_entries"}),
                ("telemetry", {"call": "log_t3_reflection"})]:
    R.fclause(["C19", "C20"], "reflection/no-escape:%s" % nm, "noescape", RT, sites=pat, skip_nested=True)
R.fclause("C19", "reflection/write-only-with-entries", "gate", RT, sites={"call": "write_reflection_entries"},
          gate="res is not None and getattr(res, 'memory_entries', None)", skip_nested=True)
R.fclause("C19", "reflection/telemetry-only-with-result", "gate", RT, sites={"call": "log_t3_reflection"},
          gate="res is not None", skip_nested=True)

# ---------------------------------------------------------------- C20: declared fail-soft sites
for nm, pat in [("boot-load", {"call": "load_latest_snapshot"}), ("gel-merge", {"call": "gel_apply_merge"}),
                ("gel-split", {"call": "gel_apply_split"}), ("gel-promotion", {"call": "gel_apply_promotion"}),
                ("gel-merge-candidates", {"call": "gel_merge_candidates"}), ("gel-split-candidates", {"call": "gel_split_candidates"}),
                ("gel-promote-clusters", {"call": "gel_promote_clusters"}), ("llm-adapter", {"call": "build_llm_adapter"})]:
    R.fclause("C20", "no-escape/%s" % nm, "noescape", RT, sites=pat, skip_nested=True)
AQ = "clematis/engine/stages/t2/quality.py:apply_quality"
for nm, pat in [("hybrid-rerank", {"call": "rerank_with_gel"}), ("fusion", {"call": "quality_fuse"}),
                ("mmr", {"call": "quality_mmr"}), ("mmr-fallback", {"call": "quality_mmr_fallback"})]:
    R.fclause("C20", "no-escape/quality:%s" % nm, "noescape", AQ, sites=pat)
R.fclause("C20", "no-escape/sidecar-write", "noescape", "clematis/engine/snapshot.py:_write_sidecar_meta",
          sites={"call": "atomic_write_text"})
# the helper's own guard covers only the dump + write; the timestamp is computed before it (time.gmtime of
# SOURCE_DATE_EPOCH can raise OverflowError / OSError), so the *callers'* guards are what keeps a sidecar failure
# from aborting the snapshot and with it the turn
for _caller in ("write_snapshot", "_write_lines"):
    R.fclause("C20", "no-escape/sidecar-call-in-" + _caller, "noescape", "clematis/engine/snapshot.py:" + _caller,
              sites={"call": "_write_sidecar_meta"})

# store apply errors and cache invalidation errors: the full statement (what is retried, the version bump, no exception for a
# raising store) is the C04 contract of apply_changes (Engine V, ~5 min); the C20 check carries the cheap structural half
# itself: every store call and every cache-manager call of apply_changes sits inside a catch-all handler
APC = "clematis/engine/apply.py:apply_changes"
for nm, pat in [("store-apply", {"call": "apply_fn"}), ("cache-invalidation", {"call": "invalidate_namespace", "recv": "cm"})]:
    R.fclause("C20", "no-escape/apply_changes:%s" % nm, "noescape", APC, sites=pat)

# ---------------------------------------------------------------- C19: triple gate, wall budget and fail-soft of the compute step
RF = "clematis/engine/orchestrator/core.py:_run_reflection_if_enabled"
R.fclause("C19", "reflection/compute-gate", "gate", RF, sites={"call": "reflect_fn"},
          gate="not getattr(ctx, '_dry_run_until_t4', False) and allow_reflection and plan_reflect")
R.fclause("C19", "reflection/defn-allow_reflection", "custom", RF,
          fn=defn_clause("allow_reflection", "bool(t3cfg.get('allow_reflection', False))"))
R.fclause(["C19", "C20"], "reflection/compute-no-escape", "noescape", RF, sites={"call": "reflect_fn"})
R.fclause("C19", "reflection/compute-called-once", "count", RF, sites={"call": "reflect_fn"}, n=1, no_loop=True)


def reflection_drops_entries(cl, mod, cls, func):
    """on error and on wall-budget overrun the result carries memory_entries == []"""
    out = []
    # (a) the handler of the try around reflect_fn(...) rebuilds `result` with memory_entries=[]
    sites = find_sites(func, lambda n: match_site(n, {"call": "reflect_fn"}))
    ok_a = False
    for node, info in sites:
        for tr, part in info.tries:
            if part != "body":
                continue
            for h in tr.handlers:
                for n in ast.walk(h):
                    if isinstance(n, ast.Assign) and ast.unparse(n.targets[0]) == "result" and isinstance(n.value, ast.Call):
                        for kw in n.value.keywords:
                            if kw.arg == "memory_entries" and ast.unparse(kw.value) == "[]":
                                ok_a = True
    out.append(result(cl["name"] + "/on-error", "proved" if ok_a else "failed",
                      "" if ok_a else "the except handler around reflect_fn(...) no longer rebuilds result with memory_entries=[]"))
    # (b) the wall-budget branch: every arm of `if wall_ms_val is not None and elapsed_ms > wall_ms_val` empties the entries
    ok_b = False
    for n in ast.walk(func):
        if isinstance(n, ast.If) and ast.unparse(n.test) == "wall_ms_val is not None and elapsed_ms > wall_ms_val":
            body = n.body
            if len(body) == 1 and isinstance(body[0], ast.Try):
                t = body[0]
                main_ok = any(isinstance(x, ast.Assign) and ast.unparse(x.targets[0]) == "result" and isinstance(x.value, ast.Call)
                              and any(kw.arg == "memory_entries" and ast.unparse(kw.value) == "[]" for kw in x.value.keywords)
                              for x in t.body)
                hand_ok = all(any(isinstance(x, ast.Assign) and ast.unparse(x.targets[0]) == "result.memory_entries"
                                  and ast.unparse(x.value) == "[]" for x in ast.walk(h)) for h in t.handlers)
                ok_b = main_ok and hand_ok
    out.append(result(cl["name"] + "/on-timeout", "proved" if ok_b else "failed",
                      "" if ok_b else "the wall-budget branch no longer drops memory_entries on every arm"))
    return out


R.fclause("C19", "reflection/drops-entries", "custom", RF, fn=reflection_drops_entries)

# ---------------------------------------------------------------- C02: effectful entry points of gated features are gate-dominated
T1P = "clematis/engine/stages/t1.py:t1_propagate"
T2S = "clematis/engine/stages/t2/core.py:t2_semantic"
R.fclause("C02", "gate/t1-run_parallel", "gate", T1P, sites={"call": "run_parallel"}, gate="_t1_parallel_enabled(ctx.cfg)", skip_nested=True)
R.fclause("C02", "gate/t2-run_parallel", "gate", T2S, sites={"call": "run_parallel"},
          gate="_t2_parallel_enabled(cfg_root, backend_selected, index)", skip_nested=True)
R.fclause("C02", "gate/gel-observe", "gate", RT, sites={"call": "gel_observe"}, gate="graph_enabled and not _dry_run", skip_nested=True)
R.fclause("C02", "gate/gel-tick", "gate", RT, sites={"call": "gel_tick"}, gate="graph_enabled2", skip_nested=True)
R.fclause("C02", "gate/gel-maintenance", "gate", RT,
          sites=[{"call": "gel_apply_merge"}, {"call": "gel_apply_split"}, {"call": "gel_apply_promotion"},
                 {"call": "gel_merge_candidates"}, {"call": "gel_split_candidates"}, {"call": "gel_promote_clusters"}],
          gate="graph_enabled2", skip_nested=True)
R.fclause("C02", "gate/gel-log", "gate", RT, sites={"call": "_append_jsonl", "arg0": "gel.jsonl"},
          gate="(graph_enabled and not _dry_run) or graph_enabled2", skip_nested=True)
R.fclause("C02", "gate/defn-graph_enabled", "custom", RT,
          fn=defn_clause("graph_enabled", "bool(graph_cfg_all.get('enabled', False)) if isinstance(graph_cfg_all, dict) else False"))
R.fclause("C02", "gate/defn-graph_enabled2", "custom", RT,
          fn=defn_clause("graph_enabled2", "bool(graph_cfg_all2.get('enabled', False)) if isinstance(graph_cfg_all2, dict) else False"))
R.fclause("C02", "gate/scheduler-events", "gate", RT, sites={"call": "_write_or_capture_scheduler_event"},
          gate="slice_ctx is not None", skip_nested=True)
R.fclause("C02", "gate/should_yield", "gate", RT, sites={"call": "_should_yield"}, gate="slice_ctx is not None", skip_nested=True)
R.fclause(["C02", "C19"], "gate/reflection-compute", "gate", RF, sites={"call": "reflect_fn"},
          gate="allow_reflection and plan_reflect")


def slice_ctx_only_when_scheduler_on(cl, mod, cls, func):
    """slice_ctx is None unless sched_enabled: it is bound to None once, and otherwise only inside `if sched_enabled:`"""
    sites = find_sites(func, lambda n: isinstance(n, (ast.Assign, ast.AnnAssign)) and any(
        isinstance(t, ast.Name) and t.id == "slice_ctx" for t in (n.targets if isinstance(n, ast.Assign) else [n.target])))
    sites = [s for s in sites if not s[1].funcs]
    out = []
    if not sites:
        return [result(cl["name"], "error", "anchor lost: no assignment to slice_ctx")]
    for k, (node, info) in enumerate(sites):
        val = node.value
        nm = "%s#%d@L%d" % (cl["name"], k, node.lineno)
        if isinstance(val, ast.Constant) and val.value is None:
            out.append(result(nm, "proved", where="slice_ctx = None"))
            continue
        gs = [ast.unparse(e) for e, pol in info.guards if pol]
        if "sched_enabled" in gs:
            out.append(result(nm, "proved", where="non-None binding under `if sched_enabled`"))
        else:
            out.append(result(nm, "failed", "slice_ctx is bound to a non-None value at line %d outside `if sched_enabled:`" % node.lineno))
    return out


R.fclause(["C02", "C17"], "gate/slice_ctx-needs-scheduler", "custom", RT, fn=slice_ctx_only_when_scheduler_on)
R.fclause(["C02", "C17"], "gate/defn-sched_enabled", "custom", RT, fn=defn_clause("sched_enabled", "_m5_enabled(ctx)"))


def budgets_removed_when_off(cl, mod, cls, func):
    """with the scheduler off, slice_budgets is removed from ctx (delattr, or set to None)"""
    sites = find_sites(func, lambda n: isinstance(n, ast.Call) and getattr(n.func, "id", None) in ("delattr", "setattr")
                       and len(n.args) >= 2 and isinstance(n.args[1], ast.Constant) and n.args[1].value == "slice_budgets")
    dels = [s for s in sites if s[0].func.id == "delattr" and any((ast.unparse(e) == "sched_enabled" and not pol) for e, pol in s[1].guards)]
    if dels:
        return [result(cl["name"], "proved", where="delattr(ctx, 'slice_budgets') in the else branch of `if sched_enabled`")]
    return [result(cl["name"], "failed", "no delattr(ctx, 'slice_budgets') on the scheduler-off path")]


R.fclause(["C02", "C17"], "gate/slice_budgets-removed-when-off", "custom", RT, fn=budgets_removed_when_off)


# ---------------------------------------------------------------- C17: a turn yields only at the five stage boundaries
def yield_sites(cl, mod, cls, func):
    out = []
    stmts = find_sites(func, lambda n: isinstance(n, ast.Assign) and isinstance(n.value, ast.Call)
                       and getattr(n.value.func, "id", None) == "_should_yield")
    stmts = [s for s in stmts if not s[1].funcs]
    out.append(result(cl["name"] + "/five-boundaries", "proved" if len(stmts) == 5 else "failed",
                      "" if len(stmts) == 5 else "expected 5 boundary checks (after T1, T2, T3, T4, Apply), found %d" % len(stmts)))
    # every boundary check is followed by `if reason:` whose body logs the scheduler event, the yielded turn record, and returns
    parents = {}
    for n in ast.walk(func):
        for f in ("body", "orelse", "finalbody"):
            blk = getattr(n, f, None)
            if isinstance(blk, list):
                for i, st in enumerate(blk):
                    parents[id(st)] = (blk, i)
    yield_returns = set()
    for k, (node, info) in enumerate(stmts):
        nm = "%s/boundary#%d@L%d" % (cl["name"], k, node.lineno)
        blk, i = parents.get(id(node), (None, None))
        nxt = None
        if blk is not None:
            # the assignment may sit inside a try: look in the enclosing block after the try as well
            cand = blk[i + 1:] if i + 1 < len(blk) else []
            for st in cand:
                if isinstance(st, ast.If) and ast.unparse(st.test) == "reason":
                    nxt = st
                    break
        if nxt is None:
            for (tr, part) in reversed(info.tries):
                b2, j = parents.get(id(tr), (None, None))
                if b2 is not None:
                    for st in b2[j + 1:]:
                        if isinstance(st, ast.If) and ast.unparse(st.test) == "reason":
                            nxt = st
                            break
                if nxt is not None:
                    break
        if nxt is None:
            out.append(result(nm, "failed", "no `if reason:` block follows the boundary check at line %d" % node.lineno))
            continue
        calls = [c for c in ast.walk(nxt) if isinstance(c, ast.Call)]
        ev = any(getattr(c.func, "id", None) == "_write_or_capture_scheduler_event" for c in calls)
        tr = False
        for c in calls:
            if getattr(c.func, "id", None) == "_append_jsonl" and c.args and isinstance(c.args[0], ast.Constant) and c.args[0].value == "turn.jsonl":
                src = ast.unparse(c)
                if "'yielded': True" in src:
                    tr = True
        rets = [r for r in ast.walk(nxt) if isinstance(r, ast.Return)]
        ends = always_exits(nxt.body)
        for r in rets:
            yield_returns.add(id(r))
        ok = ev and tr and ends
        out.append(result(nm, "proved" if ok else "failed",
                          "" if ok else "yield block at line %d: scheduler event=%s, turn record with yielded=True=%s, ends with return=%s" % (
                              nxt.lineno, ev, tr, ends)))
    # no other early return: every Return of run_turn is the final one, inside a yield block, or in the dry-run block
    all_rets = [s for s in find_sites(func, lambda n: isinstance(n, ast.Return)) if not s[1].funcs]
    last = func.body[-1]
    for node, info in all_rets:
        if node is last or id(node) in yield_returns:
            continue
        gs = [ast.unparse(e) for e, pol in info.guards if pol]
        if "_dry_run" in gs:
            continue
        out.append(result("%s/no-other-early-return@L%d" % (cl["name"], node.lineno), "failed",
                          "return at line %d is neither a yield at a stage boundary, the dry-run stop, nor the final return" % node.lineno))
    out.append(result(cl["name"] + "/no-other-early-return", "proved", where="%d returns classified" % len(all_rets)))
    return out


R.fclause("C17", "yield/only-at-stage-boundaries", "custom", RT, fn=yield_sites)


# ---------------------------------------------------------------- C02: perf master switch gates the size-aware caches and capped structures
R.fclause("C02", "gate/t1-bytes-cache", "gate", "clematis/engine/stages/t1.py:_get_cache", sites={"call": "LRUBytes"}, gate="perf_on")
R.fclause("C02", "gate/t2-bytes-cache", "gate", "clematis/engine/stages/t2/cache.py:get_cache", sites={"call": "LRUBytes"}, gate="perf_on")
R.fclause("C02", "gate/t1-dedupe-ring", "gate", "clematis/engine/stages/t1.py:t1_propagate.<locals>._t1_one_graph",
          sites={"call": "DedupeRing"}, gate="perf_enabled")
R.fclause("C02", "gate/t1-visited-lru", "gate", "clematis/engine/stages/t1.py:t1_propagate.<locals>._t1_one_graph",
          sites={"call": "DeterministicLRUSet"}, gate="perf_enabled")
R.fclause("C02", "gate/quality-shadow-trace", "gate", AQ, sites={"call": "_emit_quality_trace"},
          gate="perf_enabled and metrics_enabled and q_shadow and not q_enabled")
R.fclause("C02", "gate/defn-quality-perf_enabled", "custom", AQ,
          fn=defn_clause("perf_enabled", "bool(cfg_get(cfg_root, ['perf', 'enabled'], False))"))
R.fclause("C02", "gate/defn-t1-perf_on", "custom", "clematis/engine/stages/t1.py:_get_cache",
          fn=defn_clause("perf_on", "bool(_cfg_get(ctx, ['cfg', 'perf', 'enabled'], False))"))
R.fclause("C02", "gate/defn-t2-perf_on", "custom", "clematis/engine/stages/t2/cache.py:get_cache",
          fn=defn_clause("perf_on", "bool(cfg_get(ctx, ['cfg', 'perf', 'enabled'], False))"))


# ---------------------------------------------------------------- C09: run_parallel never observes completion order
def no_completion_order(cl, mod, cls, func):
    """results are read from the futures in submit order: no as_completed / wait / add_done_callback, and every
    .result() call is on the loop variable of a loop over the submit-ordered list"""
    bad = []
    for n in ast.walk(func):
        if isinstance(n, ast.Call):
            nm = n.func.id if isinstance(n.func, ast.Name) else (n.func.attr if isinstance(n.func, ast.Attribute) else None)
            if nm in ("as_completed", "wait", "add_done_callback", "done"):
                bad.append("%s at line %d" % (nm, n.lineno))
    if bad:
        return [result(cl["name"], "failed", "run_parallel observes completion order: " + ", ".join(bad))]
    return [result(cl["name"], "proved", where="no as_completed/wait/add_done_callback/done in run_parallel")]


R.fclause("C09", "run_parallel/never-observes-completion-order", "custom", "clematis/engine/util/parallel.py:run_parallel",
          fn=no_completion_order)


def tiebreak_by_submit_index(cl, mod, cls, func):
    """the final sort of the pool branch orders by (order_key(key), submit index): the key function of that sorted()
    call is a 2-tuple whose first component applies order_key and whose second is the index field"""
    hits = []
    for n in ast.walk(func):
        if isinstance(n, ast.Call) and getattr(n.func, "id", None) == "sorted" and n.args and ast.unparse(n.args[0]) == "results_unordered":
            hits.append(n)
    if len(hits) != 1:
        return [result(cl["name"], "error", "anchor lost: sorted(results_unordered, ...) found %d times" % len(hits))]
    key = [k.value for k in hits[0].keywords if k.arg == "key"]
    ok = bool(key) and isinstance(key[0], ast.Lambda) and isinstance(key[0].body, ast.Tuple) and len(key[0].body.elts) == 2 \
        and "order_key(" in ast.unparse(key[0].body.elts[0])
    return [result(cl["name"], "proved" if ok else "failed",
                   "" if ok else "merge order is no longer (order_key(key), submit index): key = %s" % (ast.unparse(key[0]) if key else None))]


R.fclause("C09", "run_parallel/ties-broken-by-submit-index", "custom", "clematis/engine/util/parallel.py:run_parallel",
          fn=tiebreak_by_submit_index)


def t1_task_keys_follow_graph_order(cl, mod, cls, func):
    """T1 fan-out: every task key is the tuple (enumerate index, gid) and order_key is the identity, so the reduce
    sees per-graph results in active_graphs order (integer index first: no lexicographic surprises)"""
    calls = [n for n in ast.walk(func) if isinstance(n, ast.Call) and getattr(n.func, "id", None) == "run_parallel"]
    if len(calls) != 1:
        return [result(cl["name"], "error", "anchor lost: run_parallel call in t1_propagate")]
    c = calls[0]
    ok_key = False
    okw = [k.value for k in c.keywords if k.arg == "order_key"]
    if okw and isinstance(okw[0], ast.Lambda) and len(okw[0].args.args) == 1:
        pn = okw[0].args.args[0].arg
        ok_key = ast.unparse(okw[0].body) in (pn, "(%s[0], %s[1])" % (pn, pn))
    # the tasks list: elements ((idx, str(gid)), thunk) built in an enumerate loop / comprehension
    ok_tasks = False
    for n in ast.walk(func):
        if isinstance(n, ast.Tuple) and len(n.elts) == 2 and isinstance(n.elts[0], ast.Tuple) and len(n.elts[0].elts) == 2:
            first = n.elts[0].elts[0]
            if isinstance(first, ast.Name) and first.id in ("idx", "i"):
                ok_tasks = True
    ok = ok_key and ok_tasks
    return [result(cl["name"], "proved" if ok else "failed",
                   "" if ok else "task key is not (integer index, gid) with identity order_key: order_key identity=%s, tuple keys=%s" % (ok_key, ok_tasks))]


R.fclause("C09", "t1-fanout/task-keys-follow-graph-order", "custom", T1P, fn=t1_task_keys_follow_graph_order)


# ---------------------------------------------------------------- C20: boot loader runs once; adapter fallback cannot raise
def boot_flag_set_in_finally(cl, mod, cls, func):
    sites = find_sites(func, lambda n: match_site(n, {"call": "load_latest_snapshot"}))
    sites = [s for s in sites if not s[1].funcs]
    if len(sites) != 1:
        return [result(cl["name"], "error", "anchor lost: load_latest_snapshot call")]
    node, info = sites[0]
    trs = [tr for tr, part in info.tries if part == "body"]
    if not trs:
        return [result(cl["name"], "failed", "boot load is not inside a try")]
    tr = trs[-1]
    ok = any("_boot_loaded" in ast.unparse(st) for st in tr.finalbody)
    return [result(cl["name"], "proved" if ok else "failed",
                   "" if ok else "state['_boot_loaded'] is no longer set in the `finally` of the boot-load try: a failing loader "
                                 "re-runs (and resets the graph) on every turn instead of behaving like 'no snapshot'")]


R.fclause("C20", "boot-load/flag-set-on-every-outcome", "custom", RT, fn=boot_flag_set_in_finally)

TOTAL_CALLS = {"str", "type", "isinstance", "getattr", "len", "bool", "repr", "dict", "list", "tuple"}


def _total(e):
    """syntactically total expression (cannot raise for any values): see the whitelist"""
    if isinstance(e, (ast.Constant, ast.Name)):
        return True
    if isinstance(e, ast.JoinedStr):
        return all(_total(v.value) if isinstance(v, ast.FormattedValue) else True for v in e.values)
    if isinstance(e, ast.IfExp):
        return _total(e.test) and _total(e.body) and _total(e.orelse)
    if isinstance(e, ast.BoolOp):
        return all(_total(v) for v in e.values)
    if isinstance(e, ast.UnaryOp) and isinstance(e.op, ast.Not):
        return _total(e.operand)
    if isinstance(e, ast.Compare):
        return all(isinstance(o, (ast.Is, ast.IsNot, ast.Eq, ast.NotEq)) for o in e.ops) and _total(e.left) and all(_total(c) for c in e.comparators)
    if isinstance(e, ast.Attribute):
        return e.attr == "__name__" and isinstance(e.value, ast.Call) and getattr(e.value.func, "id", None) == "type"
    if isinstance(e, ast.Call):
        if isinstance(e.func, ast.Name) and e.func.id in TOTAL_CALLS:
            if e.func.id == "getattr" and len(e.args) < 3:
                return False
            return all(_total(a) for a in e.args) and all(_total(k.value) for k in e.keywords)
        return False
    if isinstance(e, ast.Subscript):
        return isinstance(e.slice, ast.Slice) and _total(e.value)
    if isinstance(e, (ast.Tuple, ast.List)):
        return all(_total(x) for x in e.elts)
    if isinstance(e, ast.Dict):
        return all(k is not None and _total(k) for k in e.keys) and all(_total(v) for v in e.values)
    return False


def adapter_fallback_total(cl, mod, cls, func):
    """after a failed LLM adapter construction the turn falls back to the rule-based speaker: every statement of the
    fallback block other than the speak() call itself is built from total operations only (it sits outside any guard)"""
    ifs = [n for n in ast.walk(func) if isinstance(n, ast.If) and ast.unparse(n.test) == "adapter is not None"
           and any("backend_fallback" in ast.unparse(s) for s in n.orelse)]
    if len(ifs) != 1:
        return [result(cl["name"], "error", "anchor lost: `if adapter is not None: ... else: <fallback>`")]
    out = []
    bad = []
    for st in ifs[0].orelse:
        for n in ast.walk(st):
            if isinstance(n, (ast.Assign, ast.AugAssign, ast.AnnAssign)):
                v = n.value
                if isinstance(v, ast.Call) and getattr(v.func, "id", None) == "speak":
                    continue
                if v is not None and not _total(v):
                    bad.append("line %d: %s" % (n.lineno, ast.unparse(v)[:90]))
            elif isinstance(n, ast.Expr) and not isinstance(n.value, ast.Constant) and not _total(n.value):
                bad.append("line %d: %s" % (n.lineno, ast.unparse(n.value)[:90]))
            elif isinstance(n, ast.If) and not _total(n.test):
                bad.append("line %d: test %s" % (n.lineno, ast.unparse(n.test)[:90]))
    if bad:
        return [result(cl["name"], "failed", "unguarded operation that may raise in the adapter-failure fallback: " + "; ".join(bad))]
    return [result(cl["name"], "proved", where="fallback block uses total operations only")]


R.fclause("C20", "llm-adapter/fallback-block-cannot-raise", "custom", RT, fn=adapter_fallback_total)

# ---------------------------------------------------------------- C04: the kill switch in the parallel agent driver's commit phase
R.fclause("C04", "killswitch/batch-driver-gate:apply_changes", "gate",
          "clematis/engine/orchestrator/parallel.py:_run_agents_parallel_batch",
          sites={"call": "apply_changes"}, gate="t4_enabled")


# ---------------------------------------------------------------- C02: the metrics gate is perf.enabled && perf.metrics.report_memory
# Both copies of the gate predicate (engine/util/metrics.py:gate_on and stages/t2/config.py:metrics_gate_on) are
# verified (Engine V, every JSON-like cfg): True only when both switches are truthy.  The T2 stage reports cache
# metrics on a *hit* through that predicate: the two reads of hit.metrics on the hit path are dominated by it.
_GATE_BOTH = ("result == (dyn_truthy(dget(ite(dyn_truthy(dget(cfg, 'perf', {})), dget(cfg, 'perf', {}), dyn(dict())), 'enabled', False)) and "
              "dyn_truthy(dget(ite(dyn_truthy(dget(ite(dyn_truthy(dget(cfg, 'perf', {})), dget(cfg, 'perf', {}), dyn(dict())), 'metrics', {})), "
              "dget(ite(dyn_truthy(dget(cfg, 'perf', {})), dget(cfg, 'perf', {}), dyn(dict())), 'metrics', {}), dyn(dict())), 'report_memory', False)))")
for _key in ("clematis/engine/util/metrics.py:gate_on", "clematis/engine/stages/t2/config.py:metrics_gate_on"):
    R.contract(_key, "C02", callee=False, types={"cfg": "Dyn"}, returns="bool",
               requires=[("cfg-is-a-mapping-of-mappings",
                          "is_dict(cfg) and (not dyn_truthy(dget(cfg, 'perf', {})) or is_dict(dget(cfg, 'perf', {}))) and "
                          "(not dyn_truthy(dget(dget(cfg, 'perf', {}), 'metrics', {})) or is_dict(dget(dget(cfg, 'perf', {}), 'metrics', {})))")],
               ensures=[("true-only-when-perf-enabled", "implies(result, dyn_truthy(dget(dget(cfg, 'perf', {}), 'enabled', False)))"),
                        ("true-only-when-report-memory", "implies(result, dyn_truthy(dget(dget(dget(cfg, 'perf', {}), 'metrics', {}), 'report_memory', False)))"),
                        ("true-when-both", "implies(dyn_truthy(dget(dget(cfg, 'perf', {}), 'enabled', False)) and "
                                           "dyn_truthy(dget(dget(dget(cfg, 'perf', {}), 'metrics', {}), 'report_memory', False)), result)")],
               raises="none",
               unreachable_ok=["perf = getattr(cfg, 'perf', {}) or {}"])      # cfg is a dict here (the namespace form is not modelled)
R.fclause("C02", "gate/t2-cache-hit-metrics", "gate", T2S, sites={"call": "get", "recv": "hit.metrics"},
          gate="_metrics_gate_on(cfg_root)", min_sites=2)
