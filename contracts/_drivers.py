"""Composition harnesses: tiny functions that only *compose* repository functions, so that a law about a
composition (a round trip) becomes the postcondition of one function the verifier can run symbolically.
The repository functions they call are resolved from $VERIF_REPO and interpreted inline from their real AST;
nothing of the repository is copied here.  (This module is not a contract module: its name starts with '_',
so the check driver does not import it.)"""


def c07_roundtrip(base, curr):
    from clematis.engine.util.snapshot_delta import compute_delta, apply_delta
    delta = compute_delta(base, curr)
    return apply_delta(base, delta)


def c07_delta_then_apply(base, curr):
    """same composition, returning the intermediate delta as well"""
    from clematis.engine.util.snapshot_delta import compute_delta, apply_delta
    delta = compute_delta(base, curr)
    return delta, apply_delta(base, delta)


def c06_store_roundtrip(store, fresh):
    """export the weights of `store`, import them into the store `fresh`"""
    from clematis.engine.snapshot import _export_store_for_snapshot, _import_store_from_snapshot
    snap = _export_store_for_snapshot(store)
    return _import_store_from_snapshot(fresh, snap)


def c06_round6_of_clamp(w, lo, hi):
    """the weight pipeline of the sanitiser on one value"""
    from clematis.engine.snapshot import _round6, _clamp
    return _round6(_clamp(float(w), lo, hi))
