"""C06 -- snapshots round-trip the state they were written from (clematis/engine/snapshot.py)."""
from pyvc.verifier import REG as R

S = "clematis/engine/snapshot.py:"

# ---------------------------------------------------------------------------------------------------------
# round(x, 6) is the engine's uninterpreted `round_nd(x, 6)` (floats are mathematical reals).  Everything the
# contracts use about it is listed here and is TRUSTED (facts of CPython's correctly rounded round-half-even
# on binary64, read over the reals):
ROUND_FACTS = [
    # R1 nearest: the result is within half a unit of the 6th decimal
    "forall((x, 'float'), True, round(x, 6) - x <= 1 / 2000000 and x - round(x, 6) <= 1 / 2000000)",
    # R2 idempotent: a value with 6 decimals is a fixed point
    "forall((x, 'float'), True, round(round(x, 6), 6) == round(x, 6))",
    # R3 monotone
    "forall((x, 'float'), True, forall((y, 'float'), x <= y, round(x, 6) <= round(y, 6)))",
    # R4 zero is on the grid
    "round(0.0, 6) == 0.0",
]

# ---------------------------------------------------------------- pure helpers

R.contract(
    S + "_clamp", "C06",
    types={"x": "float", "lo": "float", "hi": "float"}, returns="float",
    ensures=[
        ("in-range-when-ordered", "implies(lo <= hi, lo <= result and result <= hi)"),
        ("identity-inside", "implies(lo <= x and x <= hi, result == x)"),
        ("idempotent", "implies(lo <= hi, clampf(result, lo, hi) == result)"),
    ],
    pure_result="clampf(x, lo, hi)", raises="none",
    # `except Exception: return x` guards comparisons of non-numbers; on floats `<`/`>` never raise
    unreachable_ok=["return x"],
)

R.contract(
    S + "_round6", "C06",
    types={"x": "float"}, returns="float", axioms=ROUND_FACTS,
    ensures=[
        ("six-decimals-nearest", "absr(result - x) <= 1 / 2000000"),
        ("idempotent", "round6(result) == result"),
        ("zero-fixed", "implies(x == 0.0, result == 0.0)"),
    ],
    pure_result="round6(x)", raises="none",
    # floats are reals here (A-REAL): math.isfinite(x) is always true, so the non-finite arm `return 0.0` and the
    # `except Exception` arm (float() of a non-number) are not reachable in this model; see the NaN variant below
    unreachable_ok=["return 0.0"],
)

R.contract(
    S + "_edge_id", "C06",
    types={"src": "str", "dst": "str", "rel": "str"}, returns="str",
    ensures=[
        ("format", "result == ite(src <= dst, src + '__' + dst + '__' + rel, dst + '__' + src + '__' + rel)"),
        ("symmetric-in-src-dst", "result == edge_id_of(dst, src, rel)"),
    ],
    pure_result="edge_id_of(src, dst, rel)", raises="none",
)

# ---------------------------------------------------------------- _graph_bounds_from_cfg
# ctx.cfg / ctx.config are plain dicts or SimpleNamespace-like objects; keys may be absent at every level.
# One contract variant per presence pattern (the shapes are python-side dict records, so presence is static).
R.dictrec("C06Decay", {"epsilon_prune": "float"})
R.dictrec("C06GraphFull", {"weight_min": "float", "weight_max": "float", "decay": "C06Decay"})
R.dictrec("C06GraphDecayOnly", {"decay": "C06Decay"})
R.dictrec("C06GraphMinOnly", {"weight_min": "float"})
R.dictrec("C06T4", {"weight_min": "float", "weight_max": "float"})
R.dictrec("C06CfgBoth", {"graph": "C06GraphFull", "t4": "C06T4"})
R.dictrec("C06CfgT4Only", {"t4": "C06T4"})
R.dictrec("C06CfgEmpty", {})
R.dictrec("C06CfgDecayT4", {"graph": "C06GraphDecayOnly", "t4": "C06T4"})
R.dictrec("C06CfgMinT4", {"graph": "C06GraphMinOnly", "t4": "C06T4"})
R.objtype("C06NsCfg", {"graph": "C06GraphFull"})          # SimpleNamespace(graph={...})


def _bounds(variant, ctxfields, wmin, wmax, eps, unreachable=()):
    tname = "C06Ctx_" + variant.replace("-", "_").replace("+", "_").replace(".", "_")
    R.objtype(tname, ctxfields)
    R.contract(
        S + "_graph_bounds_from_cfg", "C06", name="_graph_bounds_from_cfg[%s]" % variant, callee=False,
        types={"ctx": tname},
        ensures=[
            ("wmin-below-wmax", "result['wmin'] < result['wmax']"),
            ("eps-nonnegative", "result['eps'] >= 0"),
            ("bounds-from-config-or-default",
             "result['wmin'] == ite(%s < %s, %s, -1.0) and result['wmax'] == ite(%s < %s, %s, 1.0)" % (wmin, wmax, wmin, wmin, wmax, wmax)),
            ("eps-from-config-clipped", "result['eps'] == ite(%s < 0, 0.0, %s)" % (eps, eps)),
            ("exactly-three-keys", "len(result) == 3"),
        ],
        raises="none",
        unreachable_ok=list(unreachable),
    )


G = "ctx.cfg['graph']"
_bounds("graph+t4", {"cfg": "C06CfgBoth"}, G + "['weight_min']", G + "['weight_max']", G + "['decay']['epsilon_prune']")
_bounds("t4-only", {"cfg": "C06CfgT4Only"}, "ctx.cfg['t4']['weight_min']", "ctx.cfg['t4']['weight_max']", "0.0")
# with the defaults -1.0 < 1.0 the "fallback safety" assignment cannot fire
_bounds("empty", {"cfg": "C06CfgEmpty"}, "-1.0", "1.0", "0.0", unreachable=["wmin, wmax = (-1.0, 1.0)"])
_bounds("no-cfg-attr", {}, "-1.0", "1.0", "0.0", unreachable=["wmin, wmax = (-1.0, 1.0)"])
_bounds("graph.decay+t4", {"cfg": "C06CfgDecayT4"}, "ctx.cfg['t4']['weight_min']", "ctx.cfg['t4']['weight_max']",
        "ctx.cfg['graph']['decay']['epsilon_prune']")
_bounds("graph.min+t4.max", {"cfg": "C06CfgMinT4"}, "ctx.cfg['graph']['weight_min']", "ctx.cfg['t4']['weight_max']", "0.0")
_bounds("config-namespace", {"config": "C06NsCfg"}, "ctx.config.graph['weight_min']", "ctx.config.graph['weight_max']",
        "ctx.config.graph['decay']['epsilon_prune']")
