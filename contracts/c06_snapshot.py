"""C06 -- snapshots round-trip the state they were written from (clematis/engine/snapshot.py)."""
import os
from pyvc.verifier import REG as R

S = "clematis/engine/snapshot.py:"
DRV = os.path.join(os.path.dirname(os.path.abspath(__file__)), "_drivers.py") + ":"

# ---------------------------------------------------------------------------------------------------------
# round(x, 6) is the engine's uninterpreted `round_nd(x, 6)` (floats are mathematical reals).  Everything the
# contracts use about it is listed here and is TRUSTED (facts of CPython's correctly rounded round-half-even
# on binary64, read over the reals):
ROUND_FACTS = [
    # R1 nearest: the result is within half a unit of the 6th decimal
    "forall((x, 'float'), True, round(x, 6) - x <= 1 / 2000000 and x - round(x, 6) <= 1 / 2000000)",
    # R2 idempotent: a value with 6 decimals is a fixed point
    "forall((x, 'float'), True, round(round(x, 6), 6) == round(x, 6))",
    # R3 monotone
    "forall((x, 'float'), True, forall((y, 'float'), x <= y, round(x, 6) <= round(y, 6)))",
    # R4 integers are on the grid
    "forall((n, 'int'), True, round(to_real(n), 6) == to_real(n))",
    # ... instances of R4 for the default bounds and zero (no term for the matcher to find otherwise)
    "round(-1.0, 6) == -1.0 and round(1.0, 6) == 1.0 and round(0.0, 6) == 0.0",
]

# ---------------------------------------------------------------- pure helpers

R.contract(
    S + "_clamp", "C06",
    types={"x": "float", "lo": "float", "hi": "float"}, returns="float",
    ensures=[
        ("in-range-when-ordered", "implies(lo <= hi, lo <= result and result <= hi)"),
        ("identity-inside", "implies(lo <= x and x <= hi, result == x)"),
        ("idempotent", "implies(lo <= hi, clampf_snap(result, lo, hi) == result)"),
    ],
    pure_result="clampf_snap(x, lo, hi)", raises="none",
    # `except Exception: return x` guards comparisons of non-numbers; on floats `<`/`>` never raise
    unreachable_ok=["return x"],
)

R.contract(
    S + "_round6", "C06",
    types={"x": "float"}, returns="float", axioms=ROUND_FACTS,
    ensures=[
        ("six-decimals-nearest", "absr(result - x) <= 1 / 2000000"),
        ("idempotent", "round6(result) == result"),
        ("zero-fixed", "implies(x == 0.0, result == 0.0)"),
    ],
    pure_result="round6(x)", raises="none",
    # floats are reals here (A-REAL): math.isfinite(x) is always true, so the non-finite arm `return 0.0` and the
    # `except Exception` arm (float() of a non-number) are not reachable in this model; see the NaN variant below
    unreachable_ok=["return 0.0"],
)

# non-finite weights: nan is the only float the engine models besides the reals (VNaN: all comparisons False,
# isfinite False); +-inf behave like very large reals in `_clamp` (clamped to a bound) and are not modelled in `_round6`
R.contract(
    S + "_clamp", "C06", name="_clamp[nan]", callee=False,
    types={"x": "=nan()", "lo": "float", "hi": "float"},
    ensures=[("nan-passes-through", "is_nan(result)")], raises="none",
    unreachable_ok=["return lo", "return hi", "return x"],
)
R.contract(
    S + "_round6", "C06", name="_round6[nan]", callee=False,
    types={"x": "=nan()"},
    ensures=[("non-finite-becomes-zero", "result == 0.0")], raises="none",
    unreachable_ok=["return round(float(x), 6)", "return 0.0"],
)
R.contract(
    DRV + "c06_round6_of_clamp", "C06", name="_round6(_clamp(nan, lo, hi))", callee=False,
    types={"w": "=nan()", "lo": "float", "hi": "float"},
    ensures=[("nan-weight-is-stored-as-zero", "result == 0.0")], raises="none",
)

R.contract(
    S + "_edge_id", "C06",
    types={"src": "str", "dst": "str", "rel": "str"}, returns="str",
    ensures=[
        ("format", "result == ite(src <= dst, src + '__' + dst + '__' + rel, dst + '__' + src + '__' + rel)"),
        ("symmetric-in-src-dst", "result == edge_id_of(dst, src, rel)"),
    ],
    pure_result="edge_id_of(src, dst, rel)", raises="none",
)

# ---------------------------------------------------------------- _graph_bounds_from_cfg
# ctx.cfg / ctx.config are plain dicts or SimpleNamespace-like objects; keys may be absent at every level.
# One contract variant per presence pattern (the shapes are python-side dict records, so presence is static).
R.dictrec("C06Decay", {"epsilon_prune": "float"})
R.dictrec("C06GraphFull", {"weight_min": "float", "weight_max": "float", "decay": "C06Decay"})
R.dictrec("C06GraphDecayOnly", {"decay": "C06Decay"})
R.dictrec("C06GraphMinOnly", {"weight_min": "float"})
R.dictrec("C06T4", {"weight_min": "float", "weight_max": "float"})
R.dictrec("C06CfgBoth", {"graph": "C06GraphFull", "t4": "C06T4"})
R.dictrec("C06CfgT4Only", {"t4": "C06T4"})
R.dictrec("C06CfgEmpty", {})
R.dictrec("C06CfgDecayT4", {"graph": "C06GraphDecayOnly", "t4": "C06T4"})
R.dictrec("C06CfgMinT4", {"graph": "C06GraphMinOnly", "t4": "C06T4"})
R.objtype("C06NsCfg", {"graph": "C06GraphFull"})          # SimpleNamespace(graph={...})


def _bounds(variant, ctxfields, wmin, wmax, eps, unreachable=()):
    tname = "C06Ctx_" + variant.replace("-", "_").replace("+", "_").replace(".", "_")
    R.objtype(tname, ctxfields)
    R.contract(
        S + "_graph_bounds_from_cfg", "C06", name="_graph_bounds_from_cfg[%s]" % variant, callee=False,
        types={"ctx": tname},
        ensures=[
            ("wmin-below-wmax", "result['wmin'] < result['wmax']"),
            ("eps-nonnegative", "result['eps'] >= 0"),
            ("bounds-from-config-or-default",
             "result['wmin'] == ite(%s < %s, %s, -1.0) and result['wmax'] == ite(%s < %s, %s, 1.0)" % (wmin, wmax, wmin, wmin, wmax, wmax)),
            ("eps-from-config-clipped", "result['eps'] == ite(%s < 0, 0.0, %s)" % (eps, eps)),
            ("exactly-three-keys", "len(result) == 3"),
        ],
        raises="none",
        # without a configured epsilon the default 0.0 is used: the `if eps < 0: eps = 0.0` clip cannot fire
        unreachable_ok=list(unreachable) + (["eps = 0.0"] if eps == "0.0" else []),
    )


G = "ctx.cfg['graph']"
_bounds("graph+t4", {"cfg": "C06CfgBoth"}, G + "['weight_min']", G + "['weight_max']", G + "['decay']['epsilon_prune']")
_bounds("t4-only", {"cfg": "C06CfgT4Only"}, "ctx.cfg['t4']['weight_min']", "ctx.cfg['t4']['weight_max']", "0.0")
# with the defaults -1.0 < 1.0 the "fallback safety" assignment cannot fire
_bounds("empty", {"cfg": "C06CfgEmpty"}, "-1.0", "1.0", "0.0", unreachable=["wmin, wmax = (-1.0, 1.0)"])
_bounds("no-cfg-attr", {}, "-1.0", "1.0", "0.0", unreachable=["wmin, wmax = (-1.0, 1.0)"])
_bounds("graph.decay+t4", {"cfg": "C06CfgDecayT4"}, "ctx.cfg['t4']['weight_min']", "ctx.cfg['t4']['weight_max']",
        "ctx.cfg['graph']['decay']['epsilon_prune']")
_bounds("graph.min+t4.max", {"cfg": "C06CfgMinT4"}, "ctx.cfg['graph']['weight_min']", "ctx.cfg['t4']['weight_max']", "0.0")
_bounds("config-namespace", {"config": "C06NsCfg"}, "ctx.config.graph['weight_min']", "ctx.config.graph['weight_max']",
        "ctx.config.graph['decay']['epsilon_prune']")

# ---------------------------------------------------------------- discovery over an abstract directory listing
# pyvc/ext_listing.py: os.path.isdir / os.listdir / os.path.join / os.path.getmtime over ghost state.
# String reasoning is kept out of the verification conditions: os.path.join is the opaque `path_join`, the shape
# of a numbered snapshot name is the opaque `is_snap` / `snap_no`; what the clauses need about them are the axioms
# below, each one proved (for all strings) by the lemma `discovery_strings` from the definitions.
R.uf("is_snap", ["str"], "bool")
R.uf("snap_no", ["str"], "int")
PICK_AXIOMS = [
    # definitions (the code tests exactly this; is_snap_name / snap_num are spec helpers in specs.py)
    "forall((n, 'str'), True, is_snap(n) == is_snap_name(n))",
    "forall((n, 'str'), True, snap_no(n) == snap_num(n))",
    # lemma discovery_strings/join-keeps-.json
    "forall((n, 'str'), n.endswith('.json'), path_join(directory, n).endswith('.json'))",
    # lemma discovery_strings/.json-is-not-a-temp-name
    "forall((s, 'str'), s.endswith('.json'), not is_tmp_name(s))",
]
LISTED = "exists(i, 0 <= i < len(fs_listing), fs_listing[i].endswith('.json') and some(result) == path_join(directory, fs_listing[i]))"


# str.isdigit() accepts digits that int() rejects (e.g. U+00B2 SUPERSCRIPT TWO): exactly then discovery raises
BAD_SNAP = ("exists(i, 0 <= i < len(fs_listing), fs_listing[i].endswith('.json') and fs_listing[i].startswith('snap_') and "
            "fs_listing[i][5:-5].isdigit() and not int_parses(fs_listing[i][5:-5]))")


def _pick(variant, mtime_fails, unreachable):
    R.contract(
        S + "_pick_latest_snapshot_path", "C06", name="_pick_latest_snapshot_path[%s]" % variant, callee=False,
        types={"directory": "str"}, returns="Optional[str]",
        ghost={"fs_isdir": ("bool", "any"), "fs_listing": ("List[str]", "any"), "fs_mtime_fails": ("bool", mtime_fails),
               "fs_listdir_raised": ("bool", "False")},
        axioms=PICK_AXIOMS,
        ensures=[
            ("picks-a-listed-json-body", "implies(not is_none(result), " + LISTED + ")"),
            ("result-ends-with-.json", "implies(not is_none(result), some(result).endswith('.json'))"),
            ("never-a-.json.meta-sidecar", "implies(not is_none(result), not some(result).endswith('.json.meta'))"),
            ("never-an-atomic-writer-temp-name", "implies(not is_none(result), not is_tmp_name(some(result)))"),
            ("none-iff-nothing-to-pick",
             "is_none(result) == (not fs_isdir or fs_listdir_raised or "
             "forall(i, 0 <= i < len(fs_listing), not fs_listing[i].endswith('.json')))"),
        ],
        raises={"ValueError": BAD_SNAP}, timeout_ms=8000,
        # the `*.json` filter of the listing is transferred as an explicit fact (cut point after the second binding of
        # `names`, then a loop invariant): the loop's own re-test of endswith('.json') is redundant, and a proof that
        # leans on it breaks when someone removes it
        asserts={"names@2": ["forall(i, 0 <= i < len(names), names[i].endswith('.json'))"]},
        loops={0: {"inv": [
            "forall(i, 0 <= i < len(_iter), _iter[i].endswith('.json'))",
            "forall(j, 0 <= j < len(numbered), exists(i, 0 <= i < _i, is_snap(_iter[i]) and "
            " numbered[j][1] == path_join(directory, _iter[i]) and numbered[j][0] == snap_no(_iter[i])))",
        ]}},
        locals={"numbered": "List[Tuple[int, str]]", "stem": "str"},
        unreachable_ok=unreachable,
    )


# `names` was already filtered by the comprehension, so the `continue` guard inside the loop is dead code;
# with a working getmtime the two `except Exception: xs.sort()` arms are not taken (and vice versa the code after a
# failing sort(key=getmtime) is the plain sort)
_pick("mtime-ok", "False", ["continue", "state_candidates.sort()", "any_json.sort()"])
_pick("mtime-raises", "True", ["continue"])


# the same function on two *concrete* listings (symbolic directory name), loops unrolled: a numbered snapshot whose
# digits are not decimal digits makes discovery raise ValueError (natively confirmed: "snap_\u00b2\u00b3.json")
def _pick_concrete(variant, listing, ensures, raises):
    R.contract(
        S + "_pick_latest_snapshot_path", "C06", name="_pick_latest_snapshot_path[%s](bounded)" % variant, callee=False,
        mode="bounded", unroll=4, types={"directory": "str"}, returns="Optional[str]",
        ghost={"fs_isdir": ("bool", "True"), "fs_listing": ("Tuple[%s]" % ", ".join(["str"] * len(listing)), repr(tuple(listing))),
               "fs_mtime_fails": ("bool", "False"), "fs_listdir_raised": ("bool", "False")},
        axioms=PICK_AXIOMS[2:], ensures=[(n, "implies(not fs_listdir_raised, %s)" % e) for n, e in ensures], raises=raises, loops={0: None}, replay="c06_snapshot:pick_listing",
        unreachable_ok=["return None", "continue", "state_candidates.sort()", "any_json.sort()",
                        "state_candidates = ", "if state_candidates:", "any_json = ", "if not any_json:", "try:", "return any_json[0]",
                        "return state_candidates[0]", "numbered.append(", "numbered.sort(", "return numbered[0][1]"],
    )


_pick_concrete("listing=snap_7,snap_12,state_a,tmp,meta",
               ["snap_7.json", "snap_12.json", "state_a.json", "state_a.json.k3j2h1g0", "snap_12.json.meta"],
               [("highest-number-wins", "result == path_join(directory, 'snap_12.json')")], "none")
_pick_concrete("listing=snap_\u00b2\u00b3,state_x", ["snap_\u00b2\u00b3.json", "state_x.json"],
               [("falls-back-to-state-file", "result == path_join(directory, 'state_x.json')")], "none")

# ---------------------------------------------------------------- string lemmas behind the discovery axioms

def _discovery_strings():
    """the two string axioms of PICK_AXIOMS, from the definitions of os.path.join (posix, two arguments) and of the
    atomic writer's temp names; plus: the sidecar and temp names the writers create are never `*.json` names"""
    import z3
    from pyvc.ext_listing import path_join2
    d, n, s, p, r = z3.Strings("d n s p r")
    J, M = z3.StringVal(".json"), z3.StringVal(".json.meta")
    ch = z3.Union(z3.Range("a", "z"), z3.Range("0", "9"), z3.Re(z3.StringVal("_")))
    tmp_re = z3.Concat(z3.Full(z3.ReSort(z3.StringSort())), z3.Re(z3.StringVal(".")), z3.Loop(ch, 8, 8))
    rand8 = z3.InRe(r, z3.Loop(ch, 8, 8))
    fast = {"z3_timeout_ms": 3000}
    return [
        ("join-keeps-.json", [z3.SuffixOf(J, n)], z3.SuffixOf(J, path_join2(d, n)), fast),
        (".json-is-not-a-temp-name", [z3.SuffixOf(J, s)], z3.Not(z3.InRe(s, tmp_re)), fast),
        (".json-is-not-a-sidecar-name", [z3.SuffixOf(J, s)], z3.Not(z3.SuffixOf(M, s)), fast),
        # clematis/engine/snapshot.py:_write_sidecar_meta writes p + ".meta"
        ("sidecar-name-is-not-.json", [], z3.Not(z3.SuffixOf(J, z3.Concat(p, z3.StringVal(".meta")))), fast),
        # clematis/io/atomic.py:_make_tmp: NamedTemporaryFile(prefix=final.name + ".") -> final.name + "." + 8 x [a-z0-9_]
        ("temp-name-is-a-temp-name", [rand8], z3.InRe(z3.Concat(p, z3.StringVal("."), r), tmp_re), fast),
        ("temp-name-is-not-.json", [rand8], z3.Not(z3.SuffixOf(J, z3.Concat(p, z3.StringVal("."), r))), fast),
    ]


R.lemma("discovery_strings", "C06", _discovery_strings)

# ---------------------------------------------------------------- _sanitize_gel_for_write
# Callers see `_edge_id` only as the deterministic function eid3 (its format and symmetry are the obligations of its
# own contract above); edge records are dict-shaped records: every documented key may be absent on input, all six are
# present on output.  Input type invariant (stated, not proved): gel is a dict whose "nodes"/"edges" are dicts keyed by
# strings, edge records are dicts with string src/dst/rel, a float weight, a string updated_at and a dict attrs.
R.opaque(S + "_edge_id", "eid3", ["str", "str", "str"], "str")
R.untype("C06Node")
R.dictshape("C06EdgeIn", optional={"src": "str", "dst": "str", "rel": "str", "weight": "float", "updated_at": "str",
                                  "attrs": "Dict[str, str]"})
R.dictshape("C06EdgeOut", required={"src": "str", "dst": "str", "rel": "str", "weight": "float",
                                   "updated_at": "Optional[str]", "attrs": "Dict[str, str]"})
R.dictrec("C06MetaIn", {"merges": "List[str]", "concept_nodes_count": "int"})
R.dictrec("C06Gel", {"nodes": "Dict[str, Un[C06Node]]", "edges": "Dict[str, C06EdgeIn]", "meta": "C06MetaIn"})
R.dictrec("C06GelNoMeta", {"nodes": "Dict[str, Un[C06Node]]", "edges": "Dict[str, C06EdgeIn]"})
R.objtype("C06CtxSan", {"cfg": "C06CfgBoth"})

EIN, EOUT = "gel['edges']", "result['edges']"
ON_GRID = "(round6(wmin) == wmin and round6(wmax) == wmax and (eps == 0 or (wmin <= 0 and 0 <= wmax)))"


def _sanitize(variant, geltype, meta_clauses, unreachable, literal_bounds=False):
    R.contract(
        S + "_sanitize_gel_for_write", "C06", name="_sanitize_gel_for_write[%s]" % variant, callee=False,
        types={"gel": geltype, "ctx": "C06CtxSan"}, axioms=ROUND_FACTS, timeout_ms=6000,
        ensures=[
            ("three-sections", "len(result) == 3 and 'nodes' in result and 'edges' in result and 'meta' in result"),
            ("bounds-are-the-configured-ones", "wmin < wmax and eps >= 0"),
            ("nodes-copied", "seq_eq(result['nodes'], gel['nodes'])"),
            ("every-output-edge-is-a-sanitised-input-edge-under-its-canonical-key",
             "forall((k, 'str'), k in " + EOUT + ", exists((q, 'str'), q in " + EIN + ", k == ein_id(" + EIN + "[q]) and "
             "edge_sanitized(" + EOUT + "[k], " + EIN + "[q], wmin, wmax, eps)))"),
            ("every-input-edge-is-kept-under-its-canonical-key",
             "forall((q, 'str'), q in " + EIN + ", ein_id(" + EIN + "[q]) in " + EOUT + ")"),
            ("weights-in-bounds-when-bounds-are-6-decimal-and-pruning-keeps-zero-inside",
             "implies(" + ON_GRID + ", forall((k, 'str'), k in " + EOUT + ", wmin <= " + EOUT + "[k]['weight'] and "
             + EOUT + "[k]['weight'] <= wmax))"),
            ("weights-within-half-a-6th-decimal-of-bounds-or-pruned",
             "forall((k, 'str'), k in " + EOUT + ", " + EOUT + "[k]['weight'] == 0.0 or (wmin - 1 / 2000000 <= " + EOUT + "[k]['weight'] and "
             + EOUT + "[k]['weight'] <= wmax + 1 / 2000000))"),
            # the literal claim "every stored weight lies in [wmin, wmax]" -- NOT implied by the code when a bound is not a
            # multiple of 1e-6 (round6(clamp(w)) can step over it) or when 0 lies outside the bounds and eps-pruning
            # stores 0.0 (natively: weight_min=0.1234564, w=0.0 -> 0.123456;  weight_min=0.2, eps=0.5, w=0.3 -> 0.0)
        ] + ([("weights-in-bounds", "forall((k, 'str'), k in " + EOUT + ", wmin <= " + EOUT + "[k]['weight'] and " + EOUT + "[k]['weight'] <= wmax)")]
             if literal_bounds else []) + [
            ("edges-count-exact", "result['meta']['edges_count'] == len(" + EOUT + ")"),
            ("meta-schema-v1.1", "result['meta']['schema'] == 'v1.1' and len(result['meta']) == 6"),
            ("input-untouched", "seq_eq(gel['nodes'], old(gel['nodes'])) and seq_eq(gel['edges'], old(gel['edges']))"),
        ] + meta_clauses,
        raises="none",
        loops=SAN_LOOPS,
        locals={"nodes_out": "Dict[str, Un[C06Node]]", "edges_out": "Dict[str, C06EdgeOut]", "w": "float"},
        unreachable_ok=unreachable,
    )


SAN_LOOPS = {
    0: {"inv": ["forall((k, 'str'), True, (k in nodes_out) == (k in _done))",
                "forall((k, 'str'), k in _done, nodes_out[k] == gnodes[k])",
                "len(nodes_out) == len(_done)"]},
    3: {"inv": ["forall((k, 'str'), k in edges_out, exists((q, 'str'), q in _done, k == ein_id(gedges[q]) and "
                "edge_sanitized(edges_out[k], gedges[q], wmin, wmax, eps)))",
                "forall((q, 'str'), q in _done, ein_id(gedges[q]) in edges_out)",
                "len(edges_out) <= len(_done)"]},
}


# dict-form graph (what the runtime store hands to write_snapshot): the list-form arms, the non-dict-edge `continue`
# and the `except Exception` arms (type confusion in the input) are outside the stated input type invariant
DEAD = ["if isinstance(gnodes, list)", "if isinstance(gedges, list)", "continue", "pass", "meta_in = {}", "ccount = 0"]
_sanitize("dict-graph,meta", "C06Gel",
          [("meta-lists-carried-or-empty", "seq_eq(result['meta']['merges'], gel['meta']['merges']) and "
            "len(result['meta']['splits']) == 0 and len(result['meta']['promotions']) == 0"),
           ("meta-counter-carried", "result['meta']['concept_nodes_count'] == gel['meta']['concept_nodes_count']")], DEAD,
          literal_bounds=False)   # the literal clause demands more than the documented clamp-then-round-then-prune (see OBSERVATIONS in DESIGN.md)
_sanitize("dict-graph,no-meta", "C06GelNoMeta",
          [("meta-defaults", "len(result['meta']['merges']) == 0 and len(result['meta']['splits']) == 0 and "
            "len(result['meta']['promotions']) == 0 and result['meta']['concept_nodes_count'] == 0")],
          DEAD + ["meta_out[k] = v"])      # no meta section: no list to carry over

# ---------------------------------------------------------------- store export / import (weights fallback)
# Input type invariant (stated): the store has no export_state/import_state hook (the weights-map fallback is the
# one exercised by the tests and the in-memory store), `store.w` is a dict (insertion ordered) whose keys are
# 3-tuples of strings and whose values are floats.
KT = "Tuple[str, str, str]"
R.dictshape("C06WeightRec", required={"target_kind": "str", "target_id": "str", "attr": "str", "value": "float"})
R.objtype("C06Store", {"w": "OrderedDict[%s, float]" % KT})
R.dictrec("C06SnapStore", {"weights": "List[C06WeightRec]"})
R.dictrec("C06SnapStoreState", {"state": "int"})

R.contract(
    S + "_export_store_for_snapshot", "C06",
    types={"store": "C06Store"}, returns="C06SnapStore",
    ensures=[
        ("one-record-per-weight-in-insertion-order",
         "len(result['weights']) == len(store.w) and forall(j, 0 <= j < len(store.w), "
         "result['weights'][j]['target_kind'] == list(store.w)[j][0] and result['weights'][j]['target_id'] == list(store.w)[j][1] and "
         "result['weights'][j]['attr'] == list(store.w)[j][2] and result['weights'][j]['value'] == store.w[list(store.w)[j]])"),
        ("only-the-weights-section", "len(result) == 1"),
        ("store-untouched", "seq_eq(store.w, old(store.w))"),
    ],
    raises="none",
    loops={0: {"inv": [
        "len(weights) == _i",
        "forall(j, 0 <= j < _i, weights[j]['target_kind'] == list(w)[j][0] and weights[j]['target_id'] == list(w)[j][1] and "
        "weights[j]['attr'] == list(w)[j][2] and weights[j]['value'] == w[list(w)[j]])",
    ]}},
    locals={"weights": "List[C06WeightRec]"},
    # no export_state hook (type invariant); keys are 3-tuples, so the unpacking never fails; `w` is a dict
    unreachable_ok=["if callable(exp)", "continue", "return None"],
)

SW = "snap_store['weights']"
R.contract(
    S + "_import_store_from_snapshot", "C06",
    types={"store": "C06Store", "snap_store": "C06SnapStore"}, returns="bool",
    ensures=[
        ("succeeds", "result == True"),
        ("every-listed-key-is-imported", "forall(i, 0 <= i < len(" + SW + "), wkey(" + SW + "[i]) in store.w)"),
        ("only-listed-keys-are-imported",
         "forall((k, '%s'), k in store.w, exists(i, 0 <= i < len(" % KT + SW + "), wkey(" + SW + "[i]) == k))"),
        ("last-record-of-a-key-wins",
         "forall(i, 0 <= i < len(" + SW + "), implies(forall(j, i < j and j < len(" + SW + "), wkey(" + SW + "[j]) != wkey(" + SW + "[i])), "
         "store.w[wkey(" + SW + "[i])] == " + SW + "[i]['value']))"),
        ("snapshot-section-untouched", "seq_eq(" + SW + ", old(" + SW + "))"),
    ],
    raises="none", modifies=["store.w"],
    loops={0: {"inv": [
        "forall(i, 0 <= i < _i, wkey(_iter[i]) in newmap)",
        "forall((k, '%s'), k in newmap, exists(i, 0 <= i < _i, wkey(_iter[i]) == k))" % KT,
        "forall(i, 0 <= i < _i, implies(forall(j, i < j and j < _i, wkey(_iter[j]) != wkey(_iter[i])), "
        "newmap[wkey(_iter[i])] == _iter[i]['value']))",
    ]}},
    locals={"newmap": "OrderedDict[%s, float]" % KT, "tk": "str", "tid": "str", "attr": "str", "val": "float"},
    # not a dict / import_state hook / malformed items: outside the stated input type invariant
    unreachable_ok=["return False", "if 'state' in snap_store and callable(imp)"],
)

R.contract(
    S + "_import_store_from_snapshot", "C06", name="_import_store_from_snapshot[no-weights-section]", callee=False,
    types={"store": "C06Store", "snap_store": "C06SnapStoreState"},
    ensures=[("refuses-and-leaves-the-store-alone", "result == False and seq_eq(store.w, old(store.w))")],
    raises="none",
    unreachable_ok=["if 'weights' in snap_store and isinstance(getattr(store, 'w', None), dict)", "return False",
                    "if 'state' in snap_store and callable(imp)"],
)

# round trip: import(export(w)) == w, through the two contracts above
R.contract(
    DRV + "c06_store_roundtrip", "C06", name="store export/import round trip", callee=False,
    types={"store": "C06Store", "fresh": "C06Store"},
    ensures=[("imported", "result == True"),
             ("weights-restored", "seq_eq(fresh.w, old(store.w))"),
             ("source-untouched", "seq_eq(store.w, old(store.w))")],
    raises="none",
)

# ---------------------------------------------------------------- sanitisation is idempotent (write -> load -> write fixpoint)
# A graph that already is an output of the sanitiser (every edge stored under its canonical key, every weight a fixed
# point of san_weight, all six fields present) is returned unchanged.  Together with the lemma
# `sanitize_weight_idempotent` (outputs of san_weight are fixed points) and the clause
# `every-output-edge-is-a-sanitised-input-edge-under-its-canonical-key` this gives S(S(g)) == S(g).
R.dictrec("C06GelOut", {"nodes": "Dict[str, Un[C06Node]]", "edges": "Dict[str, C06EdgeOut]", "meta": "C06MetaIn"})
R.contract(
    S + "_sanitize_gel_for_write", "C06", name="_sanitize_gel_for_write[already-sanitised]", callee=False,
    types={"gel": "C06GelOut", "ctx": "C06CtxSan"}, axioms=ROUND_FACTS, timeout_ms=6000,
    requires=[
        ("edges-under-canonical-keys",
         "forall((k, 'str'), k in gel['edges'], k == eid3(gel['edges'][k]['src'], gel['edges'][k]['dst'], gel['edges'][k]['rel']))"),
    ],
    ensures=[
        ("fixed-point-weights-give-the-same-edges",
         "implies(forall((k, 'str'), k in gel['edges'], san_weight(gel['edges'][k]['weight'], wmin, wmax, eps) == gel['edges'][k]['weight']), "
         "forall((k, 'str'), True, (k in result['edges']) == (k in gel['edges'])) and "
         "forall((k, 'str'), k in gel['edges'], same_value(result['edges'][k], gel['edges'][k])))"),
        ("nodes-copied", "seq_eq(result['nodes'], gel['nodes'])"),
    ],
    raises="none",
    loops={3: {"inv": [
        "forall((k, 'str'), True, (k in edges_out) == (k in _done))",
        "forall((k, 'str'), k in _done, edges_out[k]['src'] == gedges[k]['src'] and edges_out[k]['dst'] == gedges[k]['dst'] and "
        "edges_out[k]['rel'] == gedges[k]['rel'] and edges_out[k]['updated_at'] == gedges[k]['updated_at'] and "
        "same_value(edges_out[k]['attrs'], gedges[k]['attrs']) and "
        "edges_out[k]['weight'] == san_weight(gedges[k]['weight'], wmin, wmax, eps))",
    ]}},
    unreachable_ok=DEAD,
)


def _san_weight_lemma():
    """san_weight(san_weight(w)) == san_weight(w) for all reals w, bounds wmin < wmax and eps >= 0, from the rounding
    facts R2 (idempotent), R3 (monotone) and round6(0) == 0 (instances over an uninterpreted round6)."""
    import z3
    r6 = z3.Function("round6", z3.RealSort(), z3.RealSort())
    x, y, w, lo, hi, eps = z3.Reals("x y w lo hi eps")
    facts = [z3.ForAll([x], r6(r6(x)) == r6(x)),
             z3.ForAll([x, y], z3.Implies(x <= y, r6(x) <= r6(y))),
             r6(0) == 0]
    clamp = lambda v: z3.If(v < lo, lo, z3.If(v > hi, hi, v))
    absr = lambda v: z3.If(v >= 0, v, -v)
    san = lambda v: z3.If(absr(r6(clamp(v))) < eps, z3.RealVal(0), r6(clamp(v)))
    return [("idempotent", facts + [lo < hi, eps >= 0], san(san(w)) == san(w))]


R.lemma("sanitize_weight_idempotent", "C06", _san_weight_lemma)

# ---------------------------------------------------------------- _sanitize_gel_for_load
R.dictrec("C06MetaInLU", {"merges": "List[str]", "concept_nodes_count": "int", "last_update": "str"})
R.dictrec("C06GelLU", {"nodes": "Dict[str, Un[C06Node]]", "edges": "Dict[str, C06EdgeIn]", "meta": "C06MetaInLU"})
LOAD_COMMON = [
    ("every-output-edge-is-a-sanitised-input-edge-under-its-canonical-key",
     "forall((k, 'str'), k in " + EOUT + ", exists((q, 'str'), q in " + EIN + ", k == ein_id(" + EIN + "[q]) and "
     "edge_sanitized(" + EOUT + "[k], " + EIN + "[q], bnd_wmin, bnd_wmax, bnd_eps)))"),
    ("every-input-edge-is-kept-under-its-canonical-key", "forall((q, 'str'), q in " + EIN + ", ein_id(" + EIN + "[q]) in " + EOUT + ")"),
    ("nodes-copied", "seq_eq(result['nodes'], gel['nodes'])"),
    ("edges-count-exact", "result['meta']['edges_count'] == len(" + EOUT + ")"),
]
GC = "ctx.cfg['graph']"
WMIN_E = "ite(%s['weight_min'] < %s['weight_max'], %s['weight_min'], -1.0)" % (GC, GC, GC)
WMAX_E = "ite(%s['weight_min'] < %s['weight_max'], %s['weight_max'], 1.0)" % (GC, GC, GC)
EPS_E = "ite(%s['decay']['epsilon_prune'] < 0, 0.0, %s['decay']['epsilon_prune'])" % (GC, GC)
# `_sanitize_gel_for_write` is interpreted inline here: its general loop invariants (not those of the
# [already-sanitised] variant registered last) are the ones to use
R.loops(S + "_sanitize_gel_for_write", SAN_LOOPS)


def _load(variant, geltype, extra, dead=()):
    R.contract(
        S + "_sanitize_gel_for_load", "C06", name="_sanitize_gel_for_load[%s]" % variant, callee=False,
        types={"gel": geltype, "ctx": "C06CtxSan"}, axioms=ROUND_FACTS, timeout_ms=6000,
        ensures=[(n, c.replace("bnd_wmin", WMIN_E).replace("bnd_wmax", WMAX_E).replace("bnd_eps", EPS_E)) for n, c in LOAD_COMMON] + extra,
        raises="none", unreachable_ok=["pass"] + list(dead),
    )


# (no last_update key in the input meta: nothing to carry over)
_load("meta-without-last_update", "C06Gel", [("no-last_update-key", "not ('last_update' in result['meta'])"),
                                             ("meta-has-the-six-write-keys", "len(result['meta']) == 6")],
      dead=["meta['last_update'] = "])
_load("meta-with-last_update", "C06GelLU", [("last_update-carried", "result['meta']['last_update'] == gel['meta']['last_update']"),
                                          ("meta-has-seven-keys", "len(result['meta']) == 7")])

# ---------------------------------------------------------------- edge re-keying keeps the written edge order (byte fixpoint)
# write_snapshot serialises payload["gel"]["edges"] in dict (insertion) order, so "snapshotting the loaded state again
# reproduces the same body byte for byte" needs the loader to hand the edges back in the order they were written.  The
# re-keying loops of load_latest_snapshot and write_snapshot are verified as regions (the real `for` statement nodes;
# free variables `edges`, `new_edges`) over the engine's insertion-ordered maps: when the new keys of distinct edges are
# distinct (true for every snapshot body written by write_snapshot: its edge keys *are* those keys), the i-th edge of
# the result is the i-th edge of the input under its "a→b" key.
import ast as _ast


def _rekey_loop(fn):
    out = []
    for n in _ast.walk(fn):
        if isinstance(n, _ast.For) and any(
                isinstance(t, _ast.Subscript) and isinstance(t.value, _ast.Name) and t.value.id == "new_edges"
                for s in _ast.walk(n) if isinstance(s, _ast.Assign) for t in s.targets):
            out.append(n)
    return sorted(out, key=lambda n: n.lineno)[:1]


R.region("rekey-loop", _rekey_loop)
R.dictshape("C06EdgeId", required={"src": "str", "dst": "str", "rel": "str", "weight": "float",
                                  "updated_at": "Optional[str]", "attrs": "Dict[str, str]"}, optional={"id": "str"})
for _fn in ("load_latest_snapshot", "write_snapshot"):
    R.contract(
        S + _fn + "#rekey-loop", "C06", name=_fn + "/edge-rekey-loop", callee=False, replay="c06_snapshot:rekey_order_search",
        types={"edges": "OrderedDict[str, C06EdgeId]", "new_edges": "OrderedDict[str, C06EdgeId]"},
        requires=[
            ("starts-empty", "len(new_edges) == 0"),
            ("endpoints-non-empty", "forall((k, 'str'), k in edges, len(edges[k]['src']) > 0 and len(edges[k]['dst']) > 0)"),
            ("new-keys-distinct", "forall(i, 0 <= i < len(edges), forall(j, i < j and j < len(edges), "
             "arrow_key(edges[okeys(edges)[i]]) != arrow_key(edges[okeys(edges)[j]])))"),
        ],
        ensures=[
            ("same-number-of-edges", "len(new_edges) == len(edges)"),
            ("i-th-edge-stays-i-th-under-its-arrow-key",
             "forall(i, 0 <= i < len(edges), okeys(new_edges)[i] == arrow_key(edges[okeys(edges)[i]]))"),
            ("records-carried", "forall(i, 0 <= i < len(edges), "
             "new_edges[okeys(new_edges)[i]]['src'] == edges[okeys(edges)[i]]['src'] and "
             "new_edges[okeys(new_edges)[i]]['dst'] == edges[okeys(edges)[i]]['dst'] and "
             "new_edges[okeys(new_edges)[i]]['rel'] == edges[okeys(edges)[i]]['rel'] and "
             "new_edges[okeys(new_edges)[i]]['weight'] == edges[okeys(edges)[i]]['weight'] and "
             "new_edges[okeys(new_edges)[i]]['id'] == okeys(new_edges)[i])"),
            ("input-untouched", "seq_eq(edges, old(edges))"),
        ],
        raises="none",
        loops={0: {"inv": [
            "len(new_edges) == _i",
            "forall(j, 0 <= j < _i, okeys(new_edges)[j] == arrow_key(edges[okeys(edges)[j]]))",
            "forall(j, 0 <= j < _i, new_edges[okeys(new_edges)[j]]['src'] == edges[okeys(edges)[j]]['src'] and "
            "new_edges[okeys(new_edges)[j]]['dst'] == edges[okeys(edges)[j]]['dst'] and "
            "new_edges[okeys(new_edges)[j]]['rel'] == edges[okeys(edges)[j]]['rel'] and "
            "new_edges[okeys(new_edges)[j]]['weight'] == edges[okeys(edges)[j]]['weight'] and "
            "new_edges[okeys(new_edges)[j]]['id'] == okeys(new_edges)[j])",
        ]}},
        # records are dicts with non-empty string endpoints (stated input invariant): the skip / keep-old-key arms are dead
        unreachable_ok=["continue", "new_edges[k] = rec"],
    )

# ---------------------------------------------------------------- "every snapshot written carries the frozen schema marker"
# Engine-F clauses (AST): (1) the module constant is the frozen marker; (2) write_snapshot's payload literal carries
# "schema_version": SCHEMA_VERSION and nothing afterwards removes or rebinds that key before the body is written;
# (3) both writers (write_snapshot, _write_lines) write the sidecar with schema_version=SCHEMA_VERSION and
# _write_sidecar_meta puts its argument under "schema_version".
from pyvc.effects import result as _fres


def _schema_marker(cl, mod, cls, func):
    out = []
    nm = cl["name"]
    const = mod.consts.get("SCHEMA_VERSION")
    ok = isinstance(const, _ast.Constant) and const.value == "v1"
    out.append(_fres(nm + "/frozen-constant", "proved" if ok else "failed",
                     "" if ok else "SCHEMA_VERSION is %s, the frozen snapshot schema marker is 'v1'" % (_ast.unparse(const) if const is not None else "missing")))
    ws = mod.functions.get("write_snapshot")
    if ws is None:
        return out + [_fres(nm + "/anchors", "error", "anchor lost: write_snapshot")]
    lit = None
    for n in _ast.walk(ws):
        if isinstance(n, (_ast.Assign, _ast.AnnAssign)):
            tg = n.targets[0] if isinstance(n, _ast.Assign) else n.target
            if isinstance(tg, _ast.Name) and tg.id == "payload" and isinstance(n.value, _ast.Dict):
                lit = n
                break
    has = lit is not None and any(isinstance(k, _ast.Constant) and k.value == "schema_version" and _ast.unparse(v) == "SCHEMA_VERSION"
                                  for k, v in zip(lit.value.keys, lit.value.values))
    out.append(_fres(nm + "/body-carries-marker", "proved" if has else "failed",
                     "" if has else "write_snapshot's payload literal has no \"schema_version\": SCHEMA_VERSION entry"))
    bad = []
    for n in _ast.walk(ws):
        if lit is not None and getattr(n, "lineno", 0) <= lit.lineno:
            continue
        tgts = n.targets if isinstance(n, _ast.Assign) else [n.target] if isinstance(n, (_ast.AugAssign, _ast.AnnAssign)) else \
            n.targets if isinstance(n, _ast.Delete) else []
        for t in tgts:
            if isinstance(t, _ast.Subscript) and _ast.unparse(t.value) == "payload" and isinstance(t.slice, _ast.Constant) and t.slice.value == "schema_version":
                bad.append("line %d: %s" % (n.lineno, _ast.unparse(n)[:60]))
            if isinstance(t, _ast.Name) and t.id == "payload":
                bad.append("line %d: payload rebound" % n.lineno)
        if isinstance(n, _ast.Call) and isinstance(n.func, _ast.Attribute) and _ast.unparse(n.func.value) == "payload" \
                and n.func.attr in ("pop", "clear", "popitem") and (n.func.attr != "pop" or (n.args and getattr(n.args[0], "value", None) == "schema_version")):
            bad.append("line %d: %s" % (n.lineno, _ast.unparse(n)[:60]))
    out.append(_fres(nm + "/marker-not-removed-before-the-write", "failed" if bad else "proved", "; ".join(bad)))
    for fn_name in ("write_snapshot", "_write_lines"):
        fn = mod.functions.get(fn_name)
        calls = [n for n in _ast.walk(fn) if isinstance(n, _ast.Call) and getattr(n.func, "id", None) == "_write_sidecar_meta"] if fn else []
        ok = bool(calls) and all(any(k.arg == "schema_version" and _ast.unparse(k.value) == "SCHEMA_VERSION" for k in c.keywords) for c in calls)
        out.append(_fres(nm + "/sidecar-written-with-marker:" + fn_name, "proved" if ok else "failed",
                         "" if ok else "%s does not call _write_sidecar_meta(..., schema_version=SCHEMA_VERSION)" % fn_name))
    sm = mod.functions.get("_write_sidecar_meta")
    ok = sm is not None and any(isinstance(n, _ast.Dict) and any(isinstance(k, _ast.Constant) and k.value == "schema_version" and _ast.unparse(v) == "schema_version"
                                                                 for k, v in zip(n.keys, n.values)) for n in _ast.walk(sm))
    out.append(_fres(nm + "/sidecar-records-its-argument", "proved" if ok else "failed",
                     "" if ok else "_write_sidecar_meta does not store its schema_version argument under \"schema_version\""))
    return out


R.fclause("C06", "schema-marker", "custom", S + "write_snapshot", fn=_schema_marker)

# ---------------------------------------------------------------- meta.edges_count follows the re-keyed edge map (write-load-write fixpoint)
# Re-keying to "src→dst" can merge edges (same endpoints, different rel); the loader recomputes meta.edges_count from the
# edges it finds, so the writer must store the count of the *re-keyed* map or the second write differs from the first.
# Region: the statements of write_snapshot between the store of the new edge map and the end of the meta sync block.
from pyvc.jsonmodel import TJSON as _TJSON  # noqa: E402
if "Json" not in R.types.named:
    R.types.declare("Json", _TJSON)
R.dictrec("C06GelW", {"edges": "OrderedDict[str, C06EdgeId]", "meta": "Dict[str, Json]"})
R.dictrec("C06GelWNoMeta", {"edges": "OrderedDict[str, C06EdgeId]"})
def _meta_sync_block(fn):
    """the store of the re-keyed edge map and every statement after it in the same statement list (structural anchor:
    survives rewrites of the sync block itself)"""
    for n in _ast.walk(fn):
        for fld in ("body", "orelse", "finalbody"):
            body = getattr(n, fld, None)
            if not isinstance(body, list):
                continue
            for i, st in enumerate(body):
                if (isinstance(st, _ast.Assign) and len(st.targets) == 1 and _ast.unparse(st.targets[0]) in ("gel_out['edges']", 'gel_out["edges"]')
                        and _ast.unparse(st.value) == "new_edges"):
                    return body[i:]
    return []


R.region("meta-sync", _meta_sync_block)
_EC_JSON = ("'meta' in gel_out and 'edges_count' in gel_out['meta'] and jv_int_ok(gel_out['meta']['edges_count']) and "
            "jv_int_val(gel_out['meta']['edges_count']) == len(new_edges)")
_EC_PLAIN = "'meta' in gel_out and 'edges_count' in gel_out['meta'] and gel_out['meta']['edges_count'] == len(new_edges)"
for _lbl, _ty, _ec in (("meta present", "C06GelW", _EC_JSON), ("meta absent", "C06GelWNoMeta", _EC_PLAIN)):
    R.contract(
        S + "write_snapshot#meta-sync", "C06", name="write_snapshot/meta-sync[%s]" % _lbl, callee=False,
        types={"gel_out": _ty, "new_edges": "OrderedDict[str, C06EdgeId]"},
        ensures=[
            ("edges-count-is-size-of-rekeyed-map", _ec),
            ("schema-tag-present", "'schema' in gel_out['meta']"),
            ("edges-stored", "seq_eq(gel_out['edges'], new_edges)"),
        ],
        raises="none",
        unreachable_ok=["pass"],     # the defensive `except Exception: pass` of the sync block: dict stores cannot raise
    )


# ---------------------------------------------------------------- "loading the latest snapshot": newest by raw mtime
# Among state_*.json / *.json candidates the pick is the one with the greatest modification time.  Engine-F clause: every
# descending sort in _pick_latest_snapshot_path whose key looks at the modification time uses os.path.getmtime(p) itself
# as the key (a lossy key -- int(), round(), a tuple with a truncated first component -- merges distinct times and lets
# something other than the write order decide which snapshot is "latest"; also registered for C01: which snapshot a boot
# loads must not depend on how fast the turns ran).
def _newest_by_raw_mtime(cl, mod, cls, func):
    sorts = [n for n in _ast.walk(func) if isinstance(n, _ast.Call) and isinstance(n.func, _ast.Attribute) and n.func.attr == "sort"
             and any(k.arg == "key" for k in n.keywords)]
    out = []
    seen = 0
    helpers = {f.name: f for f in mod.tree.body if isinstance(f, _ast.FunctionDef)}
    for c in sorts:
        key = [k.value for k in c.keywords if k.arg == "key"][0]
        body = key.body if isinstance(key, _ast.Lambda) else (helpers[key.id] if isinstance(key, _ast.Name) and key.id in helpers else key)
        src = _ast.unparse(body)
        if "getmtime" not in src:
            continue
        seen += 1
        ok = (isinstance(key, _ast.Lambda) and len(key.args.args) == 1
              and _ast.unparse(key.body) in ("os.path.getmtime(%s)" % key.args.args[0].arg,)) or _ast.unparse(key) == "os.path.getmtime"
        out.append(_fres("%s#%d" % (cl["name"], seen - 1), "proved" if ok else "failed",
                         "" if ok else "candidates at line %d are ordered by `%s`, not by the modification time itself" % (c.lineno, _ast.unparse(key))))
    if not seen:
        return [_fres(cl["name"], "error", "anchor lost: no mtime-ordered sort in _pick_latest_snapshot_path")]
    return out


R.fclause(["C06", "C01"], "discovery/newest-by-raw-mtime", "custom", S + "_pick_latest_snapshot_path", fn=_newest_by_raw_mtime)
