"""C06 -- snapshots round-trip the state they were written from (clematis/engine/snapshot.py)."""
from pyvc.verifier import REG as R

S = "clematis/engine/snapshot.py:"

# ---------------------------------------------------------------------------------------------------------
# round(x, 6) is the engine's uninterpreted `round_nd(x, 6)` (floats are mathematical reals).  Everything the
# contracts use about it is listed here and is TRUSTED (facts of CPython's correctly rounded round-half-even
# on binary64, read over the reals):
ROUND_FACTS = [
    # R1 nearest: the result is within half a unit of the 6th decimal
    "forall((x, 'float'), True, round(x, 6) - x <= 1 / 2000000 and x - round(x, 6) <= 1 / 2000000)",
    # R2 idempotent: a value with 6 decimals is a fixed point
    "forall((x, 'float'), True, round(round(x, 6), 6) == round(x, 6))",
    # R3 monotone
    "forall((x, 'float'), True, forall((y, 'float'), x <= y, round(x, 6) <= round(y, 6)))",
    # R4 zero is on the grid
    "round(0.0, 6) == 0.0",
]

# ---------------------------------------------------------------- pure helpers

R.contract(
    S + "_clamp", "C06",
    types={"x": "float", "lo": "float", "hi": "float"}, returns="float",
    ensures=[
        ("in-range-when-ordered", "implies(lo <= hi, lo <= result and result <= hi)"),
        ("identity-inside", "implies(lo <= x and x <= hi, result == x)"),
        ("idempotent", "implies(lo <= hi, clampf(result, lo, hi) == result)"),
    ],
    pure_result="clampf(x, lo, hi)", raises="none",
    # `except Exception: return x` guards comparisons of non-numbers; on floats `<`/`>` never raise
    unreachable_ok=["return x"],
)

R.contract(
    S + "_round6", "C06",
    types={"x": "float"}, returns="float", axioms=ROUND_FACTS,
    ensures=[
        ("six-decimals-nearest", "absr(result - x) <= 1 / 2000000"),
        ("idempotent", "round6(result) == result"),
        ("zero-fixed", "implies(x == 0.0, result == 0.0)"),
    ],
    pure_result="round6(x)", raises="none",
    # floats are reals here (A-REAL): math.isfinite(x) is always true, so the non-finite arm `return 0.0` and the
    # `except Exception` arm (float() of a non-number) are not reachable in this model; see the NaN variant below
    unreachable_ok=["return 0.0"],
)

R.contract(
    S + "_edge_id", "C06",
    types={"src": "str", "dst": "str", "rel": "str"}, returns="str",
    ensures=[
        ("format", "result == ite(src <= dst, src + '__' + dst + '__' + rel, dst + '__' + src + '__' + rel)"),
        ("symmetric-in-src-dst", "result == edge_id_of(dst, src, rel)"),
    ],
    pure_result="edge_id_of(src, dst, rel)", raises="none",
)

# ---------------------------------------------------------------- _graph_bounds_from_cfg
# ctx.cfg / ctx.config are plain dicts or SimpleNamespace-like objects; keys may be absent at every level.
# One contract variant per presence pattern (the shapes are python-side dict records, so presence is static).
R.dictrec("C06Decay", {"epsilon_prune": "float"})
R.dictrec("C06GraphFull", {"weight_min": "float", "weight_max": "float", "decay": "C06Decay"})
R.dictrec("C06GraphDecayOnly", {"decay": "C06Decay"})
R.dictrec("C06GraphMinOnly", {"weight_min": "float"})
R.dictrec("C06T4", {"weight_min": "float", "weight_max": "float"})
R.dictrec("C06CfgBoth", {"graph": "C06GraphFull", "t4": "C06T4"})
R.dictrec("C06CfgT4Only", {"t4": "C06T4"})
R.dictrec("C06CfgEmpty", {})
R.dictrec("C06CfgDecayT4", {"graph": "C06GraphDecayOnly", "t4": "C06T4"})
R.dictrec("C06CfgMinT4", {"graph": "C06GraphMinOnly", "t4": "C06T4"})
R.objtype("C06NsCfg", {"graph": "C06GraphFull"})          # SimpleNamespace(graph={...})


def _bounds(variant, ctxfields, wmin, wmax, eps, unreachable=()):
    tname = "C06Ctx_" + variant.replace("-", "_").replace("+", "_").replace(".", "_")
    R.objtype(tname, ctxfields)
    R.contract(
        S + "_graph_bounds_from_cfg", "C06", name="_graph_bounds_from_cfg[%s]" % variant, callee=False,
        types={"ctx": tname},
        ensures=[
            ("wmin-below-wmax", "result['wmin'] < result['wmax']"),
            ("eps-nonnegative", "result['eps'] >= 0"),
            ("bounds-from-config-or-default",
             "result['wmin'] == ite(%s < %s, %s, -1.0) and result['wmax'] == ite(%s < %s, %s, 1.0)" % (wmin, wmax, wmin, wmin, wmax, wmax)),
            ("eps-from-config-clipped", "result['eps'] == ite(%s < 0, 0.0, %s)" % (eps, eps)),
            ("exactly-three-keys", "len(result) == 3"),
        ],
        raises="none",
        unreachable_ok=list(unreachable),
    )


G = "ctx.cfg['graph']"
_bounds("graph+t4", {"cfg": "C06CfgBoth"}, G + "['weight_min']", G + "['weight_max']", G + "['decay']['epsilon_prune']")
_bounds("t4-only", {"cfg": "C06CfgT4Only"}, "ctx.cfg['t4']['weight_min']", "ctx.cfg['t4']['weight_max']", "0.0")
# with the defaults -1.0 < 1.0 the "fallback safety" assignment cannot fire
_bounds("empty", {"cfg": "C06CfgEmpty"}, "-1.0", "1.0", "0.0", unreachable=["wmin, wmax = (-1.0, 1.0)"])
_bounds("no-cfg-attr", {}, "-1.0", "1.0", "0.0", unreachable=["wmin, wmax = (-1.0, 1.0)"])
_bounds("graph.decay+t4", {"cfg": "C06CfgDecayT4"}, "ctx.cfg['t4']['weight_min']", "ctx.cfg['t4']['weight_max']",
        "ctx.cfg['graph']['decay']['epsilon_prune']")
_bounds("graph.min+t4.max", {"cfg": "C06CfgMinT4"}, "ctx.cfg['graph']['weight_min']", "ctx.cfg['t4']['weight_max']", "0.0")
_bounds("config-namespace", {"config": "C06NsCfg"}, "ctx.config.graph['weight_min']", "ctx.config.graph['weight_max']",
        "ctx.config.graph['decay']['epsilon_prune']")

# ---------------------------------------------------------------- discovery over an abstract directory listing
# pyvc/ext_listing.py: os.path.isdir / os.listdir / os.path.join / os.path.getmtime over ghost state.
# String reasoning is kept out of the verification conditions: os.path.join is the opaque `path_join`, the shape
# of a numbered snapshot name is the opaque `is_snap` / `snap_no`; what the clauses need about them are the axioms
# below, each one proved (for all strings) by the lemma `discovery_strings` from the definitions.
R.uf("is_snap", ["str"], "bool")
R.uf("snap_no", ["str"], "int")
PICK_AXIOMS = [
    # definitions (the code tests exactly this; is_snap_name / snap_num are spec helpers in specs.py)
    "forall((n, 'str'), True, is_snap(n) == is_snap_name(n))",
    "forall((n, 'str'), True, snap_no(n) == snap_num(n))",
    # lemma discovery_strings/join-keeps-.json
    "forall((n, 'str'), n.endswith('.json'), path_join(directory, n).endswith('.json'))",
    # lemma discovery_strings/.json-is-not-a-temp-name
    "forall((s, 'str'), s.endswith('.json'), not is_tmp_name(s))",
]
LISTED = "exists(i, 0 <= i < len(fs_listing), fs_listing[i].endswith('.json') and some(result) == path_join(directory, fs_listing[i]))"


# str.isdigit() accepts digits that int() rejects (e.g. U+00B2 SUPERSCRIPT TWO): exactly then discovery raises
BAD_SNAP = ("exists(i, 0 <= i < len(fs_listing), fs_listing[i].endswith('.json') and fs_listing[i].startswith('snap_') and "
            "fs_listing[i][5:-5].isdigit() and not int_parses(fs_listing[i][5:-5]))")


def _pick(variant, mtime_fails, unreachable):
    R.contract(
        S + "_pick_latest_snapshot_path", "C06", name="_pick_latest_snapshot_path[%s]" % variant, callee=False,
        types={"directory": "str"}, returns="Optional[str]",
        ghost={"fs_isdir": ("bool", "any"), "fs_listing": ("List[str]", "any"), "fs_mtime_fails": ("bool", mtime_fails),
               "fs_listdir_raised": ("bool", "False")},
        axioms=PICK_AXIOMS,
        ensures=[
            ("picks-a-listed-json-body", "implies(not is_none(result), " + LISTED + ")"),
            ("result-ends-with-.json", "implies(not is_none(result), some(result).endswith('.json'))"),
            ("never-a-.json.meta-sidecar", "implies(not is_none(result), not some(result).endswith('.json.meta'))"),
            ("never-an-atomic-writer-temp-name", "implies(not is_none(result), not is_tmp_name(some(result)))"),
            ("none-iff-nothing-to-pick",
             "is_none(result) == (not fs_isdir or fs_listdir_raised or "
             "forall(i, 0 <= i < len(fs_listing), not fs_listing[i].endswith('.json')))"),
        ],
        raises={"ValueError": BAD_SNAP}, timeout_ms=8000,
        loops={0: {"inv": [
            "forall(j, 0 <= j < len(numbered), exists(i, 0 <= i < _i, is_snap(_iter[i]) and "
            " numbered[j][1] == path_join(directory, _iter[i]) and numbered[j][0] == snap_no(_iter[i])))",
        ]}},
        locals={"numbered": "List[Tuple[int, str]]", "stem": "str"},
        unreachable_ok=unreachable,
    )


# `names` was already filtered by the comprehension, so the `continue` guard inside the loop is dead code;
# with a working getmtime the two `except Exception: xs.sort()` arms are not taken (and vice versa the code after a
# failing sort(key=getmtime) is the plain sort)
_pick("mtime-ok", "False", ["continue", "state_candidates.sort()", "any_json.sort()"])
_pick("mtime-raises", "True", ["continue"])


# the same function on two *concrete* listings (symbolic directory name), loops unrolled: a numbered snapshot whose
# digits are not decimal digits makes discovery raise ValueError (natively confirmed: "snap_\u00b2\u00b3.json")
def _pick_concrete(variant, listing, ensures, raises):
    R.contract(
        S + "_pick_latest_snapshot_path", "C06", name="_pick_latest_snapshot_path[%s](bounded)" % variant, callee=False,
        mode="bounded", unroll=4, types={"directory": "str"}, returns="Optional[str]",
        ghost={"fs_isdir": ("bool", "True"), "fs_listing": ("Tuple[%s]" % ", ".join(["str"] * len(listing)), repr(tuple(listing))),
               "fs_mtime_fails": ("bool", "False"), "fs_listdir_raised": ("bool", "False")},
        axioms=PICK_AXIOMS[2:], ensures=[(n, "implies(not fs_listdir_raised, %s)" % e) for n, e in ensures], raises=raises, loops={0: None}, replay="c06_snapshot:pick_listing",
        unreachable_ok=["return None", "continue", "state_candidates.sort()", "any_json.sort()",
                        "state_candidates = ", "if state_candidates:", "any_json = ", "if not any_json:", "try:", "return any_json[0]",
                        "return state_candidates[0]"],
    )


_pick_concrete("listing=snap_7,snap_12,state_a,tmp,meta",
               ["snap_7.json", "snap_12.json", "state_a.json", "state_a.json.k3j2h1g0", "snap_12.json.meta"],
               [("highest-number-wins", "result == path_join(directory, 'snap_12.json')")], "none")
_pick_concrete("listing=snap_\u00b2\u00b3,state_x", ["snap_\u00b2\u00b3.json", "state_x.json"],
               [("falls-back-to-state-file", "result == path_join(directory, 'state_x.json')")], "none")

# ---------------------------------------------------------------- string lemmas behind the discovery axioms

def _discovery_strings():
    """the two string axioms of PICK_AXIOMS, from the definitions of os.path.join (posix, two arguments) and of the
    atomic writer's temp names; plus: the sidecar and temp names the writers create are never `*.json` names"""
    import z3
    from pyvc.ext_listing import path_join2
    d, n, s, p, r = z3.Strings("d n s p r")
    J, M = z3.StringVal(".json"), z3.StringVal(".json.meta")
    ch = z3.Union(z3.Range("a", "z"), z3.Range("0", "9"), z3.Re(z3.StringVal("_")))
    tmp_re = z3.Concat(z3.Full(z3.ReSort(z3.StringSort())), z3.Re(z3.StringVal(".")), z3.Loop(ch, 8, 8))
    rand8 = z3.InRe(r, z3.Loop(ch, 8, 8))
    fast = {"z3_timeout_ms": 3000}
    return [
        ("join-keeps-.json", [z3.SuffixOf(J, n)], z3.SuffixOf(J, path_join2(d, n)), fast),
        (".json-is-not-a-temp-name", [z3.SuffixOf(J, s)], z3.Not(z3.InRe(s, tmp_re)), fast),
        (".json-is-not-a-sidecar-name", [z3.SuffixOf(J, s)], z3.Not(z3.SuffixOf(M, s)), fast),
        # clematis/engine/snapshot.py:_write_sidecar_meta writes p + ".meta"
        ("sidecar-name-is-not-.json", [], z3.Not(z3.SuffixOf(J, z3.Concat(p, z3.StringVal(".meta")))), fast),
        # clematis/io/atomic.py:_make_tmp: NamedTemporaryFile(prefix=final.name + ".") -> final.name + "." + 8 x [a-z0-9_]
        ("temp-name-is-a-temp-name", [rand8], z3.InRe(z3.Concat(p, z3.StringVal("."), r), tmp_re), fast),
        ("temp-name-is-not-.json", [rand8], z3.Not(z3.SuffixOf(J, z3.Concat(p, z3.StringVal("."), r))), fast),
    ]


R.lemma("discovery_strings", "C06", _discovery_strings)
