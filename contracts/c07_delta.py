"""C07 -- delta snapshots reconstruct the full payload exactly (clematis/engine/util/snapshot_delta.py)."""
import os
from pyvc.verifier import REG as R

SD = "clematis/engine/util/snapshot_delta.py:"
DRV = os.path.join(os.path.dirname(os.path.abspath(__file__)), "_drivers.py") + ":"

# local variable types of the codec functions (interpreted inline from the round-trip harness)
R.loops(SD + "_walk_diff", {}, locals={"b": "JObj", "c": "JObj", "adds": "JObj", "mods": "JObj", "dels": "JList"})
R.loops(SD + "_set_path", {}, locals={"nxt": "JObj"})
R.loops(SD + "_del_path", {}, locals={"cur": "JObj"})
R.loops(SD + "apply_delta", {}, locals={"out": "JObj", "adds": "JObj", "mods": "JObj"})

MAXWORDS = 2


def roundtrip(bshape, cshape, requires=(), tag=""):
    nm = "roundtrip[%s -> %s]%s(bounded)" % (bshape.replace(" ", ""), cshape.replace(" ", ""), tag)
    R.contract(
        DRV + "c07_roundtrip", "C07", name=nm, mode="bounded", unroll=6, callee=False,
        types={"base": "=jtree('b', %r, %d)" % (bshape, MAXWORDS), "curr": "=jtree('c', %r, %d)" % (cshape, MAXWORDS)},
        requires=list(requires),
        ensures=[("roundtrip", "result == old(curr)"),
                 ("inputs-untouched", "base == old(base) and curr == old(curr)")],
        raises="none",
    )


roundtrip("[]", "[0]")
roundtrip("[[0], 0]", "[[0]]")
